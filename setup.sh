#!/bin/bash
# Offline build of the lab in both profiles against /repo's current working tree.
set -e
cd "$(dirname "$0")/lab"
export CARGO_NET_OFFLINE=true
cargo build --offline --profile checked --bins
cargo build --offline --profile release --bins
