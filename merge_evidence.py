#!/usr/bin/env python3
"""Merges the per-profile evidence files written by one check run into evidence/<id>.json."""
import json, os, sys

def main():
    out, ins = sys.argv[1], sys.argv[2:]
    docs = []
    for p in ins:
        if os.path.exists(p):
            docs.append(json.load(open(p)))
            os.remove(p)
    if not docs:
        print("no evidence produced", file=sys.stderr)
        return 2
    m = docs[0]
    cov = m["coverage"]
    cov["profiles"] = [d["coverage"].get("profile") for d in docs]
    for d in docs[1:]:
        c = d["coverage"]
        for k in ("evaluations", "distinct_nontrivial", "states", "transitions", "traces_validated_against_impl"):
            cov[k] = cov.get(k, 0) + c.get(k, 0)
        cov["exhaustive"] = bool(cov.get("exhaustive")) and bool(c.get("exhaustive"))
        cov["parts"] = cov.get("parts", []) + c.get("parts", [])
        cov["samples"] = (cov.get("samples", []) + c.get("samples", []))[:8]
        for k, v in c.get("outcome_counts", {}).items():
            cov.setdefault("outcome_counts", {})[k] = cov.get("outcome_counts", {}).get(k, 0) + v
        for k in ("caps_hit", "machinery_errors", "violations"):
            if k in c:
                cov[k] = cov.get(k, []) + c[k]
        for k in ("known_findings_hit", "violations_of_other_properties_seen"):
            if k in c:
                tgt = cov.setdefault(k, {})
                for kk, vv in c[k].items():
                    tgt[kk] = tgt.get(kk, 0) + vv
        m["wall_s"] = m.get("wall_s", 0) + d.get("wall_s", 0)
        m["violations"] = m.get("violations", 0) + d.get("violations", 0)
    json.dump(m, open(out, "w"), indent=1)
    return 0

sys.exit(main())
