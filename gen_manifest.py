#!/usr/bin/env python3
"""Generates MANIFEST.json from the table below (kept in one place so it stays valid)."""
import json, os

ALL = ["C%02d" % i for i in range(1, 21)]

CHECKS = {
 "C01": dict(level="model_checking", design="DESIGN.md §4 C01",
   technique="explicit-state BFS with exact state de-duplication over operation histories of the real VirtQueue (replay-based, every transition executed on the implementation), reference split-ring device as oracle",
   text="Every submission/completion/poll history up to the stated depth, for queue sizes 1-16, all 8 flag configurations, legacy and modern layout and index offsets that wrap inside the window, is executed on the real VirtQueue; a spec-written reference device validates each published chain against the caller's buffers through a bouncing platform ledger. Exhaustive within the bounds reported in the evidence.",
   note="Trusts: the reference ring walker (lab/src/ring.rs), LabHal ledger, the cfg-guarded read-only snapshot hook; sequentially consistent memory; sizes > 16 only through C06."),
 "C03": dict(level="model_checking", design="DESIGN.md §4 C03",
   technique="explicit-state BFS over histories (any completion permutation, right/wrong/empty polls) against a boring reference model of the ring; checked and release profiles; linear >65536-cycle run for index wrap",
   text="Same exploration as C01 with a reference model of outstanding chains and a FIFO of completions: return values, byte counts, refusal conditions, absence of side effects of failed calls (whole-snapshot equality), descriptor counts and free-list integrity are compared after every step, including across 16-bit index wrap.",
   note="Trusts the reference model (lab/src/qcore.rs), the snapshot/warp hook (warp faithfulness is itself checked in the thorough tier)."),
 "C04": dict(level="model_checking", design="DESIGN.md §4 C04",
   technique="explicit-state BFS over histories with a bouncing, ledger-keeping Hal; per-step comparison of the exact multiset of share/unshare calls and of buffer contents",
   text="Same exploration as C01 on a platform layer that bounces every buffer to a distinct device address: each step's share/unshare calls must be exactly those the property prescribes (arguments included), every address the device is given must resolve in the ledger, and device-written bytes must reach the caller's buffers exactly at pop_used.",
   note="Trusts LabHal (lab/src/hal.rs)."),
 "C05": dict(level="model_checking", design="DESIGN.md §4 C05",
   technique="exhaustive sweep of the notification predicate over all (avail_idx, avail_event) pairs against the specification's vring_need_event; BFS histories with interrupt-suppression operations; exhaustive DFS co-simulation of blocking helpers over device servicing policies (device runs inside notify and inside the busy-wait hook)",
   text="should_notify() on the real queue is compared with the specification's predicate for every 16-bit index pair (thorough: all 2^32 pairs per queue size; quick: all 2^16 indices x a window of events and boundary values) and every batch size up to the queue size; the device-visible interrupt-suppression state is checked after every step of every explored history; blocking helpers are run against notify-only, polling and late devices with a livelock horizon.",
   note="Trusts vring_need_event as transcribed from the specification, the spin hook (H2) and the warp hook (H3). Hardware store->load ordering is not visible to an SC explorer."),
 "C06": dict(level="exploration", design="DESIGN.md §4 C06",
   technique="complete enumeration of the finite configuration space (sizes x layouts x flags x transport answers) on the real VirtQueue::new/Drop with a ledger-keeping Hal",
   text="Every power-of-two size 1..32768, modern and legacy layout, all 8 flag combinations, both queue_used answers and all relevant max_queue_size answers: the queue_set arguments, the DMA ledger and the registered memory are checked for alignment, extent, disjointness, containment in live DMA memory of a permitting direction, zeroed rings, legacy placement, refusal without side effects and exact release on drop.",
   note="Behaviour depends on max_queue_size only through max<N, so large sizes use boundary representatives (stated in the evidence)."),
 "C10": dict(level="exploration", design="DESIGN.md §4 C10",
   technique="complete enumeration of transport operations and argument boundary sets on the real MmioTransport with every MMIO access intercepted (safe-mmio custom backend) and served by a register-level reference device; oracle = constraints from the specification's register table",
   text="Every Transport method of MmioTransport, directly and through SomeTransport, on version 1 and 2 devices, for all queue indices, power-of-two sizes, address triples, feature words, status and interrupt values and device lag, all ordered pairs (thorough: triples) of operations, real initialisation with a real queue, and 56875 probe headers: each access must be a 32-bit access to a register defined for that operation and version in the permitted direction, with queue selection first, correct low/high splitting, QueueReady/QueuePFN last, reset on drop, and the device-side effect must match the arguments.",
   note="Trusts the register-level device model (lab/src/regdev.rs) written from virtio-mmio spec 4.2.2/4.2.4. Reading ConfigGeneration on legacy devices is tolerated."),
 "C12": dict(level="exploration", design="DESIGN.md §4 C12",
   technique="complete enumeration of BAR encodings x initial command values, slot assignments, all 4.2M configuration addresses per mechanism, bus populations and capability lists against a reference PCI function model behind ConfigurationAccess (and behind MmioCam through MMIO interception)",
   text="PciRoot::bar_info/bars, Cam::cam_offset, MmioCam, enumerate_bus and capabilities are run on a reference PCI function model with hard-wired BAR bits and an ordered access log: returned values equal ground truth, command and BAR registers are restored, sizing patterns are only present while decoding is disabled, configuration offsets are distinct, inside the window and equal to the mechanism's encoding, enumeration reports exactly the functions present, capability walks yield each capability once in order.",
   note="Trusts the PCI function model (lab/src/pci_model.rs) written from PCI 3.0 section 6; reserved command bits modelled read-only zero."),
 "C11": dict(level="exploration", design="DESIGN.md §4 C11",
   technique="exhaustive enumeration of capability lists, BAR assignments and offset/length/multiplier boundary values (deviation bound 2) on the real PciTransport::new against a reference parser in 128-bit arithmetic; every later MMIO access intercepted and classified against the true windows; checked and release profiles",
   text="PciTransport::new runs over a reference PCI function model for every capability list up to the stated length, every BAR kind and boundary offset/length combination with up to two deviating capabilities, every notify multiplier and BAR index class, and cyclic lists: success/failure and the mapped windows must equal the reference parser's, every mmio_phys_to_virt request must lie inside an allocated memory BAR; then the whole Transport operation script runs on six layouts (plain and through SomeTransport) with each access checked against the standard common-configuration layout, queue selection, enable-last, notify offset x multiplier and reset-and-wait on drop.",
   note="Trusts the reference parser (lab/src/c11.rs, from virtio spec 4.1.4) and the PCI/virtio-pci register models. Which error is returned is not constrained."),
 "C13": dict(level="model_checking", design="DESIGN.md §4 C13",
   technique="exhaustive sweep of offset/width/window combinations on the real MMIO and PCI transports with intercepted accesses; deviation-bounded DFS over placements of device-side configuration updates between the individual register reads of each multi-field read (schedule enumeration on the real drivers); checked and release profiles",
   text="(a) every aligned offset up to window+8 and offsets near usize::MAX/2^63/2^32, 7 access types, windows 0..24 bytes and no window, on MMIO legacy/modern and PCI, reads and writes: success iff wholly inside, touching exactly those bytes once, otherwise the documented error and no access. (b) for block capacity, socket CID, console size, MAC address and 9P mount tag on MMIO-modern and PCI, every placement of up to 3 device-side configuration updates before any generation or field read: the value the driver reports must be the value of one single generation.",
   note="Trusts the register-level device models. Legacy MMIO has no generation counter; tearing there is outside the property's reach."),
 "C08": dict(level="exploration", design="DESIGN.md §4 C08",
   technique="complete enumeration of driver x transport x projected offered-feature sets on the real constructors, with an ordered device-side log (model transport calls, or register traces decoded by the register-level devices) and a co-simulated reference device observing the chains of a post-initialisation script",
   text="All 11 drivers on the model transport and the real MMIO legacy/modern and PCI transports (also through SomeTransport), for every subset of the driver's supported feature bits plus three unsupported representatives, every single bit and all ones: the ordered log must show reset, ACKNOWLEDGE|DRIVER, feature read, accepted subset of offered & supported including VERSION_1 when offered, FEATURES_OK, every queue_set before DRIVER_OK, no notification before DRIVER_OK; afterwards indirect descriptors, used_event writes, block flush, console size/emergency write, GPU EDID and the 10/12-byte network header appear exactly when negotiated.",
   note="2^64 offered sets are projected onto the <= 9 bits that can influence each driver (bitwise AND with a constant); the premise is checked on every case."),
 "C09": dict(level="fault_enumeration", design="DESIGN.md §4 C09",
   technique="exhaustive fault enumeration on the real constructors and Drop impls over the real transports: every k-th DMA allocation failing, every truncated configuration space, usage histories followed by drop; oracles = platform ledger, device liveness at each dma_dealloc (hook) and at each heap free of a still-posted buffer (global allocator interposer)",
   text="For all 11 drivers on the model, MMIO legacy/modern and PCI transports and several feature variants: each of the K DMA allocations of a fault-free construction is made to fail in turn, the configuration space is truncated to every shorter length (9P: also empty, non-UTF-8 and over-long tags), and fault-free usage histories of 0-3 steps (non-blocking requests left outstanding, stocked receive queues, held receive buffers) are followed by drop. Failure must be an error not a panic; every DMA region is returned exactly once with its original address, pointer, page count and flag; no queue region and no posted driver-owned heap buffer is released while the device is live on that queue.",
   note="Liveness is judged by the register-level device models (DRIVER_OK set, no reset since, queue enabled). Buffers of requests outstanding at drop stay shared: outside this property."),
 "C14": dict(level="model_checking", design="DESIGN.md §4 C14",
   technique="deviation-bounded DFS over operation sequences of the real VirtIOBlk against a reference in-memory disk that decodes every chain; device status and completion order are explored choices; bouncing Hal",
   text="Every sequence (bounded depth) of read/write over five sector/length variants including 2^32 and 2^64-1, flush, device_id and the non-blocking interface with up to three requests outstanding and completed by the device in every order, under four feature sets and device statuses OK/IOERR/UNSUPP/0xff: each chain must be header(type, reserved 0, sector) + data in the right direction + a one-byte writable status; caller buffers and the reference disk must agree; each completion returns its own request's status and data (request/response objects are reused without reset); capacity/readonly/flush gating checked.",
   note="Trusts the reference block device (lab/src/c14.rs) written from virtio spec 5.2.6."),
 "C15": dict(level="model_checking", design="DESIGN.md §4 C15",
   technique="exhaustive DFS over interleavings of device chunk deliveries (including inside blocking reads through the busy-wait hook) and every public receive/transmit call of the real VirtIOConsole, against a reference console device feeding a known byte stream",
   text="All interleavings up to the stated depth of device chunks of 1, 3 and 4096 bytes with recv(peek/pop), read(1|5), fill_buf+consume(0|1|all), read_ready, ack_interrupt, send and send_bytes: the concatenation of returned bytes must be a prefix of the device stream 1,2,3,..., peeks must not consume, at most one receive buffer is ever posted, it is re-posted only when every delivered byte has been handed to the caller, a blocking read never waits without a posted buffer, and transmit chains carry exactly the caller's bytes.",
   note="Trusts the reference console device (lab/src/c15.rs)."),
 "C16": dict(level="model_checking", design="DESIGN.md §4 C16",
   technique="exhaustive DFS over operation sequences of the real VirtIONetRaw and VirtIONet against a reference network device that validates transmit chains and injects frames into any posted buffer; posted/held buffer accounting after every step",
   text="All sequences up to the stated depth of sends, receives, recycles of any held buffer, non-blocking transmit/receive with any device completion order, receive_wait with the frame delivered during the wait, and device deliveries of 0/1/1514-byte or buffer-filling frames into any posted buffer, for both drivers, with and without VERSION_1: transmit chain = zeroed 10/12-byte header + exact payload; received bytes and packet length = what the device wrote minus the header; posted + completed + held = queue size at every step; can_recv/poll_receive agree with the reference ring.",
   note="Trusts the reference network device (lab/src/c16.rs)."),
 "C17": dict(level="model_checking", design="DESIGN.md §4 C17",
   technique="exhaustive DFS over interleavings of local operations and peer packets on the real VsockConnectionManager against a reference peer tracking both credit windows and both byte streams; byte counters preset near 2^32 through a cfg hook; checked and release profiles",
   text="Every interleaving up to the stated depth of send/recv of several sizes, update_credit, poll and peer RW / CREDIT_UPDATE (consume, shrink, grow) / CREDIT_REQUEST packets, for per-connection capacities 1, 3 and 4 and counter presets that wrap inside the window: every transmitted header must carry correct addressing, length, type, buf_alloc = capacity and fwd_cnt = bytes read (mod 2^32); a send is accepted exactly when it fits the peer's last advertised free space and otherwise refused with exactly one outstanding credit request; bytes read equal bytes the peer sent, in order.",
   note="Trusts the reference peer (lab/src/c17.rs) written from virtio spec 5.10.6.3; peer honours the advertised credit."),
 "C18": dict(level="model_checking", design="DESIGN.md §4 C18",
   technique="exhaustive DFS over sequences of local operations and peer packets on the real VsockConnectionManager in lock-step with a reference model of the connection table; every (peer, port) pair is compared after every step",
   text="Every sequence up to the stated depth over listen/unlisten/connect/send/recv/shutdown/force_close/update_credit/poll and peer REQUEST/RESPONSE/RST/SHUTDOWN/RW/CREDIT_UPDATE/CREDIT_REQUEST/invalid/unknown packets for two peers (differing in port only, resp. cid only) x two local ports, for our cid and a foreign one: events and errors returned, packets emitted with their addressing, connection existence/established state/buffered bytes of all four pairs and local-port usage must equal the model; after every polled packet, whatever its outcome, all 8 receive buffers are posted again.",
   note="Trusts the reference connection-table model (lab/src/c18.rs). Peers honour the advertised credit."),
 "C19": dict(level="model_checking", design="DESIGN.md §4 C19",
   technique="deviation-bounded DFS (CHESS-style) over device completion order, burst size and written length on the real OwningQueue (vsock receive, sound events) and VirtIOInput event queue, for runs of 4x the queue size",
   text="Runs of 32 (vsock) and 128 (input, sound) events so that every buffer is reused several times; all executions with up to the stated number of departures from oldest-first / burst 1 / full length are explored: each event is delivered once, in completion order, with exactly the device's bytes, and after every poll every token is either posted or awaiting consumption exactly once (the consumed buffer is re-posted under the same token before the call returns).",
   note="Trusts the reference event device (lab/src/c19.rs). Short writes into input/sound event buffers are device faults and belong to C07."),
 "C20": dict(level="model_checking", design="DESIGN.md §4 C20",
   technique="deviation-bounded DFS over public operation sequences of the real GPU, sound, entropy, clock and 9P drivers against reference devices decoding every chain from the specification's structures, with the device's response an explored choice; exhaustive EDID sweeps through the real get_edid path; platform ledger hook for backing memory; checked and release profiles",
   text="GPU: every sequence (bounded depth) over resolution, flush, cursor set-up/move, change_resolution over four sizes, setup_framebuffer and get_edid with honest / error / wrong-success responses (<= 2 per run): field-exact command encodings and required order, an error for every non-success response and no further commands after it, backing memory inside live DMA at attach time and never freed while attached (absent errors). Sound: parameter validation, field-exact control requests, per-status results, PCM data arriving exactly once in order in chunks <= period tagged with the stream id, non-blocking transfers completed in any order with per-token status, no transfer before parameters. Entropy/clock/9P: request shapes, byte order and results for every explored device answer. EDID: all 2^24 (quick 2^18) combinations of the decoded preferred-timing bits, all 2^16 values of a standard timing, ordering pairs and size values.",
   note="Trusts the reference devices (lab/src/c20.rs, c20_sound.rs) written from virtio spec 5.7, 5.14, virtio-rtc and VESA E-EDID. Blocking pcm_xfer is explored with in-order completion only."),
 "C02": dict(level="model_checking", design="DESIGN.md §2.4, §4 C02",
   technique="explicit-state BFS over operation histories of the real VirtQueue combined with exhaustive enumeration of observation instants inside each call: queue memory is page-protected and every driver instruction touching it is single-stepped (mprotect + SIGSEGV + x86 trap flag), with a snapshot after each; no source hooks",
   text="For every history up to the stated depth (direct and indirect, event-idx on/off, legacy and modern layout, index wrap offsets) and every instant after a machine instruction of the compiled driver that stored to the descriptor table or available ring: the available index the device could read never decreases or skips, everything below it (ring slot, descriptors, indirect table already shared) is complete and identical to its final form, the index store is the last store of a submission, and chains that are available but not completed are never disturbed by later calls.",
   note="Sequentially consistent observer at instruction granularity on x86-64; reorderings that only a weakly ordered CPU would expose are outside what this explorer can see. Trusts the tracer (lab/src/tracer.rs) and the reference ring walker."),
 "C07": dict(level="fault_enumeration", design="DESIGN.md §4 C07",
   technique="deviation-bounded DFS over a device-fault alphabet (used ids, lengths, index jumps, scribbling, response and receive contents) applied at every device action point of the raw VirtQueue and of short scripts of every driver, on the real code; store tracer for read-independence, differential re-run without scribbling, platform-ledger and slice-containment oracles, fatal-signal reporter; absurd configuration values each in an isolated child process",
   text="All executions with up to the stated number of device misbehaviours: every call must end in a result, an error or a caught panic (a fatal signal is reported with the execution's choice prefix; a wait that cannot end although the device answers honestly again is a livelock), no buffer or DMA region is unshared or released twice or with other arguments, every slice handed to the caller lies inside a buffer that was shared with the device, the driver never loads from the descriptor table or available ring (instruction-level tracer), and caller-visible results are identical with and without scribbling over those areas.",
   note="The adversary is finitely bad. A caught panic ends a script (state after a panic is unspecified). Silent heap corruption that none of the oracles expose is not detected in the quick tier. Two recorded known findings (device-controlled allocation in VirtIOSound::new)."),
}

NOT_YET = "check not built yet in this round (machinery under construction; see DESIGN.md)"

def main():
    checks = []
    for pid in ALL:
        if pid not in CHECKS:
            continue
        c = CHECKS[pid]
        checks.append({
            "property_id": pid,
            "quick_cmd": "./check %s quick" % pid,
            "thorough_cmd": "./check %s thorough" % pid,
            "evidence_file": "/verif/evidence/%s.json" % pid,
            "replay_cmd_template": "./check %s quick --replay {path}" % pid,
            "engine": "vlab",
            "level_claimed": {"category": c["level"], "text": c["text"], "design_ref": c["design"]},
            "level_note": c["note"],
            "technique": c["technique"],
        })
    m = {
        "version": 1,
        "setup_cmd": "./setup.sh",
        "hooks": {
            "guard": "cfg(virtio_drivers_verif)",
            "enable": "RUSTFLAGS=--cfg virtio_drivers_verif (set in lab/.cargo/config.toml; the lab crate depends on /repo by path, so every check rebuilds from /repo's working tree)",
            "baseline_off_cmd": "cd /repo && cargo test --workspace --no-fail-fast --offline",
            "source_commits": [l.split()[0] for l in os.popen("git -C /repo log --format='%h %s' | grep -i 'verif hooks'").read().strip().splitlines()],
            "add_only": True,
        },
        "engines": [{
            "name": "vlab",
            "path": "lab/",
            "serves_properties": sorted(CHECKS.keys()),
            "kind_free_text": "hand-written replay-based explorer in Rust over the real virtio-drivers code: BFS with exact state hashing for the queue core, deviation-bounded DFS over choice sequences for driver-level harnesses, exhaustive sweeps for finite input spaces",
        }],
        "checks": checks,
        "not_applicable": [{"property_id": p, "reason": NOT_YET} for p in ALL if p not in CHECKS],
        "notes": "All checks run the real compiled library code; no abstract model is involved, so trace conformance is by construction (every explored transition is an execution of the implementation).",
    }
    json.dump(m, open(os.path.join(os.path.dirname(os.path.abspath(__file__)), "MANIFEST.json"), "w"), indent=1)

main()
