//! C11: the PCI transport uses only capability windows that lie inside memory BARs.

use crate::c12::{layout_caps, new_bus, CapSpec, DF};
use crate::dev::{DevRc, VirtioDev};
use crate::hal::{self, LabHal};
use crate::mmio;
use crate::pci_model::{BarKind, BusRc, ModelCam, PciFunc};
use crate::regdev::{PciLayout, PciRegs, RegAccess, RegWorld, Region, Trace};
use std::cell::RefCell;
use std::rc::Rc;
use virtio_drivers::transport::pci::bus::PciRoot;
use virtio_drivers::transport::pci::PciTransport;
use virtio_drivers::transport::{DeviceStatus, DeviceType, SomeTransport, Transport};

#[derive(Clone, Copy, Debug, PartialEq, Eq, Hash)]
pub struct VCap {
    pub cap_id: u8,
    pub cap_len: u8,
    pub cfg_type: u8,
    pub bar: u8,
    pub offset: u32,
    pub length: u32,
    pub mult: u32,
    /// The `id` byte and the two padding bytes that follow `bar` (low 24 bits): they have no
    /// bearing on which capability the driver must use.
    pub idpad: u32,
}

impl VCap {
    pub fn spec(&self) -> CapSpec {
        // body starts at byte 2 of the capability: cap_len, cfg_type, bar, padding[3], offset, length, (mult)
        let mut b = vec![self.cap_len, self.cfg_type, self.bar, self.idpad as u8, (self.idpad >> 8) as u8, (self.idpad >> 16) as u8];
        b.extend(self.offset.to_le_bytes());
        b.extend(self.length.to_le_bytes());
        if self.cap_len >= 20 || self.cfg_type == 2 {
            b.extend(self.mult.to_le_bytes());
        }
        let want = (self.cap_len as usize).max(4).min(24) - 2;
        b.truncate(want.max(2));
        while b.len() < want {
            b.push(0);
        }
        CapSpec { id: self.cap_id, body: b }
    }
}

pub const GOOD_BAR: u8 = 4;
pub const GOOD_BAR_ADDR: u64 = 0x8_0000_0000;
pub const GOOD_BAR_SIZE: u64 = 0x4000;

pub fn good_common() -> VCap {
    VCap { cap_id: 9, cap_len: 16, cfg_type: 1, bar: GOOD_BAR, offset: 0, length: 0x38, mult: 0, idpad: 0 }
}
pub fn good_notify() -> VCap {
    VCap { cap_id: 9, cap_len: 20, cfg_type: 2, bar: GOOD_BAR, offset: 0x3000, length: 0x1000, mult: 4, idpad: 0 }
}
pub fn good_isr() -> VCap {
    VCap { cap_id: 9, cap_len: 16, cfg_type: 3, bar: GOOD_BAR, offset: 0x1000, length: 0x1000, mult: 0, idpad: 0 }
}
pub fn good_device() -> VCap {
    VCap { cap_id: 9, cap_len: 16, cfg_type: 4, bar: GOOD_BAR, offset: 0x2000, length: 0x1000, mult: 0, idpad: 0 }
}

#[derive(Clone, Debug, PartialEq, Eq)]
pub struct Windows {
    pub common: (u64, u64),
    pub notify: (u64, u64),
    pub isr: (u64, u64),
    pub devcfg: Option<(u64, u64)>,
    pub mult: u32,
}

/// Reference parser written from the VirtIO specification 4.1.4 in unbounded arithmetic.
pub fn reference(f: &PciFunc, caps: &[VCap]) -> Result<Windows, String> {
    let mut sel: [Option<VCap>; 5] = [None; 5];
    for c in caps {
        if c.cap_id != 9 || c.cap_len < 16 {
            continue;
        }
        let t = c.cfg_type as usize;
        if !(1..=4).contains(&t) {
            continue;
        }
        if t == 2 && c.cap_len < 20 {
            continue;
        }
        if c.bar > 5 {
            // 4.1.4.1: the driver MUST ignore any vendor-specific capability structure which has
            // a reserved bar value.
            continue;
        }
        if sel[t].is_none() {
            sel[t] = Some(*c);
        }
    }
    let region = |c: &VCap, need: u64, align: u64| -> Result<(u64, u64), String> {
        if c.bar > 5 {
            return Err(format!("capability names reserved BAR index {}", c.bar));
        }
        let i = c.bar as usize;
        let (addr, size) = match f.bars[i] {
            BarKind::Mem32 { size, .. } => (f.bar_address(i), size),
            BarKind::Mem64 { size, .. } if i < 5 => (f.bar_address(i), size),
            BarKind::Io { .. } => return Err("I/O BAR".into()),
            _ => return Err("BAR not implemented".into()),
        };
        if addr == 0 {
            return Err("BAR not allocated".into());
        }
        if (c.offset as u128) + (c.length as u128) > size as u128 {
            return Err("window exceeds BAR".into());
        }
        if (c.length as u64) < need {
            return Err("window too short".into());
        }
        if (addr as u128 + c.offset as u128) % align as u128 != 0 {
            return Err("window misaligned".into());
        }
        Ok((addr + c.offset as u64, c.length as u64))
    };
    // The driver accesses the 64-bit queue address fields with 64-bit accesses: 8-byte alignment
    // is what "suitably aligned for its use" means for the common configuration.
    let common = region(sel[1].as_ref().ok_or("no common cfg")?, 56, 8)?;
    let n = sel[2].as_ref().ok_or("no notify cfg")?;
    if n.mult % 2 != 0 {
        return Err("odd notify multiplier".into());
    }
    let notify = region(n, 2, 2)?;
    let isr = region(sel[3].as_ref().ok_or("no isr cfg")?, 1, 1)?;
    let devcfg = match sel[4].as_ref() {
        Some(c) => Some(region(c, 4, 4)?),
        None => None,
    };
    Ok(Windows { common, notify, isr, devcfg, mult: n.mult })
}

pub struct Built {
    pub bus: BusRc,
    pub dev: DevRc,
    pub trace: Trace,
    pub func: PciFunc,
}

pub fn build(bars: &[(usize, BarKind, u64)], caps: &[VCap], reverse_layout: bool, nqueues: usize) -> Built {
    hal::reset();
    let mut f = PciFunc::new(0x1af4, 0x1042);
    f.command = 0x0006;
    for (i, k, a) in bars {
        f.bars[*i] = *k;
        if let (BarKind::Mem64 { .. }, true) = (k, *i < 5) {
            f.bars[*i + 1] = BarKind::Mem64Hi;
        }
        f.set_bar_address(*i, *a);
    }
    let specs: Vec<CapSpec> = caps.iter().map(|c| c.spec()).collect();
    layout_caps(&mut f, &specs, reverse_layout);
    let bus = new_bus(f.clone(), DF);
    bus.borrow_mut().reads_budget = Some(20_000);
    let dev: DevRc = Rc::new(RefCell::new(VirtioDev::new(DeviceType::Block, 0x1_3000_0021, nqueues, 64, vec![0x11; 16])));
    let trace: Trace = Rc::new(RefCell::new(vec![]));
    Built { bus, dev, trace, func: f }
}

/// Clears the capabilities-list bit of the function's status register: the capabilities pointer
/// and the chain behind it stay in configuration space but are not advertised.
pub fn clear_list_bit(b: &mut Built) {
    b.func.status &= !0x10;
    if let Some(f) = b.bus.borrow_mut().funcs.get_mut(&(DF.bus, DF.device, DF.function)) {
        f.status &= !0x10;
    }
}

/// Constructs the transport; returns outcome and violations.
pub fn construct_case(b: &Built, caps: &[VCap]) -> (String, Vec<(String, String)>, Option<PciTransport>) {
    let want = reference(&b.func, caps);
    let mut out = vec![];
    // Install the register world with the *true* windows so that stray accesses are visible.
    let mut w = RegWorld::new(b.trace.clone());
    if let Ok(wd) = &want {
        let nq = b.dev.borrow().queues.len();
        let layout = PciLayout { common: wd.common, notify: wd.notify, isr: wd.isr, devcfg: wd.devcfg, notify_mult: wd.mult, notify_off: (0..nq as u16).map(|q| (q * 3 + 1) % 7).collect() };
        w.pci = Some(PciRegs::new(b.dev.clone(), layout));
    }
    mmio::set_handler(Some(Box::new(w)));
    let mut root = PciRoot::new(ModelCam { bus: b.bus.clone() });
    let before = b.bus.borrow().funcs[&(DF.bus, DF.device, DF.function)].visible_state();
    let r = crate::util::catch(|| PciTransport::new::<LabHal, _>(&mut root, DF));
    let after = b.bus.borrow().funcs[&(DF.bus, DF.device, DF.function)].visible_state();
    if before != after {
        out.push(("config-not-restored".into(), format!("constructing the transport changed command/BARs: {:x?} -> {:x?}", before, after)));
    }
    // Every mapping request must lie inside an allocated memory BAR.
    let maps = hal::with(|h| h.mmio_maps.clone());
    for (paddr, size, _) in &maps {
        let mut ok = false;
        for i in 0..6 {
            let (addr, bsize) = match b.func.bars[i] {
                BarKind::Mem32 { size, .. } => (b.func.bar_address(i), size),
                BarKind::Mem64 { size, .. } if i < 5 => (b.func.bar_address(i), size),
                _ => continue,
            };
            if addr != 0 && (*paddr as u128) >= addr as u128 && (*paddr as u128 + *size as u128) <= (addr as u128 + bsize as u128) {
                ok = true;
            }
        }
        if !ok {
            out.push(("map-outside-bar".into(), format!("mmio_phys_to_virt({:#x}, {:#x}) is not inside any allocated memory BAR", paddr, size)));
        }
    }
    let class;
    let mut transport = None;
    match r {
        Err(p) => {
            class = "panic".to_string();
            if p.contains("LAB-READ-BUDGET") {
                out.push(("construction-does-not-terminate".into(), "capability walk did not terminate within 20000 configuration reads".into()));
            } else {
                out.push(("construction-panic".into(), format!("PciTransport::new panicked: {}", p)));
            }
        }
        Ok(Err(e)) => {
            class = format!("err:{}", format!("{:?}", e).split(|c| c == '(' || c == ' ' || c == '{').next().unwrap_or(""));
            if let Ok(wd) = &want {
                out.push(("rejects-valid".into(), format!("construction failed with {:?} but every selected capability is valid: {:x?}", e, wd)));
            }
        }
        Ok(Ok(t)) => {
            class = "ok".to_string();
            match &want {
                Err(why) => out.push(("accepts-invalid".into(), format!("construction succeeded but the reference parser rejects the configuration: {}", why))),
                Ok(wd) => {
                    // The mappings requested must be exactly the reference windows.
                    let got: Vec<(u64, u64)> = maps.iter().map(|m| (m.0, m.1 as u64)).collect();
                    let mut exp = vec![wd.common, wd.notify, wd.isr];
                    if let Some(d) = wd.devcfg {
                        exp.push(d);
                    }
                    if got != exp {
                        out.push(("wrong-windows".into(), format!("windows mapped {:x?}, reference (first sufficiently long capability of each type) {:x?}", got, exp)));
                    }
                }
            }
            // Notification lands at queue_notify_off x the multiplier of the *selected* capability.
            let mut t = t;
            if let Ok(wd) = &want {
                let nq = b.dev.borrow().queues.len() as u16;
                for q in 0..nq {
                    b.trace.borrow_mut().clear();
                    let r = crate::util::catch(|| t.notify(q));
                    let off = ((q * 3 + 1) % 7) as u64 * wd.mult as u64;
                    let nw: Vec<(bool, u64, u8, u64)> = b.trace.borrow().iter().filter(|a| a.region != Region::PciCommon).map(|a| (a.write, a.off, a.width, a.value)).collect();
                    if off + 2 <= wd.notify.1 && (r.is_err() || nw != vec![(true, off, 2, q as u64)]) {
                        out.push(("notify-offset".into(), format!("notify({}) -> {:?} accessed {:x?}; expected one 16-bit write at queue_notify_off x multiplier {} = {:#x} inside the selected notify window", q, r.err(), nw, wd.mult, off)));
                    }
                }
                b.trace.borrow_mut().clear();
            }
            transport = Some(t);
        }
    }
    (class, out, transport)
}

// ------------------------------------------------------------------------------------------------
// Operations after construction.

pub fn common_field(off: u64, width: u8) -> Option<(&'static str, bool, bool)> {
    Some(match (off, width) {
        (0x00, 4) => ("device_feature_select", true, true),
        (0x04, 4) => ("device_feature", true, false),
        (0x08, 4) => ("driver_feature_select", true, true),
        (0x0c, 4) => ("driver_feature", true, true),
        (0x10, 2) => ("msix_config", true, true),
        (0x12, 2) => ("num_queues", true, false),
        (0x14, 1) => ("device_status", true, true),
        (0x15, 1) => ("config_generation", true, false),
        (0x16, 2) => ("queue_select", true, true),
        (0x18, 2) => ("queue_size", true, true),
        (0x1a, 2) => ("queue_msix_vector", true, true),
        (0x1c, 2) => ("queue_enable", true, true),
        (0x1e, 2) => ("queue_notify_off", true, false),
        (0x20, 8) | (0x20, 4) | (0x24, 4) => ("queue_desc", true, true),
        (0x28, 8) | (0x28, 4) | (0x2c, 4) => ("queue_driver", true, true),
        (0x30, 8) | (0x30, 4) | (0x34, 4) => ("queue_device", true, true),
        _ => return None,
    })
}

pub fn general(tr: &[RegAccess], out: &mut Vec<(String, String)>, ctx: &str) {
    for a in tr {
        match a.region {
            Region::PciCommon => match common_field(a.off, a.width) {
                None => out.push(("common-cfg-offset".into(), format!("{}: {}-byte access at common configuration offset {:#x} is not a field of the standard layout", ctx, a.width, a.off))),
                Some((name, _r, w)) => {
                    if a.write && !w {
                        out.push(("common-cfg-readonly".into(), format!("{}: write to read-only field {}", ctx, name)));
                    }
                }
            },
            Region::PciNotify | Region::PciIsr | Region::PciDevCfg => {}
            r => out.push(("access-outside-windows".into(), format!("{}: access {:?} at {:#x} (width {}) outside the capability windows", ctx, r, a.off, a.width))),
        }
    }
}

thread_local! {
    /// The device's queue selector as reconstructed from all register writes so far (a reset puts
    /// it back to 0): what counts is what the device holds, not whether this very operation wrote
    /// it, so an implementation remembering a still valid selection is fine.
    static QSEL: std::cell::Cell<u64> = const { std::cell::Cell::new(0) };
}

fn select_first(tr: &[RegAccess], q: u16, out: &mut Vec<(String, String)>, ctx: &str) {
    let mut sel: u64 = QSEL.with(|s| s.get());
    let mut flagged = false;
    for a in tr {
        if a.region != Region::PciCommon {
            continue;
        }
        if a.write && a.off == 0x16 {
            sel = a.value;
        } else if a.write && a.off == 0x14 && a.value == 0 {
            sel = 0;
        } else if (0x18..0x38).contains(&a.off) && sel != q as u64 && !flagged {
            flagged = true;
            out.push(("queue-not-selected".into(), format!("{}: per-queue field at {:#x} accessed while the device's queue_select was {}", ctx, a.off, sel)));
        }
    }
    QSEL.with(|s| s.set(sel));
}

/// Folds accesses of operations that are not per-queue into the tracked selector.
fn track_select(tr: &[RegAccess]) {
    let mut sel: u64 = QSEL.with(|s| s.get());
    for a in tr {
        if a.region == Region::PciCommon && a.write {
            if a.off == 0x16 {
                sel = a.value;
            } else if a.off == 0x14 && a.value == 0 {
                sel = 0;
            }
        }
    }
    QSEL.with(|s| s.set(sel));
}

/// Runs the full operation script on a constructed transport and checks every access.
pub fn ops_script<T: Transport>(t: &mut T, b: &Built, wd: &Windows, out: &mut Vec<(String, String)>) -> u64 {
    let mut n = 0;
    // Start from what the device model holds now.
    let mut cur = 0u64;
    crate::mmio::with_handler(|h| {
        if let Some(w) = h.as_any().downcast_mut::<RegWorld>() {
            if let Some(p) = w.pci.as_ref() {
                cur = p.queue_sel as u64;
            }
        }
    });
    QSEL.with(|s| s.set(cur));
    let mut step = |name: &str, tr: &[RegAccess], out: &mut Vec<(String, String)>| {
        general(tr, out, name);
        if !matches!(name, "max_queue_size" | "queue_used" | "queue_set" | "notify") {
            track_select(tr);
        }
    };
    let take = |b: &Built| -> Vec<RegAccess> { std::mem::take(&mut *b.trace.borrow_mut()) };
    let notify_off: Vec<u16> = (0..b.dev.borrow().queues.len() as u16).map(|q| (q * 3 + 1) % 7).collect();
    take(b);
    // features
    let f = t.read_device_features();
    let tr = take(b);
    step("read_device_features", &tr, out);
    if f != b.dev.borrow().offered {
        out.push(("features-value".into(), format!("read_device_features = {:#x}, device offers {:#x}", f, b.dev.borrow().offered)));
    }
    n += 1;
    for v in [0u64, 0x1_0000_0001, u64::MAX, 0x8000_0000_8000_0000] {
        t.write_driver_features(v);
        let tr = take(b);
        step("write_driver_features", &tr, out);
        if b.dev.borrow().driver_features != v {
            out.push(("driver-features-value".into(), format!("device received {:#x}, caller passed {:#x}", b.dev.borrow().driver_features, v)));
        }
        n += 1;
    }
    for s in [1u32, 3, 11, 15] {
        t.set_status(DeviceStatus::from_bits_retain(s));
        let tr = take(b);
        step("set_status", &tr, out);
        let ws: Vec<_> = tr.iter().filter(|a| a.write).map(|a| (a.off, a.width, a.value)).collect();
        if ws != vec![(0x14, 1, s as u64)] {
            out.push(("set-status".into(), format!("set_status({}) wrote {:x?}", s, ws)));
        }
        let g = t.get_status().bits();
        let tr = take(b);
        step("get_status", &tr, out);
        if g != s {
            out.push(("get-status".into(), format!("get_status = {}, device status {}", g, s)));
        }
        n += 2;
    }
    let nq = b.dev.borrow().queues.len() as u16;
    for q in 0..nq {
        let m = t.max_queue_size(q);
        let tr = take(b);
        step("max_queue_size", &tr, out);
        select_first(&tr, q, out, "max_queue_size");
        if m != 64 {
            out.push(("max-queue-size".into(), format!("max_queue_size({}) = {}", q, m)));
        }
        let used = t.queue_used(q);
        let tr = take(b);
        step("queue_used", &tr, out);
        select_first(&tr, q, out, "queue_used");
        if used {
            out.push(("queue-used".into(), format!("queue_used({}) = true before queue_set", q)));
        }
        let (d, dr, de) = (0x1_2345_6000u64 + q as u64 * 0x10000, 0xffff_f000_0000_1000u64 + q as u64, 0x7fff_ffff_ffff_f000u64 - q as u64 * 8);
        t.queue_set(q, 8 << q.min(3), d, dr, de);
        let tr = take(b);
        step("queue_set", &tr, out);
        select_first(&tr, q, out, "queue_set");
        let ws: Vec<_> = tr.iter().filter(|a| a.write && a.region == Region::PciCommon).map(|a| (a.off, a.value)).collect();
        if ws.last() != Some(&(0x1c, 1)) {
            out.push(("enable-not-last".into(), format!("queue_enable=1 is not the last write of queue_set: {:x?}", ws)));
        }
        {
            let dv = b.dev.borrow();
            let r = &dv.queues[q as usize];
            if !r.enabled || r.a.size != (8u32 << q.min(3)) || r.a.desc != d || r.a.driver != dr || r.a.device != de {
                out.push(("queue-set-effect".into(), format!("after queue_set({}, {}, {:#x}, {:#x}, {:#x}) the device holds {:x?} enabled={}", q, 8 << q.min(3), d, dr, de, r.a, r.enabled)));
            }
        }
        if !t.queue_used(q) {
            out.push(("queue-used".into(), format!("queue_used({}) = false after queue_set", q)));
        }
        let tr = take(b);
        step("queue_used", &tr, out);
        // notify
        t.notify(q);
        let tr = take(b);
        step("notify", &tr, out);
        select_first(&tr, q, out, "notify");
        let want_off = notify_off[q as usize] as u64 * wd.mult as u64;
        let nw: Vec<_> = tr.iter().filter(|a| a.region == Region::PciNotify).map(|a| (a.write, a.off, a.width, a.value)).collect();
        if nw != vec![(true, want_off, 2, q as u64)] {
            out.push(("notify-offset".into(), format!("notify({}) accessed the notify window as {:x?}; expected one 16-bit write of {} at queue_notify_off {} x multiplier {} = {:#x}", q, nw, q, notify_off[q as usize], wd.mult, want_off)));
        }
        t.queue_unset(q);
        let tr = take(b);
        step("queue_unset", &tr, out);
        n += 7;
    }
    // A device reset between two operations on the same queue: the selector is 0 again, the
    // second operation must select its queue.
    for q in 1..nq {
        let _ = t.max_queue_size(q);
        let tr = take(b);
        step("max_queue_size", &tr, out);
        select_first(&tr, q, out, "max_queue_size");
        t.set_status(DeviceStatus::empty());
        let tr = take(b);
        step("set_status", &tr, out);
        let m = t.max_queue_size(q);
        let tr = take(b);
        step("max_queue_size", &tr, out);
        select_first(&tr, q, out, "max_queue_size after reset");
        let _ = m;
        t.set_status(DeviceStatus::empty());
        let tr = take(b);
        step("set_status", &tr, out);
        let used = t.queue_used(q);
        let tr = take(b);
        step("queue_used", &tr, out);
        select_first(&tr, q, out, "queue_used after reset");
        if used {
            out.push(("queue-used".into(), format!("queue_used({}) = true after a reset", q)));
        }
        n += 5;
    }
    for isr in [0u32, 1, 2, 3] {
        b.dev.borrow_mut().isr = isr;
        let r = t.ack_interrupt().bits();
        let tr = take(b);
        step("ack_interrupt", &tr, out);
        let acc: Vec<_> = tr.iter().map(|a| (a.region, a.write, a.off, a.width)).collect();
        if acc != vec![(Region::PciIsr, false, 0, 1)] {
            out.push(("isr-access".into(), format!("ack_interrupt performed {:?}; expected one 1-byte read of the ISR status", acc)));
        }
        if r != isr {
            out.push(("isr-value".into(), format!("ack_interrupt = {} for ISR {}", r, isr)));
        }
        n += 1;
    }
    let g = t.read_config_generation();
    let tr = take(b);
    step("read_config_generation", &tr, out);
    if g != b.dev.borrow().config_gen & 0xff {
        out.push(("config-generation".into(), format!("{} vs {}", g, b.dev.borrow().config_gen)));
    }
    n += 1;
    n
}

/// Drop: status 0 written, then status polled until it reads 0.
pub fn check_drop(b: &Built, lag: u32, out: &mut Vec<(String, String)>) {
    let tr: Vec<RegAccess> = std::mem::take(&mut *b.trace.borrow_mut());
    general(&tr, out, "drop");
    let st: Vec<_> = tr.iter().filter(|a| a.region == Region::PciCommon && a.off == 0x14).map(|a| (a.write, a.value)).collect();
    let ok = st.len() == 2 + lag as usize && st[0] == (true, 0) && st[1..].iter().all(|x| !x.0) && st.last().map(|x| x.1) == Some(0) && st[1..st.len() - 1].iter().all(|x| x.1 != 0);
    if !ok || tr.len() != st.len() {
        out.push(("drop-reset".into(), format!("dropping the transport (device clears status after {} extra reads) performed {:x?}; expected a write of 0 to device_status then reads until it returns 0", lag, tr.iter().map(|a| (a.region, a.write, a.off, a.value)).collect::<Vec<_>>())));
    }
    if b.dev.borrow().status != 0 {
        out.push(("drop-reset".into(), "device not reset after drop".into()));
    }
}

pub fn run_ops_case(bars: &[(usize, BarKind, u64)], caps: &[VCap], lag: u32, wrap_some: bool) -> (u64, Vec<(String, String)>) {
    let b = build(bars, caps, false, 3);
    let (_class, mut out, t) = construct_case(&b, caps);
    let mut n = 1;
    let Some(t) = t else {
        out.push(("ops-construction-failed".into(), "could not construct the transport for the operation script".into()));
        mmio::set_handler(None);
        return (n, out);
    };
    let wd = reference(&b.func, caps).unwrap();
    if wrap_some {
        let mut st: SomeTransport = t.into();
        n += ops_script(&mut st, &b, &wd, &mut out);
        set_lag(lag);
        std::mem::take(&mut *b.trace.borrow_mut());
        st.set_status(DeviceStatus::from_bits_retain(15));
        std::mem::take(&mut *b.trace.borrow_mut());
        drop(st);
    } else {
        let mut t = t;
        n += ops_script(&mut t, &b, &wd, &mut out);
        set_lag(lag);
        std::mem::take(&mut *b.trace.borrow_mut());
        t.set_status(DeviceStatus::from_bits_retain(15));
        std::mem::take(&mut *b.trace.borrow_mut());
        drop(t);
    }
    check_drop(&b, lag, &mut out);
    mmio::set_handler(None);
    (n + 1, out)
}

thread_local! {
    static LAG: std::cell::Cell<u32> = const { std::cell::Cell::new(0) };
}

/// The reset lag has to be set inside the installed handler; it is taken out, patched, put back.
fn set_lag(lag: u32) {
    crate::mmio::with_handler(|h| {
        if let Some(w) = h.as_any().downcast_mut::<RegWorld>() {
            if let Some(p) = w.pci.as_mut() {
                p.reset_lag = lag;
            }
        }
    });
}

/// Windows whose length is not a multiple of the access width: the notify window is used with
/// 16-bit writes and the device-configuration window with accesses of up to 32 bits, so a length
/// that is rounded *up* to whole elements lets accesses run past the advertised window.
/// Every notification and every configuration access of width 1, 2, 4 (and of 3, 6 and 8 bytes as arrays) at every aligned offset up
/// to 8 bytes past the window is issued; any MMIO access not wholly inside a window is a violation,
/// and so is a configuration access reported successful although it does not lie inside the window.
pub fn run_odd_windows(bars: &[(usize, BarKind, u64)], notify_len: u32, mult: u32, devcfg_len: u32) -> (u64, Vec<(String, String)>) {
    let caps = vec![good_common(), VCap { length: notify_len, mult, ..good_notify() }, good_isr(), VCap { length: devcfg_len, ..good_device() }];
    let b = build(bars, &caps, false, 3);
    let (_class, mut out, t) = construct_case(&b, &caps);
    let mut n = 1;
    let Some(mut t) = t else {
        // Refusing such a layout is permitted (only the reference's verdict on validity is judged
        // by construct_case).
        mmio::set_handler(None);
        return (n, out);
    };
    let stray = |tr: &[RegAccess], ctx: &str, out: &mut Vec<(String, String)>| {
        for a in tr {
            if matches!(a.region, Region::PciOutside | Region::Stray) {
                out.push(("access-outside-windows".into(), format!("{}: {}-byte {} at {:#x} is not wholly inside a capability window (notify window {} bytes, device configuration window {} bytes)", ctx, a.width, if a.write { "write" } else { "read" }, a.off, notify_len, devcfg_len)));
            }
        }
    };
    let nq = b.dev.borrow().queues.len() as u16;
    for q in 0..nq {
        b.trace.borrow_mut().clear();
        let _ = crate::util::catch(|| t.notify(q));
        let tr: Vec<RegAccess> = std::mem::take(&mut *b.trace.borrow_mut());
        stray(&tr, &format!("notify({})", q), &mut out);
        n += 1;
    }
    for off in 0..(devcfg_len as usize + 9) {
        macro_rules! rd {
            ($ty:ty) => {
                rd!($ty, std::mem::size_of::<$ty>(), 0x5a as $ty)
            };
            ($ty:ty, $align:expr, $val:expr) => {{
                if off % $align == 0 {
                    b.trace.borrow_mut().clear();
                    let r = crate::util::catch(|| t.read_config_space::<$ty>(off));
                    let tr: Vec<RegAccess> = std::mem::take(&mut *b.trace.borrow_mut());
                    let ctx = format!("read_config_space::<{}>({})", stringify!($ty), off);
                    stray(&tr, &ctx, &mut out);
                    if let Ok(Ok(_)) = r {
                        if off + std::mem::size_of::<$ty>() > devcfg_len as usize {
                            out.push(("config-access-beyond-window".into(), format!("{} succeeded with a device configuration window of {} bytes", ctx, devcfg_len)));
                        }
                    }
                    b.trace.borrow_mut().clear();
                    let r = crate::util::catch(|| t.write_config_space::<$ty>(off, $val));
                    let tr: Vec<RegAccess> = std::mem::take(&mut *b.trace.borrow_mut());
                    let ctx = format!("write_config_space::<{}>({})", stringify!($ty), off);
                    stray(&tr, &ctx, &mut out);
                    if let Ok(Ok(_)) = r {
                        if off + std::mem::size_of::<$ty>() > devcfg_len as usize {
                            out.push(("config-access-beyond-window".into(), format!("{} succeeded with a device configuration window of {} bytes", ctx, devcfg_len)));
                        }
                    }
                    n += 2;
                }
            }};
        }
        rd!(u8);
        rd!(u16);
        rd!(u32);
        // Values wider than a register (a MAC address, a 64-bit field read as two words): they
        // may start inside the window and end outside it.
        rd!([u8; 3], 1, [0x5au8; 3]);
        rd!([u8; 6], 1, [0x5au8; 6]);
        rd!([u32; 2], 4, [0x5a5a_5a5au32; 2]);
    }
    b.trace.borrow_mut().clear();
    std::mem::forget(t);
    mmio::set_handler(None);
    (n, out)
}

/// A platform whose MMIO mappings do not preserve the low address bits (`skew` is added to every
/// mapped pointer): the windows of a well-formed device are then misaligned *as mapped*, which is
/// what "suitably aligned for its use" is about. Construction must fail.
pub fn skewed_mapping_case(skew: usize) -> Vec<(String, String)> {
    let bars: Vec<(usize, BarKind, u64)> = vec![(GOOD_BAR as usize, BarKind::Mem64 { size: GOOD_BAR_SIZE, prefetch: true }, GOOD_BAR_ADDR)];
    let caps = [good_common(), good_notify(), good_isr(), good_device()];
    let b = build(&bars, &caps, false, 3);
    hal::with(|h| h.mmio_skew = skew);
    mmio::set_handler(Some(Box::new(RegWorld::new(b.trace.clone()))));
    let mut root = PciRoot::new(ModelCam { bus: b.bus.clone() });
    let r = crate::util::catch(|| PciTransport::new::<LabHal, _>(&mut root, DF));
    let mut out = vec![];
    match r {
        Ok(Ok(t)) => {
            out.push(("accepts-misaligned-mapping".into(), format!("the platform maps every MMIO window {} byte(s) past its natural alignment, the common configuration window (64-bit registers) is therefore misaligned as mapped, and construction succeeded", skew)));
            std::mem::forget(t);
        }
        Ok(Err(_)) => {}
        Err(p) => out.push(("construction-panic".into(), p)),
    }
    mmio::set_handler(None);
    hal::with(|h| h.mmio_skew = 0);
    out
}
