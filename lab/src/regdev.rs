//! Register-level device models served through the MMIO interception: the virtio-mmio register
//! block (legacy and modern), the virtio-pci capability windows inside BARs, and a CAM window
//! onto the PCI bus model. Every access is appended to an ordered trace.

use crate::dev::{fire_notify, DevRc, TEvent};
use crate::hal::{self, MMIO_VADDR_BASE, MMIO_VADDR_STRIDE};
use crate::mmio::MmioHandler;
use crate::pci_model::BusRc;
use crate::ring::QueueAddrs;
use std::cell::RefCell;
use std::rc::Rc;

#[derive(Clone, Copy, Debug, PartialEq, Eq, Hash)]
pub enum Region {
    MmioHeader,
    MmioConfig,
    Cam,
    PciCommon,
    PciNotify,
    PciIsr,
    PciDevCfg,
    /// Inside a mapping requested through mmio_phys_to_virt but outside every true window.
    PciOutside,
    Stray,
}

#[derive(Clone, Copy, Debug, PartialEq, Eq, Hash)]
pub struct RegAccess {
    pub write: bool,
    pub region: Region,
    pub off: u64,
    pub width: u8,
    pub value: u64,
}

pub type Trace = Rc<RefCell<Vec<RegAccess>>>;

pub const MMIO_DEV_BASE: usize = 0x6100_0000_0000;
pub const CAM_BASE: usize = 0x6200_0000_0000;

pub struct MmioRegs {
    pub dev: DevRc,
    pub base: usize,
    pub magic: u32,
    pub version: u32,
    pub device_id: u32,
    pub vendor_id: u32,
    pub dev_feat_sel: u32,
    pub drv_feat_sel: u32,
    pub queue_sel: u32,
    /// Pending per-queue registers (modern): written before QueueReady.
    pub q_num: Vec<u32>,
    pub q_desc: Vec<u64>,
    pub q_driver: Vec<u64>,
    pub q_device: Vec<u64>,
    pub q_align: Vec<u32>,
    pub q_pfn: Vec<u32>,
    /// Number of further QueueReady reads that still return 1 after the driver wrote 0.
    pub ready_lag: u32,
    pub ready_lag_left: u32,
    pub ready_shadow: Vec<u32>,
    /// Called before each config-generation or config-space read (C13 tearing schedules).
    pub before_config_read: Option<Box<dyn FnMut(&DevRc, bool)>>,
}

impl MmioRegs {
    pub fn new(dev: DevRc, version: u32) -> Self {
        let n = dev.borrow().queues.len().max(1);
        let id = dev.borrow().device_type as u32;
        dev.borrow_mut().legacy = version == 1;
        MmioRegs {
            dev,
            base: MMIO_DEV_BASE,
            magic: 0x7472_6976,
            version,
            device_id: id,
            vendor_id: 0x554d_4551,
            dev_feat_sel: 0,
            drv_feat_sel: 0,
            queue_sel: 0,
            q_num: vec![0; n],
            q_desc: vec![0; n],
            q_driver: vec![0; n],
            q_device: vec![0; n],
            q_align: vec![0; n],
            q_pfn: vec![0; n],
            ready_lag: 0,
            ready_lag_left: 0,
            ready_shadow: vec![0; n],
            before_config_read: None,
        }
    }
    fn qs(&self) -> Option<usize> {
        let q = self.queue_sel as usize;
        if q < self.q_num.len() { Some(q) } else { None }
    }
    fn read(&mut self, off: u64) -> u32 {
        match off {
            0x000 => self.magic,
            0x004 => self.version,
            0x008 => self.device_id,
            0x00c => self.vendor_id,
            0x010 => {
                let mut d = self.dev.borrow_mut();
                if self.dev_feat_sel == 0 {
                    d.log.push(TEvent::ReadFeatures);
                }
                match self.dev_feat_sel {
                    0 => d.offered as u32,
                    1 => (d.offered >> 32) as u32,
                    _ => 0,
                }
            }
            0x034 => {
                let mut d = self.dev.borrow_mut();
                d.log.push(TEvent::MaxQueueSize(self.queue_sel as u16));
                d.queues.get(self.queue_sel as usize).map(|q| q.max_size).unwrap_or(0)
            }
            0x040 => {
                let mut d = self.dev.borrow_mut();
                d.log.push(TEvent::QueueUsed(self.queue_sel as u16));
                match self.qs() {
                    Some(q) => {
                        if d.queues[q].in_use_answer && self.q_pfn[q] == 0 { 0x1234 } else { self.q_pfn[q] }
                    }
                    None => 0,
                }
            }
            0x044 => {
                let mut d = self.dev.borrow_mut();
                match self.qs() {
                    Some(q) => {
                        if self.ready_shadow[q] == 0 && self.ready_lag_left > 0 {
                            self.ready_lag_left -= 1;
                            1
                        } else {
                            if self.ready_shadow[q] != 0 || d.queues[q].in_use_answer {
                                d.log.push(TEvent::QueueUsed(q as u16));
                            }
                            if d.queues[q].in_use_answer && self.ready_shadow[q] == 0 { 1 } else { self.ready_shadow[q] }
                        }
                    }
                    None => 0,
                }
            }
            0x060 => self.dev.borrow().isr,
            0x070 => {
                let mut d = self.dev.borrow_mut();
                d.log.push(TEvent::GetStatus);
                d.read_status()
            }
            0x0fc => {
                if let Some(mut f) = self.before_config_read.take() {
                    f(&self.dev, true);
                    self.before_config_read = Some(f);
                }
                let mut d = self.dev.borrow_mut();
                d.log.push(TEvent::ReadConfigGen);
                d.config_gen
            }
            _ => 0,
        }
    }
    fn write(&mut self, off: u64, v: u32) {
        match off {
            0x014 => self.dev_feat_sel = v,
            0x024 => self.drv_feat_sel = v,
            0x020 => {
                let mut d = self.dev.borrow_mut();
                match self.drv_feat_sel {
                    0 => d.driver_features = (d.driver_features & !0xffff_ffff) | v as u64,
                    1 => {
                        d.driver_features = (d.driver_features & 0xffff_ffff) | (v as u64) << 32;
                        let f = d.driver_features;
                        d.log.push(TEvent::WriteFeatures(f));
                    }
                    _ => {}
                }
            }
            0x028 => {
                let mut d = self.dev.borrow_mut();
                d.log.push(TEvent::SetGuestPageSize(v));
                d.guest_page_size = v;
            }
            0x030 => self.queue_sel = v,
            0x038 => {
                if let Some(q) = self.qs() {
                    self.q_num[q] = v
                }
            }
            0x03c => {
                if let Some(q) = self.qs() {
                    self.q_align[q] = v
                }
            }
            0x040 => {
                if let Some(q) = self.qs() {
                    self.q_pfn[q] = v;
                    let mut d = self.dev.borrow_mut();
                    if v != 0 {
                        let ps = d.guest_page_size as u64;
                        let n = self.q_num[q] as u64;
                        let al = self.q_align[q].max(1) as u64;
                        let desc = v as u64 * ps;
                        let driver = desc + 16 * n;
                        let device = (driver + 6 + 2 * n + al - 1) / al * al;
                        let a = QueueAddrs { size: n as u32, desc, driver, device };
                        d.log.push(TEvent::QueueSet { q: q as u16, size: a.size, desc, driver, device });
                        d.queues[q].a = a;
                        d.queues[q].enabled = true;
                    } else {
                        d.log.push(TEvent::QueueUnset(q as u16));
                        d.queues[q].enabled = false;
                        d.queues[q].a = QueueAddrs::default();
                    }
                }
            }
            0x044 => {
                if let Some(q) = self.qs() {
                    let mut d = self.dev.borrow_mut();
                    if v == 1 {
                        let a = QueueAddrs { size: self.q_num[q], desc: self.q_desc[q], driver: self.q_driver[q], device: self.q_device[q] };
                        d.log.push(TEvent::QueueSet { q: q as u16, size: a.size, desc: a.desc, driver: a.driver, device: a.device });
                        d.queues[q].a = a;
                        d.queues[q].enabled = true;
                        self.ready_shadow[q] = 1;
                    } else {
                        d.log.push(TEvent::QueueUnset(q as u16));
                        d.queues[q].enabled = false;
                        d.queues[q].a = QueueAddrs::default();
                        self.ready_shadow[q] = 0;
                        self.ready_lag_left = self.ready_lag;
                    }
                }
            }
            0x050 => {
                {
                    let mut d = self.dev.borrow_mut();
                    d.log.push(TEvent::Notify(v as u16));
                    if let Some(n) = d.notified.get_mut(v as usize) {
                        *n += 1;
                    }
                }
                fire_notify(v as u16);
            }
            0x064 => {
                let mut d = self.dev.borrow_mut();
                d.log.push(TEvent::AckInterrupt);
                d.isr &= !v;
            }
            0x070 => {
                let was_reset = v == 0;
                self.dev.borrow_mut().set_status(v);
                if was_reset {
                    // A reset re-initialises the device: the queue selector reads 0 again.
                    self.queue_sel = 0;
                    for r in self.ready_shadow.iter_mut() {
                        *r = 0;
                    }
                    for r in self.q_pfn.iter_mut() {
                        *r = 0;
                    }
                }
            }
            0x080 => self.set_lo_hi(0, false, v),
            0x084 => self.set_lo_hi(0, true, v),
            0x090 => self.set_lo_hi(1, false, v),
            0x094 => self.set_lo_hi(1, true, v),
            0x0a0 => self.set_lo_hi(2, false, v),
            0x0a4 => self.set_lo_hi(2, true, v),
            _ => {}
        }
    }
    fn set_lo_hi(&mut self, which: u8, hi: bool, v: u32) {
        if let Some(q) = self.qs() {
            let r = match which {
                0 => &mut self.q_desc[q],
                1 => &mut self.q_driver[q],
                _ => &mut self.q_device[q],
            };
            if hi {
                *r = (*r & 0xffff_ffff) | (v as u64) << 32;
            } else {
                *r = (*r & !0xffff_ffff) | v as u64;
            }
        }
    }
}

/// Device-side truth about where the virtio-pci structures live (absolute device addresses).
#[derive(Clone, Debug, Default)]
pub struct PciLayout {
    pub common: (u64, u64),
    pub notify: (u64, u64),
    pub isr: (u64, u64),
    pub devcfg: Option<(u64, u64)>,
    pub notify_mult: u32,
    /// queue_notify_off per queue.
    pub notify_off: Vec<u16>,
}

pub struct PciRegs {
    pub dev: DevRc,
    pub layout: PciLayout,
    pub dev_feat_sel: u32,
    pub drv_feat_sel: u32,
    pub queue_sel: u16,
    pub q_size: Vec<u16>,
    pub q_desc: Vec<u64>,
    pub q_driver: Vec<u64>,
    pub q_device: Vec<u64>,
    pub q_enable: Vec<u16>,
    pub msix: u16,
    /// After a reset, how many status reads still return the old non-zero value.
    pub reset_lag: u32,
    pub reset_lag_left: u32,
    pub before_config_read: Option<Box<dyn FnMut(&DevRc, bool)>>,
}

impl PciRegs {
    pub fn new(dev: DevRc, layout: PciLayout) -> Self {
        let n = dev.borrow().queues.len().max(1);
        let sizes = dev.borrow().queues.iter().map(|q| q.max_size as u16).collect::<Vec<_>>();
        PciRegs {
            dev,
            layout,
            dev_feat_sel: 0,
            drv_feat_sel: 0,
            queue_sel: 0,
            q_size: if sizes.is_empty() { vec![0; n] } else { sizes },
            q_desc: vec![0; n],
            q_driver: vec![0; n],
            q_device: vec![0; n],
            q_enable: vec![0; n],
            msix: 0xffff,
            reset_lag: 0,
            reset_lag_left: 0,
            before_config_read: None,
        }
    }
    fn qs(&self) -> Option<usize> {
        let q = self.queue_sel as usize;
        if q < self.q_size.len() { Some(q) } else { None }
    }
    fn common_read(&mut self, off: u64, width: u8) -> u64 {
        match (off, width) {
            (0x00, 4) => self.dev_feat_sel as u64,
            (0x04, 4) => {
                let mut d = self.dev.borrow_mut();
                if self.dev_feat_sel == 0 {
                    d.log.push(TEvent::ReadFeatures);
                }
                match self.dev_feat_sel {
                    0 => d.offered & 0xffff_ffff,
                    1 => d.offered >> 32,
                    _ => 0,
                }
            }
            (0x08, 4) => self.drv_feat_sel as u64,
            (0x10, 2) => self.msix as u64,
            (0x12, 2) => self.q_size.len() as u64,
            (0x14, 1) => {
                let mut d = self.dev.borrow_mut();
                d.log.push(TEvent::GetStatus);
                if d.status == 0 && self.reset_lag_left > 0 {
                    self.reset_lag_left -= 1;
                    0x0f
                } else {
                    d.read_status() as u64
                }
            }
            (0x15, 1) => {
                if let Some(mut f) = self.before_config_read.take() {
                    f(&self.dev, true);
                    self.before_config_read = Some(f);
                }
                let mut d = self.dev.borrow_mut();
                d.log.push(TEvent::ReadConfigGen);
                (d.config_gen & 0xff) as u64
            }
            (0x16, 2) => self.queue_sel as u64,
            (0x18, 2) => {
                let mut d = self.dev.borrow_mut();
                d.log.push(TEvent::MaxQueueSize(self.queue_sel));
                self.qs().map(|q| self.q_size[q] as u64).unwrap_or(0)
            }
            (0x1c, 2) => {
                let mut d = self.dev.borrow_mut();
                d.log.push(TEvent::QueueUsed(self.queue_sel));
                match self.qs() {
                    Some(q) => {
                        if d.queues[q].in_use_answer && self.q_enable[q] == 0 { 1 } else { self.q_enable[q] as u64 }
                    }
                    None => 0,
                }
            }
            (0x1e, 2) => self.qs().and_then(|q| self.layout.notify_off.get(q).copied()).unwrap_or(0) as u64,
            (0x20, 8) => self.qs().map(|q| self.q_desc[q]).unwrap_or(0),
            (0x28, 8) => self.qs().map(|q| self.q_driver[q]).unwrap_or(0),
            (0x30, 8) => self.qs().map(|q| self.q_device[q]).unwrap_or(0),
            _ => 0,
        }
    }
    fn common_write(&mut self, off: u64, width: u8, v: u64) {
        match (off, width) {
            (0x00, 4) => self.dev_feat_sel = v as u32,
            (0x08, 4) => self.drv_feat_sel = v as u32,
            (0x0c, 4) => {
                let mut d = self.dev.borrow_mut();
                match self.drv_feat_sel {
                    0 => d.driver_features = (d.driver_features & !0xffff_ffff) | (v & 0xffff_ffff),
                    1 => {
                        d.driver_features = (d.driver_features & 0xffff_ffff) | (v << 32);
                        let f = d.driver_features;
                        d.log.push(TEvent::WriteFeatures(f));
                    }
                    _ => {}
                }
            }
            (0x10, 2) => self.msix = v as u16,
            (0x14, 1) => {
                self.dev.borrow_mut().set_status(v as u32);
                if v == 0 {
                    for e in self.q_enable.iter_mut() {
                        *e = 0;
                    }
                    self.reset_lag_left = self.reset_lag;
                    // A reset re-initialises the device: the queue selector reads 0 again.
                    self.queue_sel = 0;
                }
            }
            (0x16, 2) => self.queue_sel = v as u16,
            (0x18, 2) => {
                if let Some(q) = self.qs() {
                    self.q_size[q] = v as u16
                }
            }
            (0x1c, 2) => {
                if let Some(q) = self.qs() {
                    self.q_enable[q] = v as u16;
                    if v == 1 {
                        let a = QueueAddrs { size: self.q_size[q] as u32, desc: self.q_desc[q], driver: self.q_driver[q], device: self.q_device[q] };
                        let mut d = self.dev.borrow_mut();
                        d.log.push(TEvent::QueueSet { q: q as u16, size: a.size, desc: a.desc, driver: a.driver, device: a.device });
                        d.queues[q].a = a;
                        d.queues[q].enabled = true;
                    }
                }
            }
            (0x20, 8) => {
                if let Some(q) = self.qs() {
                    self.q_desc[q] = v
                }
            }
            (0x28, 8) => {
                if let Some(q) = self.qs() {
                    self.q_driver[q] = v
                }
            }
            (0x30, 8) => {
                if let Some(q) = self.qs() {
                    self.q_device[q] = v
                }
            }
            _ => {}
        }
    }
}

pub struct RegWorld {
    pub trace: Trace,
    pub mmio: Option<MmioRegs>,
    pub mmio_size: usize,
    pub pci: Option<PciRegs>,
    pub cam: Option<(usize, u32, BusRc, u8)>, // (base, size, bus, shift)
}

impl RegWorld {
    pub fn new(trace: Trace) -> Self {
        RegWorld { trace, mmio: None, mmio_size: 0x200, pci: None, cam: None }
    }
    fn log(&self, a: RegAccess) {
        self.trace.borrow_mut().push(a);
    }
    fn classify_pci(&self, addr: usize, width: u8) -> Option<(Region, u64)> {
        if addr < MMIO_VADDR_BASE {
            return None;
        }
        let idx = (addr - MMIO_VADDR_BASE) / MMIO_VADDR_STRIDE;
        let map = hal::with(|h| h.mmio_maps.get(idx).copied())?;
        if addr < map.2 {
            return Some((Region::PciOutside, addr as u64));
        }
        let paddr = map.0.wrapping_add((addr - map.2) as u64);
        let end = paddr.wrapping_add(width as u64);
        let p = self.pci.as_ref()?;
        let inside = |w: (u64, u64)| paddr >= w.0 && end <= w.0 + w.1 && end >= paddr;
        if inside(p.layout.common) {
            return Some((Region::PciCommon, paddr - p.layout.common.0));
        }
        if inside(p.layout.notify) {
            return Some((Region::PciNotify, paddr - p.layout.notify.0));
        }
        if inside(p.layout.isr) {
            return Some((Region::PciIsr, paddr - p.layout.isr.0));
        }
        if let Some(dc) = p.layout.devcfg {
            if inside(dc) {
                return Some((Region::PciDevCfg, paddr - dc.0));
            }
        }
        Some((Region::PciOutside, paddr))
    }
    fn config_read(dev: &DevRc, off: u64, width: u8) -> u64 {
        let mut d = dev.borrow_mut();
        d.log.push(TEvent::ReadConfig { off: off as usize, len: width as usize });
        let mut v = 0u64;
        for i in 0..width as usize {
            let b = d.config.get(off as usize + i).copied().unwrap_or(0xEE);
            v |= (b as u64) << (8 * i);
        }
        v
    }
    fn config_write(dev: &DevRc, off: u64, width: u8, v: u64) {
        let mut d = dev.borrow_mut();
        let bytes: Vec<u8> = (0..width as usize).map(|i| (v >> (8 * i)) as u8).collect();
        for (i, b) in bytes.iter().enumerate() {
            if let Some(x) = d.config.get_mut(off as usize + i) {
                *x = *b;
            }
        }
        d.log.push(TEvent::WriteConfig { off: off as usize, data: bytes });
    }
}

impl MmioHandler for RegWorld {
    fn as_any(&mut self) -> &mut dyn std::any::Any {
        self
    }
    fn read(&mut self, addr: usize, width: u8) -> u64 {
        if let Some(m) = self.mmio.as_mut() {
            if addr >= m.base && addr < m.base + 0x10_0000 {
                let off = (addr - m.base) as u64;
                if off < 0x100 {
                    let v = if width == 4 && off % 4 == 0 { m.read(off) as u64 } else { 0 };
                    self.log(RegAccess { write: false, region: Region::MmioHeader, off, width, value: v });
                    return v;
                }
                if let Some(mut f) = m.before_config_read.take() {
                    f(&m.dev, false);
                    m.before_config_read = Some(f);
                }
                let v = Self::config_read(&m.dev, off - 0x100, width);
                self.log(RegAccess { write: false, region: Region::MmioConfig, off: off - 0x100, width, value: v });
                return v;
            }
        }
        if let Some((base, size, bus, _)) = self.cam.as_ref() {
            if addr >= *base && addr < *base + 0x2000_0000 {
                let off = (addr - base) as u64;
                let v = if off < *size as u64 && width == 4 {
                    let shift = self.cam.as_ref().unwrap().3;
                    let bdf = (off >> shift) as u32;
                    let reg = (off & ((1 << shift) - 1)) as u32;
                    if reg < 256 {
                        bus.borrow_mut().read(((bdf >> 8) as u8, ((bdf >> 3) & 31) as u8, (bdf & 7) as u8), reg as u8) as u64
                    } else {
                        0xffff_ffff
                    }
                } else {
                    0xffff_ffff
                };
                self.log(RegAccess { write: false, region: Region::Cam, off, width, value: v });
                return v;
            }
        }
        if let Some((region, off)) = self.classify_pci(addr, width) {
            let p = self.pci.as_mut().unwrap();
            let v = match region {
                Region::PciCommon => p.common_read(off, width),
                Region::PciIsr => {
                    let mut d = p.dev.borrow_mut();
                    d.log.push(TEvent::AckInterrupt);
                    let v = d.isr as u64;
                    d.isr = 0;
                    v
                }
                Region::PciDevCfg => {
                    if let Some(mut f) = p.before_config_read.take() {
                        f(&p.dev, false);
                        p.before_config_read = Some(f);
                    }
                    Self::config_read(&p.dev, off, width)
                }
                _ => 0,
            };
            self.log(RegAccess { write: false, region, off, width, value: v });
            return v;
        }
        self.log(RegAccess { write: false, region: Region::Stray, off: addr as u64, width, value: 0 });
        0
    }
    fn write(&mut self, addr: usize, width: u8, value: u64) {
        if let Some(m) = self.mmio.as_mut() {
            if addr >= m.base && addr < m.base + 0x10_0000 {
                let off = (addr - m.base) as u64;
                if off < 0x100 {
                    // Log first: a notification may re-enter the device model.
                    self.trace.borrow_mut().push(RegAccess { write: true, region: Region::MmioHeader, off, width, value });
                    if width == 4 && off % 4 == 0 {
                        m.write(off, value as u32);
                    }
                    return;
                }
                self.trace.borrow_mut().push(RegAccess { write: true, region: Region::MmioConfig, off: off - 0x100, width, value });
                Self::config_write(&m.dev, off - 0x100, width, value);
                return;
            }
        }
        if let Some((base, size, bus, shift)) = self.cam.as_ref() {
            if addr >= *base && addr < *base + 0x2000_0000 {
                let off = (addr - base) as u64;
                self.trace.borrow_mut().push(RegAccess { write: true, region: Region::Cam, off, width, value });
                if off < *size as u64 && width == 4 {
                    let bdf = (off >> shift) as u32;
                    let reg = (off & ((1 << shift) - 1)) as u32;
                    if reg < 256 {
                        bus.borrow_mut().write(((bdf >> 8) as u8, ((bdf >> 3) & 31) as u8, (bdf & 7) as u8), reg as u8, value as u32);
                    }
                }
                return;
            }
        }
        if let Some((region, off)) = self.classify_pci(addr, width) {
            self.trace.borrow_mut().push(RegAccess { write: true, region, off, width, value });
            let p = self.pci.as_mut().unwrap();
            match region {
                Region::PciCommon => p.common_write(off, width, value),
                Region::PciNotify => {
                    let mult = p.layout.notify_mult as u64;
                    let q = p.layout.notify_off.iter().position(|o| (*o as u64) * mult == off);
                    let dev = p.dev.clone();
                    if let Some(q) = q {
                        {
                            let mut d = dev.borrow_mut();
                            d.log.push(TEvent::Notify(q as u16));
                            if let Some(n) = d.notified.get_mut(q) {
                                *n += 1;
                            }
                        }
                        fire_notify(q as u16);
                    }
                }
                Region::PciDevCfg => Self::config_write(&p.dev, off, width, value),
                _ => {}
            }
            return;
        }
        self.trace.borrow_mut().push(RegAccess { write: true, region: Region::Stray, off: addr as u64, width, value });
    }
}
