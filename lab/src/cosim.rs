//! Single-threaded co-simulation: a device model that runs inside `Transport::notify`, inside the
//! busy-wait hook and whenever the harness calls it, on top of the spec-following `RefQueue`.

use crate::dev::{DevRc, F_EVENT_IDX, F_INDIRECT_DESC};
use crate::ring::{Chain, RefQueue};
use std::cell::RefCell;
use std::collections::BTreeMap;
use std::rc::Rc;

#[derive(Clone, Debug)]
pub struct Served {
    pub q: u16,
    pub chain: Chain,
    /// Concatenated device-readable bytes of the chain.
    pub request: Vec<u8>,
    pub before_driver_ok: bool,
}

/// What the device does with a fetched chain.
pub enum Action {
    /// Write these bytes to the writable part and complete with the given used length.
    Complete(Vec<u8>, u32),
    /// Keep the chain (e.g. a posted receive buffer) for later.
    Hold,
}

pub type Responder = Box<dyn FnMut(u16, &Chain, &[u8]) -> Action>;

pub struct CoDevice {
    pub dev: DevRc,
    pub queues: BTreeMap<u16, RefQueue>,
    pub responder: Responder,
    pub served: Vec<Served>,
    /// Chains fetched and held, per queue, in fetch order.
    pub held: BTreeMap<u16, Vec<Chain>>,
    pub errors: Vec<String>,
    pub spins: u64,
    pub notifies: u64,
    pub spin_horizon: u64,
    pub livelock: Option<String>,
    /// Serve from the spin hook as well as from notifications.
    pub poll_on_spin: bool,
    pub interrupts: u32,
    /// Queues on which the device suppresses available-buffer notifications (flag form without
    /// event index, a far-away event index with it) and which it polls instead.
    pub suppressed: Vec<u16>,
    /// A device need not look at notifications it receives before DRIVER_OK (it is not live
    /// yet): with this set, they are counted and otherwise ignored.
    pub ignore_early_notifications: bool,
    pub ignored_notifications: u32,
}

pub type CoRc = Rc<RefCell<CoDevice>>;

impl CoDevice {
    pub fn new(dev: DevRc, responder: Responder) -> CoRc {
        Rc::new(RefCell::new(CoDevice {
            dev,
            queues: BTreeMap::new(),
            responder,
            served: vec![],
            held: BTreeMap::new(),
            errors: vec![],
            spins: 0,
            notifies: 0,
            spin_horizon: 64,
            livelock: None,
            poll_on_spin: true,
            interrupts: 0,
            suppressed: vec![],
            ignore_early_notifications: false,
            ignored_notifications: 0,
        }))
    }

    /// Makes sure the device-side view of queue `q` follows what the driver registered.
    fn sync_queue(&mut self, q: u16) -> bool {
        let d = self.dev.borrow();
        match d.queue_addrs(q as usize) {
            None => {
                drop(d);
                self.queues.remove(&q);
                self.held.remove(&q);
                false
            }
            Some(a) => {
                let indirect = d.negotiated(F_INDIRECT_DESC);
                drop(d);
                let stale = self.queues.get(&q).map(|r| r.a != a).unwrap_or(true);
                if stale {
                    self.queues.insert(q, RefQueue::new(a, indirect));
                    self.held.remove(&q);
                }
                true
            }
        }
    }

    /// Fetches and handles every pending chain of queue `q`.
    pub fn service(&mut self, q: u16) {
        if !self.sync_queue(q) {
            return;
        }
        let event_idx = self.dev.borrow().negotiated(F_EVENT_IDX);
        let before_ok = self.dev.borrow().status & crate::dev::ST_DRIVER_OK == 0;
        loop {
            let rq = self.queues.get_mut(&q).unwrap();
            match rq.fetch() {
                Ok(None) => break,
                Err(e) => {
                    self.errors.push(format!("queue {}: {}", q, e));
                    break;
                }
                Ok(Some(chain)) => {
                    let request = match chain.read_all() {
                        Ok(r) => r,
                        Err(e) => {
                            self.errors.push(format!("queue {} chain {}: {}", q, chain.head, e));
                            vec![]
                        }
                    };
                    self.served.push(Served { q, chain: chain.clone(), request: request.clone(), before_driver_ok: before_ok });
                    match (self.responder)(q, &chain, &request) {
                        Action::Hold => self.held.entry(q).or_default().push(chain),
                        Action::Complete(data, len) => self.complete(q, &chain, &data, len),
                    }
                }
            }
        }
        let sup = self.suppressed.contains(&q);
        let rq = self.queues.get_mut(&q).unwrap();
        if event_idx {
            let la = rq.last_avail;
            let _ = rq.set_avail_event(if sup { la.wrapping_add(0x4000) } else { la });
        } else if sup || rq.used_flags_written {
            let _ = rq.set_used_flags(sup as u16);
            rq.used_flags_written = true;
        }
    }

    /// Entries the driver has made available on queue `q` which the device has not fetched.
    pub fn unfetched(&mut self, q: u16) -> u16 {
        if !self.sync_queue(q) {
            return 0;
        }
        self.queues.get(&q).and_then(|r| r.pending().ok()).unwrap_or(0)
    }

    pub fn complete(&mut self, q: u16, chain: &Chain, data: &[u8], len: u32) {
        if let Err(e) = chain.write_all(data) {
            self.errors.push(format!("queue {} chain {}: {}", q, chain.head, e));
        }
        let event_idx = self.dev.borrow().negotiated(F_EVENT_IDX);
        let rq = self.queues.get_mut(&q).unwrap();
        let old = rq.used_idx;
        if let Err(e) = rq.push_used(chain.head as u32, len) {
            self.errors.push(format!("queue {}: {}", q, e));
        }
        if rq.should_interrupt(event_idx, old, rq.used_idx).unwrap_or(true) {
            self.interrupts += 1;
            self.dev.borrow_mut().isr |= 1;
        }
    }

    /// Completes the i-th held chain of queue `q` with `data`.
    pub fn complete_held(&mut self, q: u16, i: usize, data: &[u8], len: u32) -> bool {
        self.service(q);
        let Some(h) = self.held.get_mut(&q) else { return false };
        if i >= h.len() {
            return false;
        }
        let chain = h.remove(i);
        self.complete(q, &chain, data, len);
        true
    }

    pub fn held_count(&mut self, q: u16) -> usize {
        self.service(q);
        self.held.get(&q).map(|h| h.len()).unwrap_or(0)
    }

    pub fn service_all(&mut self) {
        let n = self.dev.borrow().queues.len() as u16;
        for q in 0..n {
            self.service(q);
        }
    }
}

/// Installs the device as the notify and spin handler of this thread.
pub fn install(co: &CoRc) {
    let c = co.clone();
    crate::dev::set_notify_handler(Some(Box::new(move |q| {
        let mut c = c.borrow_mut();
        c.notifies += 1;
        if c.ignore_early_notifications && c.dev.borrow().status & crate::dev::ST_DRIVER_OK == 0 {
            c.ignored_notifications += 1;
            return;
        }
        c.service(q);
    })));
    let c = co.clone();
    crate::mmio::set_spin_handler(Some(Box::new(move |site| {
        let mut c = c.borrow_mut();
        c.spins += 1;
        if c.poll_on_spin {
            c.service_all();
        }
        if c.spins > c.spin_horizon {
            if c.livelock.is_none() {
                c.livelock = Some(format!("busy-wait site {} exceeded {} iterations", site, c.spin_horizon));
            }
            panic!("LAB-LIVELOCK: busy-wait site {} exceeded the horizon", site);
        }
    })));
}

pub fn uninstall() {
    crate::dev::set_notify_handler(None);
    crate::mmio::set_spin_handler(None);
}

/// Default responder: receive-type queues hold their buffers, everything else is completed with
/// zeros in the whole writable part.
pub fn zero_responder(kind: crate::drivers::Kind) -> Responder {
    use crate::drivers::Kind;
    Box::new(move |q, chain, _req| {
        let hold = match kind {
            Kind::Console => q == 0,
            Kind::NetRaw | Kind::NetBuf => q == 0,
            Kind::Input => q == 0,
            Kind::Socket => q == 0 || q == 2,
            Kind::Sound => q == 1 || q == 3,
            _ => false,
        };
        if hold {
            Action::Hold
        } else {
            let w = chain.writable_len();
            Action::Complete(vec![0u8; w], w as u32)
        }
    })
}

/// What a well-behaved device would answer (success, plausible contents): the default from which
/// the adversary deviates. Without it a driver whose success value is not all zeros (sound, GPU,
/// 9P) would fail its very first request and the rest of its script would exercise nothing.
pub fn honest_response(kind: crate::drivers::Kind, q: u16, req: &[u8], wl: usize) -> Vec<u8> {
    let u32at = |o: usize| if req.len() >= o + 4 { u32::from_le_bytes(req[o..o + 4].try_into().unwrap()) } else { 0 };
    let mut v = vec![0u8; wl];
    match (kind, q) {
        (crate::drivers::Kind::Sound, 0) | (crate::drivers::Kind::Sound, 2) if wl >= 4 => {
            v[0..4].copy_from_slice(&0x8000u32.to_le_bytes());
        }
        (crate::drivers::Kind::Gpu, 0) if wl >= 24 => {
            let ty: u32 = match u32at(0) {
                0x100 => 0x1101,
                0x10a => 0x1104,
                _ => 0x1100,
            };
            v[0..4].copy_from_slice(&ty.to_le_bytes());
            if ty == 0x1101 && wl >= 24 + 24 {
                // First scanout: 8 x 4 pixels, enabled.
                v[32..36].copy_from_slice(&8u32.to_le_bytes());
                v[36..40].copy_from_slice(&4u32.to_le_bytes());
                v[40..44].copy_from_slice(&1u32.to_le_bytes());
            }
            if ty == 0x1104 && wl >= 32 {
                v[24..28].copy_from_slice(&128u32.to_le_bytes());
            }
        }
        (crate::drivers::Kind::Blk, 0) if wl == 21 => {
            // GET_ID: an identifier that fills all 20 bytes (no terminating NUL), status OK.
            v[..20].copy_from_slice(b"VLAB-0123456789-ABCD");
        }
        (crate::drivers::Kind::P9, 0) if wl >= 7 => {
            // A minimal 9P reply: size[4] type[1] tag[2].
            v.truncate(7);
            v[0..4].copy_from_slice(&7u32.to_le_bytes());
            v[4] = req.get(4).copied().unwrap_or(0).wrapping_add(1);
            v[5] = req.get(5).copied().unwrap_or(0);
            v[6] = req.get(6).copied().unwrap_or(0);
        }
        _ => {}
    }
    v
}


/// Receive-type queues hold their buffers; every other request is answered at once with what a
/// well-behaved device would answer.
pub fn honest_responder(kind: crate::drivers::Kind) -> Responder {
    use crate::drivers::Kind;
    Box::new(move |q, chain, req| {
        let hold = match kind {
            Kind::Console => q == 0,
            Kind::NetRaw | Kind::NetBuf => q == 0,
            Kind::Input => q == 0,
            Kind::Socket => q == 0 || q == 2,
            Kind::Sound => q == 1 || q == 3,
            _ => false,
        };
        if hold {
            Action::Hold
        } else {
            let data = honest_response(kind, q, req, chain.writable_len());
            let n = data.len() as u32;
            Action::Complete(data, n)
        }
    })
}
