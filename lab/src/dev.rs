//! Transport-facing device state shared by the model transport and the register-level devices,
//! and `ModelTransport`, a direct `impl Transport` which logs every call in order.

use crate::ring::QueueAddrs;
use std::cell::RefCell;
use std::rc::Rc;
use virtio_drivers::transport::{DeviceStatus, DeviceType, InterruptStatus, Transport};
use virtio_drivers::{Error, PhysAddr, Result};
use zerocopy::{FromBytes, Immutable, IntoBytes};

pub const ST_ACK: u32 = 1;
pub const ST_DRIVER: u32 = 2;
pub const ST_DRIVER_OK: u32 = 4;
pub const ST_FEATURES_OK: u32 = 8;
pub const ST_NEEDS_RESET: u32 = 64;
pub const ST_FAILED: u32 = 128;

pub const F_INDIRECT_DESC: u64 = 1 << 28;
pub const F_EVENT_IDX: u64 = 1 << 29;
pub const F_VERSION_1: u64 = 1 << 32;
pub const F_ACCESS_PLATFORM: u64 = 1 << 33;
pub const F_RING_PACKED: u64 = 1 << 34;

#[derive(Clone, Debug, PartialEq, Eq, Hash)]
pub enum TEvent {
    SetStatus(u32),
    GetStatus,
    ReadFeatures,
    WriteFeatures(u64),
    MaxQueueSize(u16),
    Notify(u16),
    SetGuestPageSize(u32),
    QueueSet { q: u16, size: u32, desc: u64, driver: u64, device: u64 },
    QueueUnset(u16),
    QueueUsed(u16),
    AckInterrupt,
    ReadConfigGen,
    ReadConfig { off: usize, len: usize },
    WriteConfig { off: usize, data: Vec<u8> },
}

#[derive(Clone, Debug, Default)]
pub struct QueueReg {
    pub max_size: u32,
    pub a: QueueAddrs,
    pub enabled: bool,
    /// What `queue_used` answers before the driver configures the queue.
    pub in_use_answer: bool,
}

pub struct VirtioDev {
    pub device_type: DeviceType,
    pub legacy: bool,
    pub offered: u64,
    pub driver_features: u64,
    pub status: u32,
    pub queues: Vec<QueueReg>,
    pub config: Vec<u8>,
    pub config_missing: bool,
    pub config_gen: u32,
    pub isr: u32,
    pub guest_page_size: u32,
    pub log: Vec<TEvent>,
    pub resets: usize,
    /// 0 = none; 1 = FEATURES_OK never sticks (the device refuses the feature subset); 2 = slow
    /// reset (two status reads after a reset still return the old value).
    pub status_quirk: u8,
    pub stale_status: u32,
    pub stale_status_reads: u32,
    /// Number of notifications received per queue.
    pub notified: Vec<u32>,
}

impl VirtioDev {
    pub fn new(device_type: DeviceType, offered: u64, nqueues: usize, max_size: u32, config: Vec<u8>) -> Self {
        VirtioDev {
            device_type,
            legacy: false,
            offered,
            driver_features: 0,
            status: 0,
            queues: (0..nqueues).map(|_| QueueReg { max_size, ..Default::default() }).collect(),
            config,
            config_missing: false,
            config_gen: 0,
            isr: 0,
            guest_page_size: 0,
            log: vec![],
            resets: 0,
            status_quirk: 0,
            stale_status: 0,
            stale_status_reads: 0,
            notified: vec![0; nqueues],
        }
    }
    pub fn negotiated(&self, f: u64) -> bool {
        self.driver_features & f != 0
    }
    /// The device is live on queue `q`: DRIVER_OK is set, no reset since, and the queue is enabled.
    pub fn live_on(&self, q: usize) -> bool {
        self.status & ST_DRIVER_OK != 0 && self.queues.get(q).map(|r| r.enabled).unwrap_or(false)
    }
    pub fn reset(&mut self) {
        self.status = 0;
        self.driver_features = 0;
        self.isr = 0;
        self.resets += 1;
        for q in self.queues.iter_mut() {
            q.enabled = false;
            q.a = QueueAddrs::default();
        }
    }
    /// What a status read returns (quirk 2: the reset is slow, the first reads after it still
    /// return the old value).
    pub fn read_status(&mut self) -> u32 {
        if self.stale_status_reads > 0 {
            self.stale_status_reads -= 1;
            return self.stale_status;
        }
        self.status
    }
    pub fn set_status(&mut self, s: u32) {
        self.log.push(TEvent::SetStatus(s));
        if s == 0 {
            if self.status_quirk == 2 {
                self.stale_status = self.status;
                self.stale_status_reads = 2;
            }
            self.reset();
        } else if self.status_quirk == 1 {
            // The device does not accept the feature subset: FEATURES_OK does not stick.
            self.status = s & !ST_FEATURES_OK;
        } else {
            self.status = s;
        }
    }
    pub fn queue_addrs(&self, q: usize) -> Option<QueueAddrs> {
        self.queues.get(q).filter(|r| r.enabled).map(|r| r.a)
    }
}

pub type DevRc = Rc<RefCell<VirtioDev>>;

thread_local! {
    static NOTIFY: RefCell<Option<Box<dyn FnMut(u16)>>> = const { RefCell::new(None) };
}

/// Installs the device behaviour run on every queue notification (co-simulation).
pub fn set_notify_handler(h: Option<Box<dyn FnMut(u16)>>) {
    NOTIFY.with(|c| *c.borrow_mut() = h);
}

pub fn fire_notify(q: u16) {
    let h = NOTIFY.with(|c| c.borrow_mut().take());
    if let Some(mut h) = h {
        h(q);
        NOTIFY.with(|c| {
            let mut c = c.borrow_mut();
            if c.is_none() {
                *c = Some(h);
            }
        });
    }
}

pub struct ModelTransport {
    pub dev: DevRc,
}

impl ModelTransport {
    pub fn new(dev: DevRc) -> Self {
        ModelTransport { dev }
    }
}

impl Transport for ModelTransport {
    fn device_type(&self) -> DeviceType {
        self.dev.borrow().device_type
    }
    fn read_device_features(&mut self) -> u64 {
        let mut d = self.dev.borrow_mut();
        d.log.push(TEvent::ReadFeatures);
        d.offered
    }
    fn write_driver_features(&mut self, driver_features: u64) {
        let mut d = self.dev.borrow_mut();
        d.log.push(TEvent::WriteFeatures(driver_features));
        d.driver_features = driver_features;
    }
    fn max_queue_size(&mut self, queue: u16) -> u32 {
        let mut d = self.dev.borrow_mut();
        d.log.push(TEvent::MaxQueueSize(queue));
        d.queues.get(queue as usize).map(|q| q.max_size).unwrap_or(0)
    }
    fn notify(&mut self, queue: u16) {
        {
            let mut d = self.dev.borrow_mut();
            d.log.push(TEvent::Notify(queue));
            if let Some(n) = d.notified.get_mut(queue as usize) {
                *n += 1;
            }
        }
        fire_notify(queue);
    }
    fn get_status(&self) -> DeviceStatus {
        let mut d = self.dev.borrow_mut();
        d.log.push(TEvent::GetStatus);
        DeviceStatus::from_bits_retain(d.read_status())
    }
    fn set_status(&mut self, status: DeviceStatus) {
        self.dev.borrow_mut().set_status(status.bits());
    }
    fn set_guest_page_size(&mut self, guest_page_size: u32) {
        let mut d = self.dev.borrow_mut();
        d.log.push(TEvent::SetGuestPageSize(guest_page_size));
        d.guest_page_size = guest_page_size;
    }
    fn requires_legacy_layout(&self) -> bool {
        self.dev.borrow().legacy
    }
    fn queue_set(&mut self, queue: u16, size: u32, descriptors: PhysAddr, driver_area: PhysAddr, device_area: PhysAddr) {
        let mut d = self.dev.borrow_mut();
        d.log.push(TEvent::QueueSet { q: queue, size, desc: descriptors, driver: driver_area, device: device_area });
        if let Some(r) = d.queues.get_mut(queue as usize) {
            r.a = QueueAddrs { size, desc: descriptors, driver: driver_area, device: device_area };
            r.enabled = true;
        }
    }
    fn queue_unset(&mut self, queue: u16) {
        let mut d = self.dev.borrow_mut();
        d.log.push(TEvent::QueueUnset(queue));
        if let Some(r) = d.queues.get_mut(queue as usize) {
            r.enabled = false;
            r.a = QueueAddrs::default();
        }
    }
    fn queue_used(&mut self, queue: u16) -> bool {
        let mut d = self.dev.borrow_mut();
        d.log.push(TEvent::QueueUsed(queue));
        d.queues.get(queue as usize).map(|q| q.enabled || q.in_use_answer).unwrap_or(false)
    }
    fn ack_interrupt(&mut self) -> InterruptStatus {
        let mut d = self.dev.borrow_mut();
        d.log.push(TEvent::AckInterrupt);
        let v = d.isr;
        d.isr = 0;
        InterruptStatus::from_bits_truncate(v)
    }
    fn read_config_generation(&self) -> u32 {
        let mut d = self.dev.borrow_mut();
        d.log.push(TEvent::ReadConfigGen);
        d.config_gen
    }
    fn read_config_space<T: FromBytes + IntoBytes>(&self, offset: usize) -> Result<T> {
        let mut d = self.dev.borrow_mut();
        let len = core::mem::size_of::<T>();
        if d.config_missing {
            return Err(Error::ConfigSpaceMissing);
        }
        match offset.checked_add(len) {
            Some(end) if end <= d.config.len() => {
                d.log.push(TEvent::ReadConfig { off: offset, len });
                Ok(T::read_from_bytes(&d.config[offset..end]).ok().unwrap())
            }
            _ => Err(Error::ConfigSpaceTooSmall),
        }
    }
    fn write_config_space<T: IntoBytes + Immutable>(&mut self, offset: usize, value: T) -> Result<()> {
        let mut d = self.dev.borrow_mut();
        let len = core::mem::size_of::<T>();
        if d.config_missing {
            return Err(Error::ConfigSpaceMissing);
        }
        match offset.checked_add(len) {
            Some(end) if end <= d.config.len() => {
                let bytes = value.as_bytes().to_vec();
                d.config[offset..end].copy_from_slice(&bytes);
                d.log.push(TEvent::WriteConfig { off: offset, data: bytes });
                Ok(())
            }
            _ => Err(Error::ConfigSpaceTooSmall),
        }
    }
}

impl Drop for ModelTransport {
    fn drop(&mut self) {
        // Both real transports reset the device when dropped.
        self.dev.borrow_mut().set_status(0);
    }
}
