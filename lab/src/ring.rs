//! A specification-following split-virtqueue device side, written from the VirtIO spec (2.7),
//! operating only on device addresses through the LabHal ledger.

use crate::hal;

pub const F_NEXT: u16 = 1;
pub const F_WRITE: u16 = 2;
pub const F_INDIRECT: u16 = 4;

#[derive(Clone, Copy, Debug, PartialEq, Eq, Hash)]
pub struct Desc {
    pub addr: u64,
    pub len: u32,
    pub flags: u16,
    pub next: u16,
}

#[derive(Clone, Copy, Debug, PartialEq, Eq, Hash)]
pub struct Elem {
    pub addr: u64,
    pub len: u32,
    pub write: bool,
}

#[derive(Clone, Debug, PartialEq, Eq)]
pub struct Chain {
    pub head: u16,
    /// Indices of the descriptors of the main table that the chain occupies, in order.
    pub descs: Vec<u16>,
    /// Flattened buffer elements, in order.
    pub elems: Vec<Elem>,
    /// (address, byte length) of the indirect table if the chain uses one.
    pub indirect: Option<(u64, u32)>,
}

impl Chain {
    pub fn readable_len(&self) -> usize {
        self.elems.iter().filter(|e| !e.write).map(|e| e.len as usize).sum()
    }
    pub fn writable_len(&self) -> usize {
        self.elems.iter().filter(|e| e.write).map(|e| e.len as usize).sum()
    }
    /// Concatenation of all device-readable bytes.
    pub fn read_all(&self) -> Result<Vec<u8>, String> {
        let mut v = vec![];
        for e in self.elems.iter().filter(|e| !e.write) {
            v.extend(hal::with(|h| h.dev_read(e.addr, e.len as usize))?);
        }
        Ok(v)
    }
    /// Writes `data` across the device-writable elements in order; returns bytes written.
    pub fn write_all(&self, data: &[u8]) -> Result<usize, String> {
        let mut off = 0;
        for e in self.elems.iter().filter(|e| e.write) {
            if off >= data.len() {
                break;
            }
            let n = (e.len as usize).min(data.len() - off);
            hal::with(|h| h.dev_write(e.addr, &data[off..off + n]))?;
            off += n;
        }
        Ok(off)
    }
}

/// The registered location of a queue, as passed to `queue_set`.
#[derive(Clone, Copy, Debug, Default, PartialEq, Eq, Hash)]
pub struct QueueAddrs {
    pub size: u32,
    pub desc: u64,
    pub driver: u64,
    pub device: u64,
}

#[derive(Clone, Debug)]
pub struct RefQueue {
    pub a: QueueAddrs,
    /// Next available-ring index the device will fetch.
    pub last_avail: u16,
    /// The device's own used index.
    pub used_idx: u16,
    pub indirect_negotiated: bool,
    /// Set once a co-simulated device has written used.flags (it then keeps them up to date).
    pub used_flags_written: bool,
}

fn rd(paddr: u64, len: usize) -> Result<Vec<u8>, String> {
    hal::with(|h| h.dev_read(paddr, len))
}
fn rd16(paddr: u64) -> Result<u16, String> {
    let b = rd(paddr, 2)?;
    Ok(u16::from_le_bytes([b[0], b[1]]))
}
fn wr(paddr: u64, data: &[u8]) -> Result<(), String> {
    hal::with(|h| h.dev_write(paddr, data))
}

pub fn read_desc_at(table: u64, i: usize) -> Result<Desc, String> {
    let b = rd(table + 16 * i as u64, 16)?;
    Ok(Desc {
        addr: u64::from_le_bytes(b[0..8].try_into().unwrap()),
        len: u32::from_le_bytes(b[8..12].try_into().unwrap()),
        flags: u16::from_le_bytes(b[12..14].try_into().unwrap()),
        next: u16::from_le_bytes(b[14..16].try_into().unwrap()),
    })
}

impl RefQueue {
    pub fn new(a: QueueAddrs, indirect_negotiated: bool) -> Self {
        RefQueue { a, last_avail: 0, used_idx: 0, indirect_negotiated, used_flags_written: false }
    }
    pub fn n(&self) -> usize {
        self.a.size as usize
    }
    pub fn avail_flags(&self) -> Result<u16, String> {
        rd16(self.a.driver)
    }
    pub fn avail_idx(&self) -> Result<u16, String> {
        rd16(self.a.driver + 2)
    }
    pub fn avail_ring(&self, slot: usize) -> Result<u16, String> {
        rd16(self.a.driver + 4 + 2 * slot as u64)
    }
    pub fn used_event(&self) -> Result<u16, String> {
        rd16(self.a.driver + 4 + 2 * self.n() as u64)
    }
    pub fn read_desc(&self, i: usize) -> Result<Desc, String> {
        read_desc_at(self.a.desc, i)
    }
    pub fn set_used_flags(&self, f: u16) -> Result<(), String> {
        wr(self.a.device, &f.to_le_bytes())
    }
    pub fn set_avail_event(&self, v: u16) -> Result<(), String> {
        wr(self.a.device + 4 + 8 * self.n() as u64, &v.to_le_bytes())
    }
    /// Number of entries made available that the device has not fetched yet.
    pub fn pending(&self) -> Result<u16, String> {
        Ok(self.avail_idx()?.wrapping_sub(self.last_avail))
    }
    /// Fetches the next available head, validating and walking its chain.
    pub fn fetch(&mut self) -> Result<Option<Chain>, String> {
        let idx = self.avail_idx()?;
        if idx == self.last_avail {
            return Ok(None);
        }
        let dist = idx.wrapping_sub(self.last_avail);
        if dist as usize > self.n() {
            return Err(format!("avail.idx {} is {} ahead of the device's position {} (more than the queue size {})", idx, dist, self.last_avail, self.n()));
        }
        let head = self.avail_ring(self.last_avail as usize & (self.n() - 1))?;
        let c = self.walk(head)?;
        self.last_avail = self.last_avail.wrapping_add(1);
        Ok(Some(c))
    }
    /// Walks and validates the chain starting at `head` (spec 2.7.5, 2.7.5.3).
    pub fn walk(&self, head: u16) -> Result<Chain, String> {
        self.walk_with(head, &|i| self.read_desc(i))
    }
    /// Walks a chain reading the main descriptor table from a snapshot of its bytes.
    pub fn walk_snapshot(&self, desc_bytes: &[u8], head: u16) -> Result<Chain, String> {
        self.walk_with(head, &|i| {
            let b = desc_bytes.get(16 * i..16 * i + 16).ok_or_else(|| format!("descriptor {} outside the snapshot", i))?;
            Ok(Desc {
                addr: u64::from_le_bytes(b[0..8].try_into().unwrap()),
                len: u32::from_le_bytes(b[8..12].try_into().unwrap()),
                flags: u16::from_le_bytes(b[12..14].try_into().unwrap()),
                next: u16::from_le_bytes(b[14..16].try_into().unwrap()),
            })
        })
    }
    pub fn walk_with(&self, head: u16, read: &dyn Fn(usize) -> Result<Desc, String>) -> Result<Chain, String> {
        let n = self.n();
        if head as usize >= n {
            return Err(format!("available ring entry {} is not below the queue size {}", head, n));
        }
        let mut descs = vec![];
        let mut elems = vec![];
        let mut indirect = None;
        let mut seen = vec![false; n];
        let mut i = head;
        let mut seen_write = false;
        loop {
            if i as usize >= n {
                return Err(format!("descriptor index {} out of range (queue size {})", i, n));
            }
            if seen[i as usize] {
                return Err(format!("descriptor chain from head {} loops at {}", head, i));
            }
            seen[i as usize] = true;
            descs.push(i);
            let d = read(i as usize)?;
            if d.flags & !(F_NEXT | F_WRITE | F_INDIRECT) != 0 {
                return Err(format!("descriptor {} has unknown flags {:#x}", i, d.flags));
            }
            if d.flags & F_INDIRECT != 0 {
                if !self.indirect_negotiated {
                    return Err(format!("descriptor {} uses INDIRECT but the feature is not enabled for this queue", i));
                }
                if d.flags & F_NEXT != 0 {
                    return Err(format!("descriptor {} sets both INDIRECT and NEXT", i));
                }
                if d.flags & F_WRITE != 0 {
                    return Err(format!("indirect descriptor {} sets WRITE", i));
                }
                if d.len == 0 || d.len % 16 != 0 {
                    return Err(format!("indirect table length {} is not a non-zero multiple of 16", d.len));
                }
                let cnt = (d.len / 16) as usize;
                indirect = Some((d.addr, d.len));
                // The table must be a live driver-to-device mapping.
                let mut j = 0usize;
                let mut seen_t = vec![false; cnt];
                loop {
                    if j >= cnt {
                        return Err(format!("indirect next {} out of table of {} entries", j, cnt));
                    }
                    if seen_t[j] {
                        return Err(format!("indirect table loops at {}", j));
                    }
                    seen_t[j] = true;
                    let t = read_desc_at(d.addr, j)?;
                    if t.flags & F_INDIRECT != 0 {
                        return Err("nested INDIRECT descriptor".into());
                    }
                    if t.flags & !(F_NEXT | F_WRITE) != 0 {
                        return Err(format!("indirect entry {} has unknown flags {:#x}", j, t.flags));
                    }
                    let w = t.flags & F_WRITE != 0;
                    if seen_write && !w {
                        return Err(format!("indirect entry {}: device-readable part after a device-writable part", j));
                    }
                    seen_write |= w;
                    elems.push(Elem { addr: t.addr, len: t.len, write: w });
                    if t.flags & F_NEXT != 0 {
                        j = t.next as usize;
                    } else {
                        break;
                    }
                }
                break;
            }
            let w = d.flags & F_WRITE != 0;
            if seen_write && !w {
                return Err(format!("descriptor {}: device-readable part after a device-writable part", i));
            }
            seen_write |= w;
            elems.push(Elem { addr: d.addr, len: d.len, write: w });
            if d.flags & F_NEXT != 0 {
                i = d.next;
            } else {
                break;
            }
        }
        Ok(Chain { head, descs, elems, indirect })
    }
    /// Completes a chain: writes the used element, then publishes the new used index.
    pub fn push_used(&mut self, id: u32, len: u32) -> Result<(), String> {
        let slot = self.used_idx as usize & (self.n() - 1);
        let mut e = [0u8; 8];
        e[0..4].copy_from_slice(&id.to_le_bytes());
        e[4..8].copy_from_slice(&len.to_le_bytes());
        wr(self.a.device + 4 + 8 * slot as u64, &e)?;
        self.used_idx = self.used_idx.wrapping_add(1);
        wr(self.a.device + 2, &self.used_idx.to_le_bytes())
    }
    /// Would a spec-following device interrupt for a completion moving used.idx old -> new?
    pub fn should_interrupt(&self, event_idx: bool, old: u16, new: u16) -> Result<bool, String> {
        if event_idx {
            Ok(vring_need_event(self.used_event()?, new, old))
        } else {
            Ok(self.avail_flags()? & 1 == 0)
        }
    }
}

/// The specification's notification predicate (2.7.7.2 / virtio_ring.h).
#[inline]
pub fn vring_need_event(event_idx: u16, new_idx: u16, old_idx: u16) -> bool {
    new_idx.wrapping_sub(event_idx).wrapping_sub(1) < new_idx.wrapping_sub(old_idx)
}
