//! Reference PCI function / bus model behind `ConfigurationAccess` (and behind `MmioCam` through
//! the MMIO interception), written from the PCI Local Bus specification: BAR registers whose
//! address bits below the size are hard-wired, read-only type bits, 64-bit pairs, a command
//! register with the defined writable bits, and a full ordered access log.

use std::cell::RefCell;
use std::collections::BTreeMap;
use std::rc::Rc;
use virtio_drivers::transport::pci::bus::{ConfigurationAccess, DeviceFunction};

#[derive(Clone, Copy, Debug, PartialEq, Eq, Hash)]
pub enum BarKind {
    Unimplemented,
    Mem32 { size: u64, prefetch: bool, below_1m: bool },
    /// Lower half of a 64-bit memory BAR of the given size (up to 2^63).
    Mem64 { size: u64, prefetch: bool },
    /// Upper half of the preceding 64-bit BAR.
    Mem64Hi,
    Io { size: u32 },
    /// A memory BAR with the reserved type encoding 0b11.
    MemReserved { size: u64 },
}

#[derive(Clone, Copy, Debug, PartialEq, Eq, Hash)]
pub struct CfgAccess {
    pub write: bool,
    pub df: (u8, u8, u8),
    pub off: u8,
    pub value: u32,
    /// Command register at the time of the access.
    pub command: u16,
    /// BAR registers at the time of the access.
    pub bars: [u32; 6],
}

#[derive(Clone, Debug)]
pub struct PciFunc {
    pub vendor: u16,
    pub device: u16,
    pub class: u8,
    pub subclass: u8,
    pub prog_if: u8,
    pub revision: u8,
    pub header_type: u8,
    pub command: u16,
    pub status: u16,
    pub bars: [BarKind; 6],
    pub bar_regs: [u32; 6],
    /// Raw bytes of configuration space from 0x34 (capability pointer) and 0x40.. (capabilities).
    pub raw: [u8; 256],
}

pub const COMMAND_WRITABLE: u16 = 0x077f;

impl PciFunc {
    pub fn new(vendor: u16, device: u16) -> Self {
        PciFunc { vendor, device, class: 0, subclass: 0, prog_if: 0, revision: 0, header_type: 0, command: 0, status: 0, bars: [BarKind::Unimplemented; 6], bar_regs: [0; 6], raw: [0; 256] }
    }
    fn bar_mask_and_flags(&self, i: usize) -> (u32, u32) {
        match self.bars[i] {
            BarKind::Unimplemented => (0, 0),
            BarKind::Mem32 { size, prefetch, below_1m } => {
                let m = (!(size.wrapping_sub(1)) as u32) & 0xffff_fff0;
                (m, (if prefetch { 8 } else { 0 }) | (if below_1m { 2 } else { 0 }))
            }
            BarKind::Mem64 { size, prefetch } => {
                let m = (!(size.wrapping_sub(1)) as u32) & 0xffff_fff0;
                (m, 4 | if prefetch { 8 } else { 0 })
            }
            BarKind::Mem64Hi => {
                let size = match self.bars[i - 1] {
                    BarKind::Mem64 { size, .. } => size,
                    _ => 0,
                };
                ((!(size.wrapping_sub(1)) >> 32) as u32, 0)
            }
            BarKind::Io { size } => ((!(size.wrapping_sub(1))) & 0xffff_fffc, 1),
            BarKind::MemReserved { size } => ((!(size.wrapping_sub(1)) as u32) & 0xffff_fff0, 6),
        }
    }
    pub fn set_bar_address(&mut self, i: usize, addr: u64) {
        let (m, _) = self.bar_mask_and_flags(i);
        self.bar_regs[i] = (addr as u32) & m;
        if let (BarKind::Mem64 { .. }, true) = (self.bars[i], i + 1 < 6) {
            let (mh, _) = self.bar_mask_and_flags(i + 1);
            self.bar_regs[i + 1] = ((addr >> 32) as u32) & mh;
        }
    }
    pub fn bar_address(&self, i: usize) -> u64 {
        match self.bars[i] {
            BarKind::Mem64 { .. } if i + 1 < 6 => self.bar_regs[i] as u64 | (self.bar_regs[i + 1] as u64) << 32,
            _ => self.bar_regs[i] as u64,
        }
    }
    pub fn bar_size(&self, i: usize) -> u64 {
        match self.bars[i] {
            BarKind::Unimplemented | BarKind::Mem64Hi => 0,
            BarKind::Mem32 { size, .. } | BarKind::Mem64 { size, .. } | BarKind::MemReserved { size } => size,
            BarKind::Io { size } => size as u64,
        }
    }
    pub fn read(&self, off: u8) -> u32 {
        match off & 0xfc {
            0x00 => self.vendor as u32 | (self.device as u32) << 16,
            0x04 => self.command as u32 | (self.status as u32) << 16,
            0x08 => self.revision as u32 | (self.prog_if as u32) << 8 | (self.subclass as u32) << 16 | (self.class as u32) << 24,
            0x0c => (self.header_type as u32) << 16,
            o @ 0x10..=0x24 => {
                let i = ((o - 0x10) / 4) as usize;
                let (_, f) = self.bar_mask_and_flags(i);
                self.bar_regs[i] | f
            }
            o => {
                let o = o as usize;
                u32::from_le_bytes([self.raw[o], self.raw[o + 1], self.raw[o + 2], self.raw[o + 3]])
            }
        }
    }
    pub fn write(&mut self, off: u8, v: u32) {
        match off & 0xfc {
            0x04 => {
                self.command = (v as u16) & COMMAND_WRITABLE;
                // The error bits of the status register are write-one-to-clear (PCI 3.0, 6.2.3:
                // bits 8 and 11..15); the other status bits are read-only.
                let w1c = ((v >> 16) as u16) & 0xf900;
                self.status &= !w1c;
            }
            o @ 0x10..=0x24 => {
                let i = ((o - 0x10) / 4) as usize;
                let (m, _) = self.bar_mask_and_flags(i);
                self.bar_regs[i] = v & m;
            }
            _ => {}
        }
    }
    /// Everything software can observe or change, for before/after comparison.
    pub fn visible_state(&self) -> (u32, [u32; 6]) {
        (self.command as u32 | (self.status as u32) << 16, self.bar_regs)
    }
    /// Appends a capability at `off` (must be >= 0x40, 4-aligned) with the given bytes (id, next
    /// are bytes 0 and 1) and returns it; the caller links `next`.
    pub fn put_bytes(&mut self, off: usize, bytes: &[u8]) {
        self.raw[off..off + bytes.len()].copy_from_slice(bytes);
    }
}

#[derive(Default)]
pub struct PciBusState {
    pub funcs: BTreeMap<(u8, u8, u8), PciFunc>,
    pub log: Vec<CfgAccess>,
    pub reads_budget: Option<u64>,
    pub budget_exhausted: bool,
}

pub type BusRc = Rc<RefCell<PciBusState>>;

impl PciBusState {
    pub fn read(&mut self, df: (u8, u8, u8), off: u8) -> u32 {
        if let Some(b) = self.reads_budget.as_mut() {
            if *b == 0 {
                self.budget_exhausted = true;
                // Break cycles for non-terminating walks: report and panic (caught by the harness).
                panic!("LAB-READ-BUDGET: configuration read budget exhausted (non-terminating walk)");
            }
            *b -= 1;
        }
        let (v, cmd, bars) = match self.funcs.get(&df) {
            Some(f) => (f.read(off), f.command, f.bar_regs),
            None => (0xffff_ffff, 0, [0; 6]),
        };
        self.log.push(CfgAccess { write: false, df, off, value: v, command: cmd, bars });
        v
    }
    pub fn write(&mut self, df: (u8, u8, u8), off: u8, v: u32) {
        let (cmd, bars) = self.funcs.get(&df).map(|f| (f.command, f.bar_regs)).unwrap_or((0, [0; 6]));
        self.log.push(CfgAccess { write: true, df, off, value: v, command: cmd, bars });
        if let Some(f) = self.funcs.get_mut(&df) {
            f.write(off, v);
        }
    }
}

/// `ConfigurationAccess` served directly by the model.
pub struct ModelCam {
    pub bus: BusRc,
}

impl ConfigurationAccess for ModelCam {
    fn read_word(&self, df: DeviceFunction, register_offset: u8) -> u32 {
        self.bus.borrow_mut().read((df.bus, df.device, df.function), register_offset)
    }
    fn write_word(&mut self, df: DeviceFunction, register_offset: u8, data: u32) {
        self.bus.borrow_mut().write((df.bus, df.device, df.function), register_offset, data)
    }
    unsafe fn unsafe_clone(&self) -> Self {
        ModelCam { bus: self.bus.clone() }
    }
}
