//! C06: queue memory layout, registration and release for every size and transport answer.

use crate::dev::{DevRc, ModelTransport, TEvent, VirtioDev};
use crate::hal::{self, Dir, HalEvent, LabHal};
use std::cell::RefCell;
use std::rc::Rc;
use virtio_drivers::queue::VirtQueue;
use virtio_drivers::transport::DeviceType;
use virtio_drivers::Error;

#[derive(Clone, Copy, Debug)]
pub struct Case {
    pub legacy: bool,
    pub indirect: bool,
    pub event_idx: bool,
    pub ap: bool,
    pub in_use: bool,
    pub max: u32,
    /// Pages by which the platform's first DMA device address is moved forward: with 0xFFFFF the
    /// page-frame bits 12..31 of the queue's base address are all set, so that forming an area
    /// address with anything but an addition (carry) shows.
    pub skew: u32,
    /// Make the k-th DMA allocation (1-based; 0 = none) fail: creation must fail with DmaError,
    /// register nothing, and return exactly the regions it did obtain.
    pub fail_alloc: u32,
}

pub fn max_values(n: usize) -> Vec<u32> {
    if n <= 64 {
        (0..=(n as u32 + 1)).collect()
    } else {
        let n = n as u32;
        let mut v = vec![0, n / 2, n - 1, n, n + 1, 2 * n, 65535, 65536, u32::MAX];
        v.sort();
        v.dedup();
        v
    }
}

/// The oracle on a registered queue: alignment, disjointness, platform-provided memory with the
/// right direction, zeroed rings, and the fixed legacy layout.
pub fn check_registered(n: usize, legacy: bool, ap: bool, desc: u64, driver: u64, device: u64, v: &mut Vec<(String, String)>) {
    let (dl, al, ul) = (16 * n as u64, 6 + 2 * n as u64, 6 + 8 * n as u64);
    if desc % 16 != 0 {
        v.push(("align-desc".into(), format!("descriptor area {:#x} not 16-aligned", desc)));
    }
    if driver % 2 != 0 {
        v.push(("align-driver".into(), format!("driver area {:#x} not 2-aligned", driver)));
    }
    if device % 4 != 0 {
        v.push(("align-device".into(), format!("device area {:#x} not 4-aligned", device)));
    }
    let ext = [(desc, dl, "descriptor"), (driver, al, "driver"), (device, ul, "device")];
    for i in 0..3 {
        for j in i + 1..3 {
            let (a, la, na) = ext[i];
            let (b, lb, nb) = ext[j];
            if a < b + lb && b < a + la {
                v.push(("overlap".into(), format!("{} area {:#x}+{} overlaps {} area {:#x}+{}", na, a, la, nb, b, lb)));
            }
        }
    }
    hal::with(|h| {
        for (a, l, name) in ext {
            match h.dma_containing(a, l as usize) {
                None => v.push(("outside-dma".into(), format!("{} area {:#x}+{} is not wholly inside one live DMA allocation (N={})", name, a, l, n))),
                Some(e) => {
                    let ok = if name == "device" { e.dir != Dir::ToDevice } else { e.dir != Dir::FromDevice };
                    if !ok {
                        v.push(("dma-direction".into(), format!("{} area lies in DMA memory allocated with direction {:?}", name, e.dir)));
                    }
                    if e.ap != ap {
                        v.push(("dma-ap".into(), format!("{} area allocated with access_platform={} but queue created with {}", name, e.ap, ap)));
                    }
                }
            }
        }
        if let Some(b) = h.peek(driver, al as usize) {
            if b.iter().any(|x| *x != 0) {
                v.push(("avail-not-zero".into(), "available ring not zeroed at registration".into()));
            }
        }
        if let Some(b) = h.peek(device, ul as usize) {
            if b.iter().any(|x| *x != 0) {
                v.push(("used-not-zero".into(), "used ring not zeroed at registration".into()));
            }
        }
        if legacy {
            if desc % 4096 != 0 {
                v.push(("legacy-page-align".into(), format!("legacy queue at {:#x} not page aligned", desc)));
            }
            if driver != desc + dl {
                v.push(("legacy-avail".into(), format!("legacy available ring at {:#x}, expected directly after the table at {:#x}", driver, desc + dl)));
            }
            let want = (desc + dl + al + 4095) & !4095;
            if device != want {
                v.push(("legacy-used".into(), format!("legacy used ring at {:#x}, expected the next page boundary {:#x}", device, want)));
            }
            let e0 = h.dma_containing(desc, 1).map(|e| e.ordinal);
            let e1 = h.dma_containing(device + ul - 1, 1).map(|e| e.ordinal);
            if e0.is_none() || e0 != e1 {
                v.push(("legacy-contiguous".into(), "legacy queue is not one contiguous DMA region".into()));
            }
        }
    });
}

/// Runs one case; returns (outcome class, violations).
pub fn run_case<const N: usize>(c: Case) -> (String, Vec<(String, String)>) {
    let mut v: Vec<(String, String)> = vec![];
    hal::reset();
    hal::with(|h| {
        h.skew_dma(c.skew as u64);
        if c.fail_alloc > 0 {
            h.fail_dma_at = Some(c.fail_alloc as usize - 1);
        }
    });
    let mut d = VirtioDev::new(DeviceType::Block, 0, 1, c.max, vec![]);
    d.legacy = c.legacy;
    d.queues[0].in_use_answer = c.in_use;
    let dev: DevRc = Rc::new(RefCell::new(d));
    let mut t = ModelTransport::new(dev.clone());
    let r = crate::util::catch(|| VirtQueue::<LabHal, N>::new(&mut t, 0, c.indirect, c.event_idx, c.ap));
    let r = match r {
        Ok(r) => r,
        Err(p) => {
            v.push(("new-panicked".into(), format!("VirtQueue::<_, {}>::new panicked: {}", N, p)));
            return ("panic".into(), v);
        }
    };
    let allocs = hal::with(|h| h.log.iter().filter(|e| matches!(e, HalEvent::DmaAlloc { .. })).count());
    let sets: Vec<TEvent> = dev.borrow().log.iter().filter(|e| matches!(e, TEvent::QueueSet { .. })).cloned().collect();
    let mut expect_err = if c.in_use { Some(Error::AlreadyUsed) } else if c.max < N as u32 { Some(Error::InvalidParam) } else { None };
    let needed_allocs = if c.legacy { 1 } else { 2 };
    let alloc_fails = expect_err.is_none() && c.fail_alloc > 0 && c.fail_alloc <= needed_allocs;
    if alloc_fails {
        expect_err = Some(Error::DmaError);
    }
    let outcome;
    match (r, expect_err) {
        (Err(e), Some(w)) => {
            outcome = format!("refused:{:?}", e);
            if e != w {
                v.push(("wrong-refusal".into(), format!("refused with {:?}, expected {:?} (in_use={}, max={}, N={})", e, w, c.in_use, c.max, N)));
            }
            if allocs != 0 && !alloc_fails {
                v.push(("refusal-allocated".into(), format!("refused creation ({:?}) made {} dma_alloc calls", e, allocs)));
            }
            if alloc_fails {
                let (live, ok, de) = hal::with(|h| (h.live_dma_count(), h.log.iter().filter(|e| matches!(e, HalEvent::DmaAlloc { failed: false, .. })).count(), h.log.iter().filter(|e| matches!(e, HalEvent::DmaDealloc { .. })).count()));
                if live != 0 || ok != de {
                    v.push(("failed-creation-release".into(), format!("creation failed at DMA allocation #{}: {} regions obtained, {} dma_dealloc calls, {} still allocated", c.fail_alloc, ok, de, live)));
                }
            }
            if !sets.is_empty() {
                v.push(("refusal-registered".into(), format!("refused creation ({:?}) called queue_set", e)));
            }
        }
        (Ok(_q), Some(w)) => {
            outcome = "created-but-must-refuse".into();
            v.push(("not-refused".into(), format!("creation succeeded but must be refused with {:?} (in_use={}, max={}, N={})", w, c.in_use, c.max, N)));
        }
        (Err(e), None) => {
            outcome = format!("spurious:{:?}", e);
            v.push(("spurious-refusal".into(), format!("creation failed with {:?} although queue is free and max {} >= {}", e, c.max, N)));
        }
        (Ok(q), None) => {
            outcome = format!("created:legacy={}", c.legacy);
            if sets.len() != 1 {
                v.push(("queue_set-count".into(), format!("queue_set called {} times", sets.len())));
            }
            if let Some(TEvent::QueueSet { q: qi, size, desc, driver, device }) = sets.first().cloned() {
                if qi != 0 || size != N as u32 {
                    v.push(("queue_set-args".into(), format!("queue_set(queue {}, size {}) for queue 0 of size {}", qi, size, N)));
                }
                check_registered(N, c.legacy, c.ap, desc, driver, device, &mut v);
            }
            // Release.
            let live_before = hal::with(|h| h.live_dma_count());
            let allocs_ok = hal::with(|h| h.log.iter().filter(|e| matches!(e, HalEvent::DmaAlloc { failed: false, .. })).count());
            let r = crate::util::catch(|| drop(q));
            if let Err(p) = r {
                v.push(("drop-panicked".into(), p));
            }
            let (live_after, deallocs) = hal::with(|h| (h.live_dma_count(), h.log.iter().filter(|e| matches!(e, HalEvent::DmaDealloc { .. })).count()));
            if live_after != 0 {
                v.push(("dma-leak".into(), format!("{} of {} DMA regions still allocated after the queue was dropped", live_after, live_before)));
            }
            if deallocs != allocs_ok {
                v.push(("dealloc-count".into(), format!("{} dma_dealloc calls for {} allocations", deallocs, allocs_ok)));
            }
        }
    }
    for (k, d) in hal::with(|h| std::mem::take(&mut h.faults)) {
        v.push((k, d));
    }
    drop(t);
    (outcome, v)
}

// ------------------------------------------------------------------------------------------------
// Registration through the real transports.

struct VReg<const N: usize> {
    bits: u8,
    /// Index of the queue that is created.
    qidx: u16,
    /// Create the queue, unset it, re-initialise the device (which resets it) and create the same
    /// queue again: the second registration is the one that is judged.
    twice: bool,
}

impl<const N: usize> crate::drivers::TransportVisitor for VReg<N> {
    type Out = Vec<(String, String)>;
    fn visit<T: virtio_drivers::transport::Transport + 'static>(self, mut t: T, w: &crate::drivers::DWorld) -> Self::Out {
        let mut v = vec![];
        let legacy = w.tkind == crate::drivers::TKind::MmioLegacy;
        let _ = t.begin_init(crate::c10::LabFeatures::all());
        let (indirect, event_idx, ap) = (self.bits & 1 != 0, self.bits & 2 != 0, self.bits & 4 != 0);
        let qi = self.qidx;
        if self.twice {
            match crate::util::catch(|| VirtQueue::<LabHal, N>::new(&mut t, qi, indirect, event_idx, ap)) {
                Ok(Ok(q)) => {
                    t.queue_unset(qi);
                    drop(q);
                }
                other => v.push(("spurious-refusal".into(), format!("first creation of queue {} failed: {:?}", qi, other.map(|r| r.map(|_| ()))))),
            }
            let _ = t.begin_init(crate::c10::LabFeatures::all());
        }
        match crate::util::catch(|| VirtQueue::<LabHal, N>::new(&mut t, qi, indirect, event_idx, ap)) {
            Err(p) => v.push(("new-panicked".into(), p)),
            Ok(Err(e)) => v.push(("spurious-refusal".into(), format!("VirtQueue::<_, {}>::new on {} failed with {:?}", N, w.tkind.name(), e))),
            Ok(Ok(q)) => {
                let (addrs, size) = {
                    let d = w.dev.borrow();
                    (d.queue_addrs(qi as usize), d.queue_addrs(qi as usize).map(|a| a.size).unwrap_or(0))
                };
                match addrs {
                    None => v.push(("not-registered".into(), format!("queue {} is not enabled in the device after VirtQueue::new on {} ({})", qi, w.tkind.name(), if self.twice { "second creation after a re-initialisation" } else { "first creation" }))),
                    Some(a) => {
                        if size != N as u32 {
                            v.push(("queue_set-args".into(), format!("device was told queue size {} for a queue of {}", size, N)));
                        }
                        check_registered(N, legacy, ap, a.desc, a.driver, a.device, &mut v);
                    }
                }
                // No other queue may have been touched.
                for other in 0..w.dev.borrow().queues.len() {
                    if other != qi as usize && w.dev.borrow().queue_addrs(other).is_some() {
                        v.push(("wrong-queue-registered".into(), format!("creating queue {} registered queue {} in the device", qi, other)));
                    }
                }
                t.queue_unset(qi);
                drop(q);
                let live = hal::with(|h| h.live_dma_count());
                if live != self.bits as usize >> 4 {
                    v.push(("dma-leak".into(), format!("{} DMA regions still allocated after the queue was dropped", live)));
                }
            }
        }
        v
    }
}

/// Creates a queue of N entries on a real transport (register-level device behind it), after `pre`
/// other DMA allocations (so that its regions start in different 4 GiB windows) and with the
/// platform's DMA addresses moved by `skew` pages; the addresses the *device* ended up with are
/// held against the same oracle as on the model transport.
pub fn run_registration<const N: usize>(tkind: crate::drivers::TKind, pre: usize, skew: u32, bits: u8) -> Vec<(String, String)> {
    run_registration_of::<N>(tkind, pre, skew, bits, 0, false)
}

pub fn run_registration_of<const N: usize>(tkind: crate::drivers::TKind, pre: usize, skew: u32, bits: u8, qidx: u16, twice: bool) -> Vec<(String, String)> {
    run_registration_at::<N>(tkind, pre, skew, bits, qidx, twice, None)
}

/// Queue 0's first DMA region starts `below` pages below a 4 GiB boundary of device address space:
/// the areas of one region then differ in the upper half of their addresses.
pub fn run_registration_straddling<const N: usize>(tkind: crate::drivers::TKind, below: u64, bits: u8) -> Vec<(String, String)> {
    run_registration_at::<N>(tkind, 0, 0, bits, 0, false, Some(below))
}

fn run_registration_at<const N: usize>(tkind: crate::drivers::TKind, pre: usize, skew: u32, bits: u8, qidx: u16, twice: bool, straddle: Option<u64>) -> Vec<(String, String)> {
    hal::reset();
    hal::with(|h| h.skew_dma(skew as u64));
    let mut keep = vec![];
    for _ in 0..pre {
        keep.push(<LabHal as virtio_drivers::Hal>::dma_alloc(1, virtio_drivers::BufferDirection::Both, false));
    }
    if let Some(b) = straddle {
        hal::with(|h| h.straddle_next(b));
    }
    // (A device with two queues, whose maximum queue size is at least the requested size.)
    crate::drivers::MAX_QUEUE_SIZE.with(|m| m.set(64.max(N as u32)));
    let mut w = crate::drivers::DWorld::new(crate::drivers::Kind::Console, tkind, crate::drivers::F_VERSION_1, crate::drivers::Kind::Console.default_config());
    crate::drivers::MAX_QUEUE_SIZE.with(|m| m.set(64));
    // Every other case goes through the SomeTransport wrapper (it must answer like what it wraps).
    w.wrap_some = pre % 2 == 1;
    let mut v = w.with_transport(VReg::<N> { bits: bits | ((pre as u8) << 4), qidx, twice });
    for (k, d) in hal::with(|h| std::mem::take(&mut h.faults)) {
        v.push((k, d));
    }
    for (p, va) in keep {
        // SAFETY: allocated above with the same arguments.
        unsafe { <LabHal as virtio_drivers::Hal>::dma_dealloc(p, va, 1, false) };
    }
    crate::mmio::set_handler(None);
    v
}

/// The transport reports `max` as the queue's maximum size (also values that are not powers of
/// two): creation of a queue of N entries succeeds iff max >= N, and a refusal allocates and
/// registers nothing.
pub fn run_refusal<const N: usize>(tkind: crate::drivers::TKind, max: u32) -> Vec<(String, String)> {
    struct VR<const N: usize> {
        max: u32,
    }
    impl<const N: usize> crate::drivers::TransportVisitor for VR<N> {
        type Out = Vec<(String, String)>;
        fn visit<T: virtio_drivers::transport::Transport + 'static>(self, mut t: T, w: &crate::drivers::DWorld) -> Self::Out {
            let mut v = vec![];
            let _ = t.begin_init(crate::c10::LabFeatures::all());
            let allocs_before = hal::with(|h| h.dma_calls);
            let r = crate::util::catch(|| VirtQueue::<LabHal, N>::new(&mut t, 0, false, false, false));
            let allocs = hal::with(|h| h.dma_calls) - allocs_before;
            let registered = w.dev.borrow().queue_addrs(0).is_some();
            match r {
                Err(p) => v.push(("new-panicked".into(), p)),
                Ok(Ok(q)) => {
                    if self.max < N as u32 {
                        v.push(("not-refused".into(), format!("a queue of {} entries was created on {} although the device's maximum for it is {}", N, w.tkind.name(), self.max)));
                    }
                    t.queue_unset(0);
                    drop(q);
                }
                Ok(Err(e)) => {
                    if self.max >= N as u32 {
                        v.push(("spurious-refusal".into(), format!("a queue of {} entries was refused ({:?}) on {} although the device's maximum is {}", N, e, w.tkind.name(), self.max)));
                    } else {
                        if e != Error::InvalidParam {
                            v.push(("wrong-refusal".into(), format!("refused with {:?}, expected InvalidParam (max {} < {})", e, self.max, N)));
                        }
                        if allocs != 0 {
                            v.push(("refusal-allocated".into(), format!("the refused creation made {} dma_alloc calls", allocs)));
                        }
                        if registered {
                            v.push(("refusal-registered".into(), "the refused creation left the queue registered in the device".into()));
                        }
                    }
                }
            }
            v
        }
    }
    hal::reset();
    crate::drivers::MAX_QUEUE_SIZE.with(|m| m.set(max));
    let w = crate::drivers::DWorld::new(crate::drivers::Kind::Rng, tkind, crate::drivers::F_VERSION_1, vec![]);
    crate::drivers::MAX_QUEUE_SIZE.with(|m| m.set(64));
    let mut v = w.with_transport(VR::<N> { max });
    for (k, d) in hal::with(|h| std::mem::take(&mut h.faults)) {
        v.push((k, d));
    }
    crate::mmio::set_handler(None);
    v
}

/// Two queues of one device with different maxima (QueueNumMax / queue_size are per-queue values):
/// queue 0 (maximum `max0`) is created first with `N0` entries, then queue 1 (maximum `max1`) is
/// asked for with N entries: accepted iff max1 >= N, whatever queue 0 allowed.
pub fn run_refusal_second<const N: usize>(tkind: crate::drivers::TKind, max0: u32, max1: u32) -> Vec<(String, String)> {
    struct VS<const N: usize> {
        max1: u32,
    }
    impl<const N: usize> crate::drivers::TransportVisitor for VS<N> {
        type Out = Vec<(String, String)>;
        fn visit<T: virtio_drivers::transport::Transport + 'static>(self, mut t: T, w: &crate::drivers::DWorld) -> Self::Out {
            let mut v = vec![];
            let _ = t.begin_init(crate::c10::LabFeatures::all());
            // Queue 0 first (4 entries: fits both maxima used below).
            let q0 = crate::util::catch(|| VirtQueue::<LabHal, 4>::new(&mut t, 0, false, false, false));
            if !matches!(q0, Ok(Ok(_))) {
                v.push(("spurious-refusal".into(), format!("queue 0 with 4 entries was not created on {}", w.tkind.name())));
                return v;
            }
            let allocs_before = hal::with(|h| h.dma_calls);
            let r = crate::util::catch(|| VirtQueue::<LabHal, N>::new(&mut t, 1, false, false, false));
            let allocs = hal::with(|h| h.dma_calls) - allocs_before;
            match r {
                Err(p) => v.push(("new-panicked".into(), p)),
                Ok(Ok(q)) => {
                    if self.max1 < N as u32 {
                        v.push(("not-refused".into(), format!("queue 1 was created with {} entries on {} although the device's maximum for that queue is {} (queue 0 allows more)", N, w.tkind.name(), self.max1)));
                    }
                    t.queue_unset(1);
                    drop(q);
                }
                Ok(Err(e)) => {
                    if self.max1 >= N as u32 {
                        v.push(("spurious-refusal".into(), format!("queue 1 with {} entries was refused ({:?}) on {} although the device's maximum for that queue is {} (queue 0 allows less)", N, e, w.tkind.name(), self.max1)));
                    } else if allocs != 0 || w.dev.borrow().queue_addrs(1).is_some() {
                        v.push(("refusal-allocated".into(), format!("the refused creation of queue 1 made {} dma_alloc calls / left it registered", allocs)));
                    }
                }
            }
            t.queue_unset(0);
            if let Ok(Ok(q)) = q0 {
                drop(q);
            }
            v
        }
    }
    hal::reset();
    crate::drivers::MAX_QUEUE_SIZE.with(|m| m.set(max0));
    let w = crate::drivers::DWorld::new(crate::drivers::Kind::Console, tkind, crate::drivers::F_VERSION_1, crate::drivers::Kind::Console.default_config());
    crate::drivers::MAX_QUEUE_SIZE.with(|m| m.set(64));
    w.dev.borrow_mut().queues[1].max_size = max1;
    let mut v = w.with_transport(VS::<N> { max1 });
    for (k, d) in hal::with(|h| std::mem::take(&mut h.faults)) {
        v.push((k, d));
    }
    crate::mmio::set_handler(None);
    v
}

/// The transport says the queue is in use (a queue created earlier through the same transport is
/// still live): a second creation for the same index must be refused with AlreadyUsed, allocate
/// nothing and leave the live queue's registration as it is.
pub fn run_in_use<const N: usize>(tkind: crate::drivers::TKind, pre: usize) -> Vec<(String, String)> {
    struct VU<const N: usize>;
    impl<const N: usize> crate::drivers::TransportVisitor for VU<N> {
        type Out = Vec<(String, String)>;
        fn visit<T: virtio_drivers::transport::Transport + 'static>(self, mut t: T, w: &crate::drivers::DWorld) -> Self::Out {
            let mut v = vec![];
            let _ = t.begin_init(crate::c10::LabFeatures::all());
            let first = match crate::util::catch(|| VirtQueue::<LabHal, N>::new(&mut t, 0, false, false, false)) {
                Ok(Ok(q)) => q,
                other => {
                    v.push(("spurious-refusal".into(), format!("first creation failed: {:?}", other.map(|r| r.map(|_| ()))))); 
                    return v;
                }
            };
            let before = w.dev.borrow().queue_addrs(0);
            let allocs_before = hal::with(|h| h.dma_calls);
            let second = crate::util::catch(|| VirtQueue::<LabHal, N>::new(&mut t, 0, false, false, false));
            let allocs = hal::with(|h| h.dma_calls) - allocs_before;
            match second {
                Err(p) => v.push(("new-panicked".into(), p)),
                Ok(Ok(q2)) => {
                    v.push(("not-refused".into(), format!("queue 0 was created a second time on {} while the first one is still registered and live", w.tkind.name())));
                    std::mem::forget(q2);
                }
                Ok(Err(e)) => {
                    if e != Error::AlreadyUsed {
                        v.push(("wrong-refusal".into(), format!("second creation refused with {:?}, expected AlreadyUsed", e)));
                    }
                    if allocs != 0 {
                        v.push(("refusal-allocated".into(), format!("the refused second creation made {} dma_alloc calls", allocs)));
                    }
                }
            }
            let after = w.dev.borrow().queue_addrs(0);
            if format!("{:?}", after) != format!("{:?}", before) {
                v.push(("refusal-registered".into(), format!("the device's registration of queue 0 changed from {:?} to {:?} by the second creation", before, after)));
            }
            t.queue_unset(0);
            drop(first);
            v
        }
    }
    hal::reset();
    let mut keep = vec![];
    for _ in 0..pre {
        keep.push(<LabHal as virtio_drivers::Hal>::dma_alloc(1, virtio_drivers::BufferDirection::Both, false));
    }
    let w = crate::drivers::DWorld::new(crate::drivers::Kind::Rng, tkind, crate::drivers::F_VERSION_1, vec![]);
    let mut v = w.with_transport(VU::<N>);
    for (k, d) in hal::with(|h| std::mem::take(&mut h.faults)) {
        v.push((k, d));
    }
    for (p, va) in keep {
        // SAFETY: allocated above with the same arguments.
        unsafe { <LabHal as virtio_drivers::Hal>::dma_dealloc(p, va, 1, false) };
    }
    crate::mmio::set_handler(None);
    v
}

/// The platform's DMA memory lies at and above 2^44: the modern registers carry such addresses; a
/// legacy device (32-bit page frame number of 4 KiB pages) cannot be told about them, so creation
/// may fail there in whatever way - but a queue that is registered must be registered where it is.
pub fn run_high_memory<const N: usize>(tkind: crate::drivers::TKind) -> Vec<(String, String)> {
    struct VH<const N: usize>;
    impl<const N: usize> crate::drivers::TransportVisitor for VH<N> {
        type Out = Vec<(String, String)>;
        fn visit<T: virtio_drivers::transport::Transport + 'static>(self, mut t: T, w: &crate::drivers::DWorld) -> Self::Out {
            let mut v = vec![];
            let legacy = w.tkind == crate::drivers::TKind::MmioLegacy;
            let _ = t.begin_init(crate::c10::LabFeatures::all());
            let mut created = false;
            match crate::util::catch(|| VirtQueue::<LabHal, N>::new(&mut t, 0, false, false, false)) {
                Err(p) => {
                    if !legacy {
                        v.push(("new-panicked".into(), p));
                    }
                }
                Ok(Err(e)) => {
                    if !legacy {
                        v.push(("spurious-refusal".into(), format!("creation above 2^44 failed with {:?} on {}", e, w.tkind.name())));
                    }
                }
                Ok(Ok(q)) => {
                    created = true;
                    match w.dev.borrow().queue_addrs(0) {
                        None => v.push(("not-registered".into(), "queue 0 is not enabled in the device".into())),
                        Some(a) => check_registered(N, legacy, false, a.desc, a.driver, a.device, &mut v),
                    }
                    t.queue_unset(0);
                    drop(q);
                }
            }
            // A creation that failed must not leave something registered that is not backed by
            // live memory.
            if let Some(a) = w.dev.borrow().queue_addrs(0).filter(|_| !created) {
                if hal::with(|h| h.dma_containing(a.desc, 16).is_none()) {
                    v.push(("outside-dma".into(), format!("queue 0 is registered at {:#x}, which is not DMA memory of the platform", a.desc)));
                }
            }
            v
        }
    }
    hal::reset();
    hal::with(|h| h.skew_dma(1u64 << 32));
    let w = crate::drivers::DWorld::new(crate::drivers::Kind::Rng, tkind, crate::drivers::F_VERSION_1, vec![]);
    let mut v = w.with_transport(VH::<N>);
    for (k, d) in hal::with(|h| std::mem::take(&mut h.faults)) {
        v.push((k, d));
    }
    crate::mmio::set_handler(None);
    v
}
