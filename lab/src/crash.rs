//! Fatal-signal reporting: if the code under test dies with SIGSEGV/SIGBUS/SIGABRT/SIGILL while an
//! execution is in progress, the choice sequence of that execution is written out as a replay
//! file and a VIOLATION line is printed before the process exits with status 1.

use std::cell::Cell;
use std::sync::atomic::{AtomicBool, AtomicPtr, Ordering};

thread_local! {
    static CUR: Cell<(*const (u32, u32), usize)> = const { Cell::new((std::ptr::null(), 0)) };
}

static PROP: AtomicPtr<u8> = AtomicPtr::new(std::ptr::null_mut());
static PART: AtomicPtr<u8> = AtomicPtr::new(std::ptr::null_mut());
static ENABLED: AtomicBool = AtomicBool::new(false);

/// Declares which execution is about to run on this thread.
pub fn set_current(prefix: &[(u32, u32)]) {
    CUR.with(|c| c.set((prefix.as_ptr(), prefix.len())));
}

pub fn clear_current() {
    CUR.with(|c| c.set((std::ptr::null(), 0)));
}

/// Sets the (leaked, NUL-terminated) property and part names used in the crash report.
pub fn set_context(prop: &str, part: &str) {
    let p = std::ffi::CString::new(prop).unwrap().into_raw() as *mut u8;
    let q = std::ffi::CString::new(part).unwrap().into_raw() as *mut u8;
    PROP.store(p, Ordering::SeqCst);
    PART.store(q, Ordering::SeqCst);
}

fn wr(fd: i32, s: &[u8]) {
    // SAFETY: plain write(2).
    unsafe { libc::write(fd, s.as_ptr() as *const libc::c_void, s.len()) };
}

fn wr_cstr(fd: i32, p: *const u8) {
    if p.is_null() {
        return;
    }
    // SAFETY: NUL-terminated string leaked by set_context.
    unsafe {
        let n = libc::strlen(p as *const libc::c_char);
        libc::write(fd, p as *const libc::c_void, n);
    }
}

fn wr_num(fd: i32, mut v: u64) {
    let mut buf = [0u8; 24];
    let mut i = buf.len();
    if v == 0 {
        i -= 1;
        buf[i] = b'0';
    }
    while v > 0 {
        i -= 1;
        buf[i] = b'0' + (v % 10) as u8;
        v /= 10;
    }
    wr(fd, &buf[i..]);
}

pub extern "C" fn on_fatal(sig: libc::c_int, _info: *mut libc::siginfo_t, _ctx: *mut libc::c_void) {
    report_and_exit(sig);
}

pub fn report_and_exit(sig: libc::c_int) -> ! {
    let (p, n) = CUR.try_with(|c| c.get()).unwrap_or((std::ptr::null(), 0));
    let prop = PROP.load(Ordering::SeqCst);
    let part = PART.load(Ordering::SeqCst);
    // SAFETY: we are dying; only raw syscalls follow.
    unsafe {
        let pid = libc::getpid() as u64;
        let mut path = [0u8; 96];
        let prefix = b"/verif/replays/crash-";
        path[..prefix.len()].copy_from_slice(prefix);
        let mut k = prefix.len();
        let mut digits = [0u8; 20];
        let mut d = 0;
        let mut v = pid;
        while v > 0 {
            digits[d] = b'0' + (v % 10) as u8;
            v /= 10;
            d += 1;
        }
        while d > 0 {
            d -= 1;
            path[k] = digits[d];
            k += 1;
        }
        let suffix = b".json\0";
        path[k..k + suffix.len()].copy_from_slice(suffix);
        let fd = libc::open(path.as_ptr() as *const libc::c_char, libc::O_CREAT | libc::O_WRONLY | libc::O_TRUNC, 0o644);
        if fd >= 0 {
            wr(fd, b"{\n \"property\": \"");
            wr_cstr(fd, prop);
            wr(fd, b"\",\n \"part\": \"");
            wr_cstr(fd, part);
            wr(fd, b"\",\n \"violation_kind\": \"fatal-signal\",\n \"signal\": ");
            wr_num(fd, sig as u64);
            wr(fd, b",\n \"replay\": {\n  \"kind\": \"dfs\",\n  \"choices\": [");
            for i in 0..n {
                if i > 0 {
                    wr(fd, b", ");
                }
                wr_num(fd, (*p.add(i)).0 as u64);
            }
            wr(fd, b"],\n  \"arities\": [");
            for i in 0..n {
                if i > 0 {
                    wr(fd, b", ");
                }
                wr_num(fd, (*p.add(i)).1 as u64);
            }
            wr(fd, b"]\n }\n}\n");
            libc::close(fd);
        }
        wr(1, b"VIOLATION property=");
        wr_cstr(1, prop);
        wr(1, b" replay=");
        wr(1, &path[..k + 5]);
        wr(1, b"\n  kind=fatal-signal signal=");
        wr_num(1, sig as u64);
        wr(1, b" part=");
        wr_cstr(1, part);
        wr(1, b" (the process died inside a driver call; the replay holds the choice prefix of that execution)\n");
        libc::_exit(1);
    }
}

/// Installs the reporters for fatal signals other than the tracer's SIGSEGV (which forwards
/// foreign faults here).
pub fn install() {
    if ENABLED.swap(true, Ordering::SeqCst) {
        return;
    }
    // SAFETY: plain sigaction calls.
    unsafe {
        for sig in [libc::SIGBUS, libc::SIGABRT, libc::SIGILL, libc::SIGFPE] {
            let mut sa: libc::sigaction = std::mem::zeroed();
            sa.sa_sigaction = on_fatal as usize;
            sa.sa_flags = libc::SA_SIGINFO;
            libc::sigemptyset(&mut sa.sa_mask);
            libc::sigaction(sig, &sa, std::ptr::null_mut());
        }
    }
}

pub fn enabled() -> bool {
    ENABLED.load(Ordering::SeqCst)
}
