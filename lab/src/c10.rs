//! C10: register discipline of the real `MmioTransport` (and through `SomeTransport`), observed
//! through the MMIO interception and judged against the specification's register table.

use crate::dev::{DevRc, VirtioDev};
use crate::hal;
use crate::mmio;
use crate::regdev::{MmioRegs, RegAccess, RegWorld, Region, Trace, MMIO_DEV_BASE};
use std::cell::RefCell;
use std::ptr::NonNull;
use std::rc::Rc;
use virtio_drivers::transport::mmio::{MmioTransport, VirtIOHeader};
use virtio_drivers::transport::{DeviceStatus, DeviceType, SomeTransport, Transport};

#[derive(Clone, Debug, PartialEq)]
pub enum Op {
    ReadFeatures,
    WriteFeatures(u64),
    MaxQueueSize(u16),
    Notify(u16),
    GetStatus,
    SetStatus(u32),
    SetGuestPageSize(u32),
    QueueSet { q: u16, size: u32, desc: u64, driver: u64, device: u64 },
    QueueUnset(u16),
    QueueUsed(u16),
    AckInterrupt,
    ReadConfigGen,
    NoAccessQueries,
}

#[derive(Clone, Debug, PartialEq)]
pub enum Ret {
    None,
    U64(u64),
    Bool(bool),
    Panic(String),
}

#[derive(Clone, Debug)]
pub struct Env {
    pub version: u32,
    pub wrap_some: bool,
    pub offered: u64,
    pub max_sizes: [u32; 3],
    pub isr: u32,
    pub status: u32,
    pub ready_lag: u32,
    pub in_use: [bool; 3],
    pub config_gen: u32,
}

impl Default for Env {
    fn default() -> Self {
        Env { version: 2, wrap_some: false, offered: 0x1_3000_0021, max_sizes: [8, 256, 32768], isr: 0, status: 0, ready_lag: 0, in_use: [false; 3], config_gen: 7 }
    }
}

fn apply<T: Transport>(t: &mut T, op: &Op) -> Ret {
    let r = crate::util::catch(|| match op {
        Op::ReadFeatures => Ret::U64(t.read_device_features()),
        Op::WriteFeatures(f) => {
            t.write_driver_features(*f);
            Ret::None
        }
        Op::MaxQueueSize(q) => Ret::U64(t.max_queue_size(*q) as u64),
        Op::Notify(q) => {
            t.notify(*q);
            Ret::None
        }
        Op::GetStatus => Ret::U64(t.get_status().bits() as u64),
        Op::SetStatus(s) => {
            t.set_status(DeviceStatus::from_bits_retain(*s));
            Ret::None
        }
        Op::SetGuestPageSize(s) => {
            t.set_guest_page_size(*s);
            Ret::None
        }
        Op::QueueSet { q, size, desc, driver, device } => {
            t.queue_set(*q, *size, *desc, *driver, *device);
            Ret::None
        }
        Op::QueueUnset(q) => {
            t.queue_unset(*q);
            Ret::None
        }
        Op::QueueUsed(q) => Ret::Bool(t.queue_used(*q)),
        Op::AckInterrupt => Ret::U64(t.ack_interrupt().bits() as u64),
        Op::ReadConfigGen => Ret::U64(t.read_config_generation() as u64),
        Op::NoAccessQueries => {
            let _ = t.device_type();
            Ret::Bool(t.requires_legacy_layout())
        }
    });
    match r {
        Ok(r) => r,
        Err(p) => Ret::Panic(p),
    }
}

/// (offset) -> (readable, writable, legacy_only, modern_only)
pub fn reg_table(off: u64) -> Option<(bool, bool, bool, bool)> {
    Some(match off {
        0x000 | 0x004 | 0x008 | 0x00c | 0x010 | 0x034 | 0x060 => (true, false, false, false),
        0x014 | 0x020 | 0x024 | 0x030 | 0x038 | 0x050 | 0x064 => (false, true, false, false),
        0x028 | 0x03c => (false, true, true, false),
        0x040 => (true, true, true, false),
        0x044 => (true, true, false, true),
        0x070 => (true, true, false, false),
        0x080 | 0x084 | 0x090 | 0x094 | 0x0a0 | 0x0a4 => (false, true, false, true),
        // ConfigGeneration is defined for version 2 only; the driver also reads it on legacy
        // devices (which return 0). Tolerated: see DESIGN.md (deliberate non-finding).
        0x0fc => (true, false, false, false),
        _ => return None,
    })
}

pub struct World {
    pub dev: DevRc,
    pub trace: Trace,
}

pub fn build_world(env: &Env) -> World {
    hal::reset();
    let mut d = VirtioDev::new(DeviceType::Block, env.offered, 3, 0, vec![0; 16]);
    for i in 0..3 {
        d.queues[i].max_size = env.max_sizes[i];
        d.queues[i].in_use_answer = env.in_use[i];
    }
    d.isr = env.isr;
    d.status = env.status;
    d.config_gen = env.config_gen;
    // As after begin_init on a legacy device (the page size is set once during initialisation).
    d.guest_page_size = 4096;
    let dev: DevRc = Rc::new(RefCell::new(d));
    let trace: Trace = Rc::new(RefCell::new(vec![]));
    let mut w = RegWorld::new(trace.clone());
    let mut regs = MmioRegs::new(dev.clone(), env.version);
    regs.ready_lag = env.ready_lag;
    w.mmio = Some(regs);
    mmio::set_handler(Some(Box::new(w)));
    World { dev, trace }
}

fn general_checks(env: &Env, tr: &[RegAccess], out: &mut Vec<(String, String)>) {
    for a in tr {
        match a.region {
            Region::MmioHeader => {
                if a.width != 4 || a.off % 4 != 0 {
                    out.push(("access-width".into(), format!("{}-byte access at header offset {:#x}", a.width, a.off)));
                }
                match reg_table(a.off) {
                    None => out.push(("undefined-register".into(), format!("{} of undefined register offset {:#x}", if a.write { "write" } else { "read" }, a.off))),
                    Some((r, w, legacy_only, modern_only)) => {
                        if a.write && !w {
                            out.push(("write-to-read-only".into(), format!("write to read-only register {:#x}", a.off)));
                        }
                        if !a.write && !r {
                            out.push(("read-of-write-only".into(), format!("read of write-only register {:#x}", a.off)));
                        }
                        if legacy_only && env.version != 1 {
                            out.push(("legacy-register-on-modern".into(), format!("legacy register {:#x} accessed on a version 2 device", a.off)));
                        }
                        if modern_only && env.version != 2 {
                            out.push(("modern-register-on-legacy".into(), format!("version 2 register {:#x} accessed on a legacy device", a.off)));
                        }
                    }
                }
            }
            Region::MmioConfig => {}
            r => out.push(("stray-access".into(), format!("access outside the device's register block: {:?} {:#x}", r, a.off))),
        }
    }
}

fn writes(tr: &[RegAccess]) -> Vec<(u64, u64)> {
    tr.iter().filter(|a| a.write).map(|a| (a.off, a.value)).collect()
}
fn only_regs(tr: &[RegAccess], allowed: &[u64], out: &mut Vec<(String, String)>, op: &Op) {
    for a in tr {
        if !allowed.contains(&a.off) {
            out.push(("unrelated-register".into(), format!("{:?} touched register {:#x} which is not among those defined for it {:x?}", op, a.off, allowed)));
        }
    }
}
/// The device's queue selector must hold the right queue at every per-queue register access. It
/// is what the device holds that counts (`sel0` is its value when the operation starts; a reset
/// puts it back to 0), so an implementation that remembers a still valid selection is fine.
fn select_first(tr: &[RegAccess], q: u16, sel0: u32, out: &mut Vec<(String, String)>, op: &Op) {
    let per_queue = [0x034u64, 0x038, 0x03c, 0x040, 0x044, 0x080, 0x084, 0x090, 0x094, 0x0a0, 0x0a4];
    let mut selected: Option<u64> = Some(sel0 as u64);
    for a in tr {
        if a.write && a.off == 0x030 {
            selected = Some(a.value);
        } else if a.write && a.off == 0x070 && a.value == 0 {
            selected = Some(0);
        } else if per_queue.contains(&a.off) && selected != Some(q as u64) {
            out.push(("queue-not-selected".into(), format!("{:?}: per-queue register {:#x} accessed while the device's QueueSel was {:?}", op, a.off, selected)));
            return;
        }
    }
}

pub fn check_op(env: &Env, w: &World, op: &Op, ret: &Ret, tr: &[RegAccess], pre: &Pre, out: &mut Vec<(String, String)>) {
    general_checks(env, tr, out);
    let legacy = env.version == 1;
    let d = w.dev.borrow();
    if let Ret::Panic(p) = ret {
        // Only legacy queue_set with arguments violating the legacy layout may refuse (panic),
        // and then it must not have touched the device.
        let allowed = matches!(op, Op::QueueSet { .. }) && legacy;
        if !allowed {
            out.push(("panic".into(), format!("{:?} panicked: {}", op, p)));
        } else if !writes(tr).is_empty() {
            out.push(("partial-queue-set".into(), format!("{:?} panicked after writing registers {:x?}", op, writes(tr))));
        }
        return;
    }
    match op {
        Op::NoAccessQueries => {
            if !tr.is_empty() {
                out.push(("unexpected-access".into(), format!("device_type/requires_legacy_layout accessed registers {:?}", tr)));
            }
            if *ret != Ret::Bool(legacy) {
                out.push(("legacy-answer".into(), format!("requires_legacy_layout = {:?} on version {}", ret, env.version)));
            }
        }
        Op::ReadFeatures => {
            only_regs(tr, &[0x010, 0x014], out, op);
            let mut sel = None;
            for a in tr {
                if a.write {
                    sel = Some(a.value);
                } else if sel.is_none() {
                    out.push(("features-without-select".into(), "DeviceFeatures read before DeviceFeaturesSel was written in this operation".into()));
                }
            }
            if *ret != Ret::U64(env.offered) {
                out.push(("features-value".into(), format!("read_device_features returned {:x?}, device offers {:#x}", ret, env.offered)));
            }
        }
        Op::WriteFeatures(f) => {
            only_regs(tr, &[0x020, 0x024], out, op);
            let mut sel = None;
            for a in tr {
                if a.off == 0x024 {
                    sel = Some(a.value);
                } else if sel.is_none() {
                    out.push(("features-without-select".into(), "DriverFeatures written before DriverFeaturesSel in this operation".into()));
                }
            }
            if d.driver_features != *f {
                out.push(("driver-features-value".into(), format!("device received driver features {:#x}, caller passed {:#x}", d.driver_features, f)));
            }
        }
        Op::MaxQueueSize(q) => {
            only_regs(tr, &[0x030, 0x034], out, op);
            select_first(tr, *q, pre.queue_sel, out, op);
            let want = env.max_sizes.get(*q as usize).copied().unwrap_or(0) as u64;
            if *ret != Ret::U64(want) {
                out.push(("max-queue-size".into(), format!("max_queue_size({}) = {:?}, device says {}", q, ret, want)));
            }
        }
        Op::Notify(q) => {
            if writes(tr) != vec![(0x050, *q as u64)] || tr.len() != 1 {
                out.push(("notify".into(), format!("notify({}) performed {:?}, expected exactly one write of {} to QueueNotify", q, tr, q)));
            }
        }
        Op::GetStatus => {
            if tr.len() != 1 || tr[0].write || tr[0].off != 0x070 {
                out.push(("get-status".into(), format!("get_status performed {:?}", tr)));
            }
            if *ret != Ret::U64(pre.status as u64) {
                out.push(("get-status-value".into(), format!("get_status = {:?}, device status {:#x}", ret, pre.status)));
            }
        }
        Op::SetStatus(s) => {
            if tr.len() != 1 || writes(tr) != vec![(0x070, *s as u64)] {
                out.push(("set-status".into(), format!("set_status({:#x}) performed {:?}", s, tr)));
            }
        }
        Op::SetGuestPageSize(s) => {
            if legacy {
                if tr.len() != 1 || writes(tr) != vec![(0x028, *s as u64)] {
                    out.push(("guest-page-size".into(), format!("set_guest_page_size({}) on legacy performed {:?}", s, tr)));
                }
            } else if !tr.is_empty() {
                out.push(("guest-page-size".into(), format!("set_guest_page_size on a version 2 device performed {:?}", tr)));
            }
        }
        Op::QueueSet { q, size, desc, driver, device } => {
            select_first(tr, *q, pre.queue_sel, out, op);
            let ws = writes(tr);
            if tr.iter().any(|a| !a.write) {
                out.push(("queue-set-reads".into(), "queue_set read registers".into()));
            }
            if legacy {
                only_regs(tr, &[0x030, 0x038, 0x03c, 0x040], out, op);
                let pos = |o: u64| ws.iter().position(|w| w.0 == o);
                match (pos(0x038), pos(0x03c), pos(0x040)) {
                    (Some(n), Some(al), Some(pf)) => {
                        if !(n < pf && al < pf) || pf != ws.len() - 1 {
                            out.push(("legacy-order".into(), format!("legacy queue_set wrote {:x?}; QueuePFN must come last, after QueueNum and QueueAlign", ws)));
                        }
                        if ws[n].1 != *size as u64 {
                            out.push(("queue-num".into(), format!("QueueNum = {}, size {}", ws[n].1, size)));
                        }
                        if ws[al].1 != 4096 {
                            out.push(("queue-align".into(), format!("QueueAlign = {}", ws[al].1)));
                        }
                        if ws[pf].1 * 4096 != *desc {
                            out.push(("queue-pfn".into(), format!("QueuePFN = {:#x} for descriptors at {:#x}", ws[pf].1, desc)));
                        }
                    }
                    _ => out.push(("legacy-missing-register".into(), format!("legacy queue_set wrote only {:x?}", ws))),
                }
            } else {
                only_regs(tr, &[0x030, 0x038, 0x080, 0x084, 0x090, 0x094, 0x0a0, 0x0a4, 0x044], out, op);
                if ws.last() != Some(&(0x044, 1)) {
                    out.push(("ready-not-last".into(), format!("QueueReady=1 is not the last write of queue_set: {:x?}", ws)));
                }
                if ws.iter().filter(|w| w.0 == 0x044).count() != 1 {
                    out.push(("ready-count".into(), format!("QueueReady written {} times", ws.iter().filter(|w| w.0 == 0x044).count())));
                }
                let want = [(0x038u64, *size as u64), (0x080, desc & 0xffff_ffff), (0x084, desc >> 32), (0x090, driver & 0xffff_ffff), (0x094, driver >> 32), (0x0a0, device & 0xffff_ffff), (0x0a4, device >> 32)];
                for (o, v) in want {
                    let got: Vec<u64> = ws.iter().filter(|w| w.0 == o).map(|w| w.1).collect();
                    if got.last() != Some(&v) {
                        out.push(("queue-register-value".into(), format!("register {:#x} received {:x?}, expected {:#x} (desc {:#x} driver {:#x} device {:#x})", o, got, v, desc, driver, device)));
                    }
                }
            }
            // Device-side effect.
            if (*q as usize) < 3 {
                let r = &d.queues[*q as usize];
                if !r.enabled || r.a.size != *size || r.a.desc != *desc || (!legacy && (r.a.driver != *driver || r.a.device != *device)) {
                    out.push(("queue-set-effect".into(), format!("after queue_set({}, {}, {:#x}, {:#x}, {:#x}) the device holds {:x?} enabled={}", q, size, desc, driver, device, r.a, r.enabled)));
                }
                for (i, o) in d.queues.iter().enumerate() {
                    if i != *q as usize && (o.enabled != pre.enabled[i]) {
                        out.push(("other-queue-touched".into(), format!("queue_set({}) changed queue {}", q, i)));
                    }
                }
            }
        }
        Op::QueueUnset(q) => {
            select_first(tr, *q, pre.queue_sel, out, op);
            let ws = writes(tr);
            if legacy {
                only_regs(tr, &[0x030, 0x038, 0x03c, 0x040], out, op);
                if !ws.contains(&(0x040, 0)) {
                    out.push(("unset-pfn".into(), format!("legacy queue_unset wrote {:x?}, QueuePFN=0 missing", ws)));
                }
            } else {
                only_regs(tr, &[0x030, 0x044, 0x038, 0x080, 0x084, 0x090, 0x094, 0x0a0, 0x0a4], out, op);
                let p0 = tr.iter().position(|a| a.write && a.off == 0x044);
                match p0 {
                    Some(p) if tr[p].value == 0 => {
                        // Must read QueueReady back until it is 0 before touching anything else.
                        let mut i = p + 1;
                        let mut saw_zero = false;
                        while i < tr.len() && !tr[i].write && tr[i].off == 0x044 {
                            if tr[i].value == 0 {
                                saw_zero = true;
                            }
                            i += 1;
                        }
                        if !saw_zero {
                            out.push(("unset-no-readback".into(), "queue_unset did not wait until QueueReady read back 0".into()));
                        }
                        if tr[..p].iter().any(|a| a.write && a.off != 0x030) {
                            out.push(("unset-order".into(), "queue_unset wrote queue registers before clearing QueueReady".into()));
                        }
                    }
                    _ => out.push(("unset-ready".into(), format!("queue_unset wrote {:x?}, QueueReady=0 missing", ws))),
                }
            }
            if (*q as usize) < 3 && d.queues[*q as usize].enabled {
                out.push(("unset-effect".into(), format!("queue {} still enabled after queue_unset", q)));
            }
        }
        Op::QueueUsed(q) => {
            only_regs(tr, &[0x030, if legacy { 0x040 } else { 0x044 }], out, op);
            select_first(tr, *q, pre.queue_sel, out, op);
            let want = (*q as usize) < 3 && (pre.enabled[*q as usize] || env.in_use[*q as usize]);
            if *ret != Ret::Bool(want) {
                out.push(("queue-used-value".into(), format!("queue_used({}) = {:?}, expected {}", q, ret, want)));
            }
        }
        Op::AckInterrupt => {
            only_regs(tr, &[0x060, 0x064], out, op);
            let isr = pre.isr;
            let ws = writes(tr);
            if isr != 0 {
                if ws != vec![(0x064, isr as u64)] {
                    out.push(("interrupt-ack".into(), format!("ack_interrupt with status {:#x} wrote {:x?}", isr, ws)));
                }
            } else if !ws.is_empty() {
                out.push(("interrupt-ack".into(), format!("ack_interrupt with status 0 wrote {:x?}", ws)));
            }
            if tr.first().map(|a| (a.write, a.off)) != Some((false, 0x060)) {
                out.push(("interrupt-status-read".into(), "ack_interrupt did not start by reading InterruptStatus".into()));
            }
            if *ret != Ret::U64((isr & 3) as u64) {
                out.push(("interrupt-value".into(), format!("ack_interrupt returned {:?} for status {:#x}", ret, isr)));
            }
        }
        Op::ReadConfigGen => {
            if tr.len() != 1 || tr[0].write || tr[0].off != 0x0fc {
                out.push(("config-generation".into(), format!("read_config_generation performed {:?}", tr)));
            }
            if *ret != Ret::U64(env.config_gen as u64) {
                out.push(("config-generation-value".into(), format!("{:?} vs {}", ret, env.config_gen)));
            }
        }
    }
}

#[derive(Clone, Debug, Default)]
pub struct Pre {
    /// The device's queue selector when the operation starts.
    pub queue_sel: u32,
    pub status: u32,
    pub isr: u32,
    pub enabled: [bool; 3],
}

fn pre_of(w: &World) -> Pre {
    let d = w.dev.borrow();
    let mut queue_sel = 0;
    mmio::with_handler(|h| {
        if let Some(rw) = h.as_any().downcast_mut::<crate::regdev::RegWorld>() {
            if let Some(m) = rw.mmio.as_ref() {
                queue_sel = m.queue_sel;
            }
        }
    });
    Pre { queue_sel, status: d.status, isr: d.isr, enabled: [d.queues[0].enabled, d.queues[1].enabled, d.queues[2].enabled] }
}

/// Runs a sequence of operations on a fresh transport; returns violations and a signature of the
/// trace (for distinct-outcome counting and the SomeTransport comparison).
pub fn run_ops(env: &Env, ops: &[Op]) -> (Vec<(String, String)>, Vec<RegAccess>) {
    let w = build_world(env);
    let mut out = vec![];
    let header = NonNull::new(MMIO_DEV_BASE as *mut VirtIOHeader).unwrap();
    // SAFETY: the pointer is fake and every access is intercepted; nothing is dereferenced.
    let t = unsafe { MmioTransport::new(header, 0x200) };
    let t = match t {
        Ok(t) => t,
        Err(e) => {
            out.push(("probe-rejected".into(), format!("{:?}", e)));
            mmio::set_handler(None);
            return (out, vec![]);
        }
    };
    w.trace.borrow_mut().clear();
    let mut full = vec![];
    fn drive<T: Transport>(t: &mut T, env: &Env, w: &World, ops: &[Op], out: &mut Vec<(String, String)>, full: &mut Vec<RegAccess>) {
        for op in ops {
            let pre = pre_of(w);
            let start = w.trace.borrow().len();
            let ret = apply(t, op);
            let tr: Vec<RegAccess> = w.trace.borrow()[start..].to_vec();
            check_op(env, w, op, &ret, &tr, &pre, out);
            full.extend(tr);
        }
    }
    if env.wrap_some {
        let mut st: SomeTransport = t.into();
        drive(&mut st, env, &w, ops, &mut out, &mut full);
        w.trace.borrow_mut().clear();
        drop(st);
    } else {
        let mut t = t;
        drive(&mut t, env, &w, ops, &mut out, &mut full);
        w.trace.borrow_mut().clear();
        drop(t);
    }
    // Drop must reset the device: last access is Status=0.
    let tr = w.trace.borrow().clone();
    general_checks(env, &tr, &mut out);
    if tr.last().map(|a| (a.write, a.off, a.value)) != Some((true, 0x070, 0)) {
        out.push(("drop-no-reset".into(), format!("dropping the transport performed {:?}; expected a final write of 0 to Status", tr)));
    }
    if w.dev.borrow().status != 0 {
        out.push(("drop-no-reset".into(), "device status non-zero after drop".into()));
    }
    mmio::set_handler(None);
    (out, full)
}

pub fn known_device_id(id: u32) -> bool {
    matches!(id, 1..=13 | 16..=25)
}

/// Probe: returns violations.
pub fn run_probe(magic: u32, version: u32, device_id: u32, size: usize) -> (bool, Vec<(String, String)>) {
    run_probe_status(magic, version, device_id, size, 0)
}

/// The same with the device's Status register holding `status` when it is probed (a device that
/// firmware or a previous owner left initialised).
pub fn run_probe_status(magic: u32, version: u32, device_id: u32, size: usize, status: u32) -> (bool, Vec<(String, String)>) {
    hal::reset();
    let mut d = VirtioDev::new(DeviceType::Block, 0, 1, 8, vec![]);
    d.status = status;
    let dev: DevRc = Rc::new(RefCell::new(d));
    let trace: Trace = Rc::new(RefCell::new(vec![]));
    let mut w = RegWorld::new(trace.clone());
    let mut regs = MmioRegs::new(dev.clone(), version);
    regs.magic = magic;
    regs.version = version;
    regs.device_id = device_id;
    w.mmio = Some(regs);
    mmio::set_handler(Some(Box::new(w)));
    let mut out = vec![];
    let header = NonNull::new(MMIO_DEV_BASE as *mut VirtIOHeader).unwrap();
    // SAFETY: fake pointer, intercepted.
    let r = crate::util::catch(|| unsafe { MmioTransport::new(header, size) });
    let tr = trace.borrow().clone();
    let want = magic == 0x7472_6976 && (version == 1 || version == 2) && known_device_id(device_id) && size >= 0x100;
    let accepted;
    match r {
        Err(p) => {
            accepted = false;
            out.push(("probe-panic".into(), p));
        }
        Ok(Ok(t)) => {
            accepted = true;
            if !want {
                out.push(("probe-accepts-invalid".into(), format!("accepted magic {:#x} version {} device id {} region size {:#x}", magic, version, device_id, size)));
            } else {
                if t.device_type() as u32 != device_id && !(device_id == 5 && t.device_type() as u32 == 13) {
                    out.push(("probe-device-type".into(), format!("device id {} decoded as {:?}", device_id, t.device_type())));
                }
                if t.version() as u32 != version {
                    out.push(("probe-version".into(), format!("version {} decoded as {:?}", version, t.version())));
                }
            }
            std::mem::forget(t);
        }
        Ok(Err(e)) => {
            accepted = false;
            if want {
                out.push(("probe-rejects-valid".into(), format!("rejected a valid header with {:?}", e)));
            }
            // The error names what was read from the header.
            use virtio_drivers::transport::mmio::MmioError;
            use virtio_drivers::transport::DeviceTypeError;
            match e {
                MmioError::BadMagic(m) if m != magic => out.push(("probe-error-value".into(), format!("BadMagic({:#x}) reported for magic {:#x}", m, magic))),
                MmioError::UnsupportedVersion(v) if v != version => out.push(("probe-error-value".into(), format!("UnsupportedVersion({}) reported for version {}", v, version))),
                MmioError::InvalidDeviceID(DeviceTypeError::InvalidDeviceType(i)) if i != device_id => out.push(("probe-error-value".into(), format!("InvalidDeviceType({}) reported for device id {}", i, device_id))),
                _ => {}
            }
        }
    }
    if dev.borrow().status != status || dev.borrow().resets != 0 {
        out.push(("probe-writes".into(), format!("probing changed the device status from {:#x} to {:#x} ({} resets)", status, dev.borrow().status, dev.borrow().resets)));
    }
    for a in &tr {
        if a.write {
            out.push(("probe-writes".into(), format!("probing wrote {:#x} to offset {:#x}", a.value, a.off)));
        } else if a.region != Region::MmioHeader || a.width != 4 || ![0x000, 0x004, 0x008, 0x00c].contains(&a.off) {
            out.push(("probe-reads".into(), format!("probing read {:?} offset {:#x} width {}", a.region, a.off, a.width)));
        }
    }
    mmio::set_handler(None);
    (accepted, out)
}

bitflags::bitflags! {
    #[derive(Copy, Clone, Debug, Default, Eq, PartialEq)]
    pub struct LabFeatures: u64 {
        const INDIRECT = 1 << 28;
        const EVENT_IDX = 1 << 29;
        const VERSION_1 = 1 << 32;
    }
}

/// begin_init + VirtQueue::new + finish_init on the real MmioTransport over LabHal: the legacy
/// ordering GuestPageSize -> (QueueNum, QueueAlign) -> QueuePFN and the registered addresses.
pub fn run_init_with_queue<const N: usize>(version: u32) -> Vec<(String, String)> {
    use crate::hal::LabHal;
    use virtio_drivers::queue::VirtQueue;
    let env = Env { version, max_sizes: [N as u32, N as u32, N as u32], ..Default::default() };
    let w = build_world(&env);
    w.dev.borrow_mut().guest_page_size = 0;
    let mut out = vec![];
    let header = NonNull::new(MMIO_DEV_BASE as *mut VirtIOHeader).unwrap();
    // SAFETY: fake pointer, intercepted.
    let mut t = unsafe { MmioTransport::new(header, 0x200) }.expect("probe");
    w.trace.borrow_mut().clear();
    let r = crate::util::catch(|| {
        let f = t.begin_init(LabFeatures::VERSION_1 | LabFeatures::INDIRECT);
        let q = VirtQueue::<LabHal, N>::new(&mut t, 1, f.contains(LabFeatures::INDIRECT), false, false);
        t.finish_init();
        q
    });
    let tr = w.trace.borrow().clone();
    general_checks(&env, &tr, &mut out);
    match r {
        Err(p) => out.push(("init-panic".into(), p)),
        Ok(Err(e)) => out.push(("init-queue-error".into(), format!("{:?}", e))),
        Ok(Ok(q)) => {
            let pos = |o: u64| tr.iter().position(|a| a.write && a.off == o);
            if version == 1 {
                match (pos(0x028), pos(0x03c), pos(0x040)) {
                    (Some(g), Some(a), Some(p)) => {
                        if !(g < a && a < p) {
                            out.push(("legacy-init-order".into(), format!("legacy order must be GuestPageSize, QueueAlign, QueuePFN; positions {} {} {}", g, a, p)));
                        }
                        if tr[g].value != 4096 {
                            out.push(("guest-page-size".into(), format!("GuestPageSize = {}", tr[g].value)));
                        }
                    }
                    x => out.push(("legacy-init-missing".into(), format!("legacy init did not write all of GuestPageSize/QueueAlign/QueuePFN: {:?}", x))),
                }
            }
            let d = w.dev.borrow();
            let a = d.queues[1].a;
            if !d.queues[1].enabled || a.size != N as u32 {
                out.push(("init-queue-not-enabled".into(), format!("queue 1 not enabled after VirtQueue::new: {:?}", a)));
            } else {
                hal::with(|h| {
                    for (p, l, nm) in [(a.desc, 16 * N, "descriptor"), (a.driver, 6 + 2 * N, "driver"), (a.device, 6 + 8 * N, "device")] {
                        if h.dma_containing(p, l).is_none() {
                            out.push(("init-queue-address".into(), format!("{} area {:#x}+{} registered through the MMIO registers is not live DMA memory", nm, p, l)));
                        }
                    }
                });
            }
            drop(d);
            drop(t);
            drop(q);
        }
    }
    mmio::set_handler(None);
    out
}
