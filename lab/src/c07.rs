//! C07: a misbehaving device cannot corrupt driver state or cause invalid memory access.
//!
//! Part A: the raw `VirtQueue` under a used-ring / scribbling adversary, with the store tracer
//! detecting any *read* of driver-owned queue areas and a differential run without scribbling.
//! Part B: every driver under response-byte, length, id and index faults.
//! Part C: absurd configuration-space values (each case in a forked child with resource limits).

use crate::cosim::{self, Action, CoDevice, CoRc};
use crate::dev::{DevRc, ModelTransport, VirtioDev};
use crate::drivers::{construct, AnyDriver, DWorld, Kind, TKind, TransportVisitor, F_EVENT_IDX, F_INDIRECT, F_VERSION_1, VSOCK_RX};
use crate::engine::chooser::{choose, deviate, obs, obs_str, report, tag};
use crate::engine::Violation;
use crate::hal::{self, LabHal};
use crate::mmio;
use crate::ring::{QueueAddrs, RefQueue};
use crate::tlog;
use std::cell::RefCell;
use std::rc::Rc;
use virtio_drivers::queue::VirtQueue;
use virtio_drivers::transport::{DeviceType, Transport};

fn viol(kind: &str, d: String) {
    report(Violation::new("C07", kind, d));
}

/// Platform-ledger faults that the property forbids whatever the device does.
pub fn take_ledger_faults(ctx: &str) {
    for (k, d) in hal::with(|h| std::mem::take(&mut h.faults)) {
        match k.as_str() {
            "unshare-double" | "unshare-unknown" | "unshare-mismatch" | "dma-double-free" | "dma-unknown-free" | "dma-free-mismatch" => viol(&k, format!("{}: {}", ctx, d)),
            _ => {}
        }
    }
}

// ------------------------------------------------------------------------------------------
// Part A: raw queue.

const QN: usize = 4;

/// A source of adversary decisions: live (explored) or a recording replayed with scribbling off.
struct Adv {
    live: bool,
    rec: Vec<usize>,
    pos: usize,
    scribble_enabled: bool,
}

impl Adv {
    fn pick(&mut self, n: usize, label: &'static str) -> usize {
        if self.live {
            let c = deviate(n, label);
            self.rec.push(c);
            c
        } else {
            let c = self.rec.get(self.pos).copied().unwrap_or(0);
            self.pos += 1;
            c.min(n - 1)
        }
    }
}

#[derive(Debug, Clone, PartialEq, Eq)]
struct QOutcome {
    results: Vec<String>,
}

fn queue_script(adv: &mut Adv, indirect: bool, event_idx: bool, traced: bool) -> QOutcome {
    hal::reset();
    hal::with(|h| h.use_tracer_pages = traced);
    let dev: DevRc = Rc::new(RefCell::new(VirtioDev::new(DeviceType::Block, 0, 1, QN as u32, vec![])));
    let mut t = ModelTransport::new(dev.clone());
    let mut q = VirtQueue::<LabHal, QN>::new(&mut t, 0, indirect, event_idx, false).expect("queue");
    let a: QueueAddrs = dev.borrow().queue_addrs(0).unwrap();
    let mut refq = RefQueue::new(a, indirect);
    let mut tracer = if traced {
        let (base, alias, pages) = hal::with(|h| {
            let e = h.dma_containing(a.desc, 16 * QN).unwrap();
            (e.vaddr, e.dev_vaddr, e.pages)
        });
        Some(crate::tracer::Tracer::new(base, pages * 4096, alias, 16 * QN + 6 + 2 * QN))
    } else {
        None
    };
    let mut out = QOutcome { results: vec![] };
    let mut reads = 0usize;
    // Runs a driver call with the queue areas protected, counting read accesses.
    macro_rules! drv {
        ($e:expr) => {{
            match tracer.as_mut() {
                Some(tr) => {
                    let (r, acc) = tr.trace(|| crate::util::catch(|| $e));
                    reads += acc.iter().filter(|x| !x.write).count();
                    r
                }
                None => crate::util::catch(|| $e),
            }
        }};
    }
    // Submit three chains of different shapes.
    let shapes: [(usize, usize); 3] = [(1, 1), (2, 0), (0, 2)];
    let mut bufs: Vec<(u16, Vec<Box<[u8]>>, Vec<Box<[u8]>>)> = vec![];
    for (k, (ni, no)) in shapes.iter().enumerate() {
        let ins: Vec<Box<[u8]>> = (0..*ni).map(|i| vec![(k * 16 + i) as u8; 3 + i].into_boxed_slice()).collect();
        let mut outs: Vec<Box<[u8]>> = (0..*no).map(|i| vec![0x5Au8; 4 + i].into_boxed_slice()).collect();
        let r = {
            let in_refs: Vec<&[u8]> = ins.iter().map(|b| unsafe { std::slice::from_raw_parts(b.as_ptr(), b.len()) }).collect();
            let mut out_refs: Vec<&mut [u8]> = outs.iter_mut().map(|b| unsafe { std::slice::from_raw_parts_mut(b.as_mut_ptr(), b.len()) }).collect();
            drv!(unsafe { q.add(&in_refs, &mut out_refs) })
        };
        out.results.push(format!("add{} -> {:?}", k, r));
        if let Ok(Ok(tok)) = r {
            bufs.push((tok, ins, outs));
        }
        if indirect && k == 1 {
            // In indirect mode every chain takes one descriptor; three fit. Direct mode: 2+2+2 > 4.
        }
    }
    // The device completes what it can see, misbehaving as chosen.
    let mut fetched = vec![];
    while let Ok(Some(c)) = refq.fetch() {
        fetched.push(c);
    }
    let n_avail = fetched.len();
    for (i, c) in fetched.iter().enumerate() {
        let id = match adv.pick(7, "used id (default: the chain's head)") {
            0 => c.head as u32,
            1 => QN as u32,
            2 => 0xFFFF,
            3 => 0xFFFF_FFFF,
            4 => (0..QN as u32).find(|d| !fetched.iter().any(|f| f.descs.contains(&(*d as u16)))).unwrap_or(QN as u32 - 1),
            5 => c.descs.get(1).copied().unwrap_or(c.head) as u32,
            _ => fetched[(i + 1) % n_avail].head as u32,
        };
        let wl = c.writable_len() as u32;
        let len = match adv.pick(5, "used length (default: bytes written)") {
            0 => wl,
            1 => 0,
            2 => wl + 1,
            3 => 0x1_0000,
            _ => u32::MAX,
        };
        let _ = c.write_all(&vec![0xC3u8; wl as usize]);
        let _ = refq.push_used(id, len);
    }
    match adv.pick(4, "used index jump (default: none)") {
        0 => {}
        1 => {
            // +2 with a garbage slot
            let _ = refq.push_used(0xDEAD_BEEF, 0x7777);
            let _ = refq.push_used(1, 1);
        }
        2 => {
            for _ in 0..QN + 1 {
                let _ = refq.push_used(2, 2);
            }
        }
        _ => {
            refq.used_idx = refq.used_idx.wrapping_sub(2);
            let _ = refq.push_used(3, 3);
        }
    }
    // Scribbling over memory the device must not write.
    let scr = adv.pick(5, "scribble over descriptor table / available ring (default: none)");
    if self_scribble(scr, adv.scribble_enabled, &a) {
        tag("adv:scribbled");
    }
    // The driver consumes.
    let r = drv!(q.can_pop());
    out.results.push(format!("can_pop -> {:?}", r));
    let r = drv!(q.peek_used());
    out.results.push(format!("peek_used -> {:?}", r));
    let mut popped: Vec<bool> = vec![false; bufs.len()];
    for round in 0..2 {
        for bi in 0..bufs.len() {
            if popped[bi] {
                // The caller may only present tokens of requests that are still outstanding.
                continue;
            }
            let tok = bufs[bi].0;
            let r = {
                let (_, ins, outs) = &mut bufs[bi];
                let in_refs: Vec<&[u8]> = ins.iter().map(|b| unsafe { std::slice::from_raw_parts(b.as_ptr(), b.len()) }).collect();
                let mut out_refs: Vec<&mut [u8]> = outs.iter_mut().map(|b| unsafe { std::slice::from_raw_parts_mut(b.as_mut_ptr(), b.len()) }).collect();
                drv!(unsafe { q.pop_used(tok, &in_refs, &mut out_refs) })
            };
            if matches!(r, Ok(Ok(_))) {
                popped[bi] = true;
            }
            out.results.push(format!("round{} pop_used({}) -> {:?}", round, tok, r));
        }
    }
    // One more submission exercises the free list after the misbehaviour.
    let extra_in = vec![9u8; 2].into_boxed_slice();
    let r = {
        let in_refs: Vec<&[u8]> = vec![unsafe { std::slice::from_raw_parts(extra_in.as_ptr(), 2) }];
        drv!(unsafe { q.add(&in_refs, &mut []) })
    };
    out.results.push(format!("add-after -> {:?}", r));
    let r = drv!(q.available_desc());
    out.results.push(format!("available_desc -> {:?}", r));
    let r = drv!(q.should_notify());
    out.results.push(format!("should_notify -> {:?}", r));
    if reads != 0 {
        viol("driver-reads-driver-owned-area", format!("the driver performed {} load(s) from the descriptor table / available ring (areas it owns and a device may have scribbled over)", reads));
    }
    take_ledger_faults("raw queue");
    dev.borrow_mut().set_status(0);
    let r = crate::util::catch(|| drop(q));
    if let Err(p) = r {
        out.results.push(format!("drop panicked: {}", p));
    }
    take_ledger_faults("raw queue drop");
    drop(t);
    drop(bufs);
    out
}

fn self_scribble(kind: usize, enabled: bool, a: &QueueAddrs) -> bool {
    if kind == 0 || !enabled {
        return false;
    }
    let n = a.size as usize;
    hal::with(|h| match kind {
        1 => {
            h.dev_scribble(a.desc, &vec![0xFFu8; 16 * n]);
        }
        2 => {
            h.dev_scribble(a.desc, &vec![0u8; 16 * n]);
        }
        3 => {
            // Rotate the next fields and flip NEXT flags.
            if let Some(mut d) = h.peek(a.desc, 16 * n) {
                for i in 0..n {
                    d[16 * i + 12] ^= 1;
                    d[16 * i + 14] = ((i + 1) % n) as u8;
                    d[16 * i + 15] = 0;
                }
                h.dev_scribble(a.desc, &d);
            }
        }
        _ => {
            h.dev_scribble(a.driver, &vec![0xFFu8; 6 + 2 * n]);
        }
    });
    true
}

/// One execution of part A.
pub fn run_queue() {
    let indirect = choose(2, "indirect") == 1;
    let event_idx = choose(2, "event_idx") == 1;
    let mut adv = Adv { live: true, rec: vec![], pos: 0, scribble_enabled: true };
    let o1 = queue_script(&mut adv, indirect, event_idx, true);
    tlog!("with adversary: {:?}", o1.results);
    for r in &o1.results {
        obs_str(r);
    }
    tag("queue-script");
    if crate::engine::chooser::has_violation() {
        return;
    }
    // Differential: the same schedule without scribbling must give the caller the same results.
    let mut adv2 = Adv { live: false, rec: adv.rec.clone(), pos: 0, scribble_enabled: false };
    let o2 = queue_script(&mut adv2, indirect, event_idx, false);
    if o1 != o2 {
        let diff = o1.results.iter().zip(o2.results.iter()).find(|(a, b)| a != b);
        viol("results-depend-on-driver-owned-memory", format!("caller-visible results differ with and without the device scribbling over driver-owned queue areas: {:?}", diff));
    }
}

// ------------------------------------------------------------------------------------------
// Part B: every driver under a misbehaving device.

/// Where slices handed to the caller must lie: inside some buffer that was shared with the device
/// (the ledger keeps retired entries for the duration of an execution).
fn slice_inside_shared(ptr: usize, len: usize) -> bool {
    if len == 0 {
        return true;
    }
    hal::with(|h| h.shares.iter().any(|s| ptr >= s.vaddr && ptr + len <= s.vaddr + s.len) || h.dma.iter().any(|d| d.live && ptr >= d.vaddr && ptr + len <= d.vaddr + d.pages * 4096))
}

fn check_slice(what: &str, s: &[u8]) {
    if !slice_inside_shared(s.as_ptr() as usize, s.len()) {
        viol("slice-exceeds-buffer", format!("{}: the {}-byte slice at {:#x} handed to the caller does not lie inside any buffer shared with the device", what, s.len(), s.as_ptr() as usize));
    }
}

/// Response contents an adversary may write into a device-writable part of `wl` bytes.
fn garbage(kind: usize, wl: usize, kindspec: Kind, q: u16) -> Vec<u8> {
    match kind {
        1 => vec![0xFFu8; wl],
        2 => (0..wl).map(|i| (i as u8).wrapping_mul(37).wrapping_add(1)).collect(),
        3 => {
            // Plausible-looking but absurd structure for the driver at hand.
            let mut v = vec![0u8; wl];
            match (kindspec, q) {
                (Kind::Socket, 0) if wl >= 44 => {
                    // RW packet claiming an enormous body.
                    v[0..8].copy_from_slice(&2u64.to_le_bytes());
                    v[8..16].copy_from_slice(&0x0000_0001_0000_0003u64.to_le_bytes());
                    v[16..20].copy_from_slice(&80u32.to_le_bytes());
                    v[20..24].copy_from_slice(&1234u32.to_le_bytes());
                    // A body length beyond the receive buffer (and, for `fill`, beyond what was written).
                    v[24..28].copy_from_slice(&100u32.to_le_bytes());
                    v[28..30].copy_from_slice(&1u16.to_le_bytes());
                    v[30..32].copy_from_slice(&5u16.to_le_bytes());
                }
                (Kind::Sound, 0) if wl >= 4 => {
                    v[0..4].copy_from_slice(&0x8000u32.to_le_bytes());
                    for b in v[4..].iter_mut() {
                        *b = 0xFF;
                    }
                }
                (Kind::Gpu, 0) if wl >= 24 => {
                    v[0..4].copy_from_slice(&0x1101u32.to_le_bytes());
                    for b in v[24..].iter_mut() {
                        *b = 0xFF;
                    }
                }
                _ => {
                    if wl > 0 {
                        v[wl - 1] = 0;
                    }
                    if wl > 4 {
                        v[0..4].copy_from_slice(&u32::MAX.to_le_bytes());
                    }
                }
            }
            v
        }
        _ => vec![0u8; wl],
    }
}

/// Queues on which the driver posts buffers for the device to fill whenever it likes.
fn is_rx(kind: Kind, q: u16) -> bool {
    match kind {
        Kind::Console | Kind::NetRaw | Kind::NetBuf | Kind::Input => q == 0,
        Kind::Socket => q == 0 || q == 2,
        Kind::Sound => q == 1 || q == 3,
        _ => false,
    }
}

use crate::cosim::honest_response as honest;

fn adversary(kind: Kind, dev: &DevRc) -> CoRc {
    let co = CoDevice::new(
        dev.clone(),
        Box::new(move |q, chain, req| {
            if is_rx(kind, q) {
                return Action::Hold;
            }
            // A request may be served late: only while the driver busy-waits, after later
            // requests were queued. Requests that arrive while an earlier one is still waiting
            // queue up behind it (a busy device serving in order) unless the device picks them
            // first - completion out of order is legal for a virtio device.
            let backlog = BACKLOG.with(|b| b.borrow().iter().any(|x| *x == q));
            if backlog {
                if deviate(2, "request served before the ones waiting (default: queued behind them)") == 0 {
                    return Action::Hold;
                }
                OUT_OF_ORDER.with(|o| o.set(true));
                tag("adv:request-served-out-of-order");
            } else if deviate(2, "request served late (default: when notified)") == 1 {
                tag("adv:request-served-late");
                BACKLOG.with(|b| b.borrow_mut().push(q));
                return Action::Hold;
            }
            let wl = chain.writable_len();
            let g = deviate(5, "response bytes (default: an honest success)");
            let data = if g == 0 { honest(kind, q, req, wl) } else { garbage(g - 1, wl, kind, q) };
            let len = match deviate(4, "used length (default: bytes written)") {
                0 => data.len() as u32,
                1 => 0,
                2 => wl as u32 + 1,
                _ => u32::MAX,
            };
            Action::Complete(data, len)
        }),
    );
    co.borrow_mut().spin_horizon = 40;
    co
}

thread_local! {
    static UNATTRIBUTABLE: std::cell::Cell<bool> = const { std::cell::Cell::new(false) };
    /// Request queues on which the device currently holds back requests it was notified of.
    static BACKLOG: RefCell<Vec<u16>> = const { RefCell::new(vec![]) };
    static OUT_OF_ORDER: std::cell::Cell<bool> = const { std::cell::Cell::new(false) };
    /// Buffers lent to a *blocking* driver call for its duration only.
    static BORROWED: RefCell<Vec<(usize, usize)>> = const { RefCell::new(vec![]) };
}

/// Registers a buffer which the next (blocking) call borrows only until it returns.
fn lend(b: &[u8]) {
    BORROWED.with(|v| v.borrow_mut().push((b.as_ptr() as usize, b.len())));
}

/// After a driver call has returned (normally or with an error) the device must not be left with
/// access to memory the caller gets back: stack frames that no longer exist and buffers that were
/// only borrowed for the duration of a blocking call. Otherwise a later device write lands in
/// memory that has been reused (corrupting driver or caller state). Not judged once the device
/// has named ids the driver cannot attribute: then the driver cannot know what is still in use.
#[inline(never)]
fn check_shares_after_return(name: &str, sp: usize, seq_before: u64) {
    if UNATTRIBUTABLE.with(|u| u.get()) {
        return;
    }
    // The kind names the call and whether the device had completed requests out of order.
    let order = if OUT_OF_ORDER.with(|o| o.get()) { "out-of-order-completion" } else { "in-order-completion" };
    for (va, len, dir, seq) in hal::dangling_stack_shares(sp) {
        if seq <= seq_before {
            continue;
        }
        viol(
            &format!("share-outlives-stack-frame:{}:{}", name, order),
            format!("{} returned while a {}-byte buffer at {:#x} in a stack frame that no longer exists is still shared with the device ({:?}): the request using it was left in the queue", name, len, va, dir),
        );
    }
    let lent: Vec<(usize, usize)> = BORROWED.with(|b| b.borrow().clone());
    for (lo, len) in lent {
        if len == 0 {
            continue;
        }
        for (va, l, dir, seq) in hal::with(|h| h.live_shares_in(lo, lo + len)) {
            if seq <= seq_before {
                continue;
            }
            viol(
                &format!("share-outlives-borrow:{}:{}", name, order),
                format!("{} (blocking) returned while {} bytes at {:#x} of the buffer it borrowed are still shared with the device ({:?})", name, l, va, dir),
            );
        }
    }
}

/// Completes the oldest held chain of queue `q` (a posted receive buffer) as the adversary likes.
fn adversary_fill(co: &CoRc, kind: Kind, q: u16, honest: &[u8]) -> bool {
    let mut c = co.borrow_mut();
    if c.held_count(q) == 0 {
        return false;
    }
    let chain = c.held.get(&q).unwrap()[0].clone();
    let wl = chain.writable_len();
    let g = deviate(5, "received bytes (default: a plausible message)");
    let mut data = if g == 0 { honest.to_vec() } else { garbage(g - 1, wl, kind, q) };
    data.truncate(wl);
    let len = match deviate(5, "used length of the receive buffer (default: bytes written)") {
        0 => data.len() as u32,
        1 => 0,
        2 => wl as u32 + 1,
        3 => 7,
        _ => u32::MAX,
    };
    let id_fault = deviate(5, "used id of the receive buffer (default: its head)");
    if id_fault != 0 {
        // The driver can never attribute this completion: waiting for the request it belongs to
        // is then an unbounded wait, as if the device had never completed it.
        UNATTRIBUTABLE.with(|u| u.set(true));
    }
    let rq = c.queues.get_mut(&q).unwrap();
    let id = match id_fault {
        0 => chain.head as u32,
        1 => rq.a.size,
        2 => u32::MAX,
        3 => (chain.head as u32 + 1) % rq.a.size,
        // The id of the buffer completed just before (a repeated id).
        _ => (chain.head as u32 + rq.a.size - 1) % rq.a.size,
    };
    let _ = chain.write_all(&data);
    c.held.get_mut(&q).unwrap().remove(0);
    let rq = c.queues.get_mut(&q).unwrap();
    let _ = rq.push_used(id, len);
    true
}

struct VB;

impl TransportVisitor for VB {
    type Out = ();
    fn visit<T: Transport + 'static>(self, t: T, w: &DWorld) {
        let kind = w.kind;
        UNATTRIBUTABLE.with(|u| u.set(false));
        OUT_OF_ORDER.with(|u| u.set(false));
        BACKLOG.with(|b| b.borrow_mut().clear());
        BORROWED.with(|b| b.borrow_mut().clear());
        let co = adversary(kind, &w.dev);
        cosim::install(&co);
        // While the driver busy-waits for received data the adversary eventually delivers.
        {
            let co2 = co.clone();
            crate::mmio::set_spin_handler(Some(Box::new(move |site| {
                let n = {
                    let mut c = co2.borrow_mut();
                    c.spins += 1;
                    c.service_all();
                    c.spins
                };
                if n % 3 == 0 {
                    // A request held back earlier is served now (oldest first), else a posted
                    // receive buffer is filled.
                    let late = {
                        let c = co2.borrow();
                        c.held.iter().find(|(q, h)| !is_rx(kind, **q) && !h.is_empty()).map(|(q, h)| (*q, h[0].clone()))
                    };
                    match late {
                        Some((q, chain)) => {
                            let req = chain.read_all().unwrap_or_default();
                            adversary_fill(&co2, kind, q, &honest(kind, q, &req, chain.writable_len()));
                            if co2.borrow().held.get(&q).map(|h| h.is_empty()).unwrap_or(true) {
                                BACKLOG.with(|b| b.borrow_mut().retain(|x| *x != q));
                            }
                        }
                        None => {
                            adversary_fill(&co2, kind, 0, &[0x41]);
                        }
                    }
                }
                if n > 60 {
                    co2.borrow_mut().livelock = Some(format!("busy-wait site {} did not end although the device answered honestly after its deviations", site));
                    panic!("LAB-LIVELOCK");
                }
            })));
        }
        let r = crate::util::catch(|| construct(kind, t));
        let mut d = match r {
            Ok(Ok(d)) => d,
            Ok(Err(e)) => {
                obs_str(&format!("construct err {:?}", e));
                cosim::uninstall();
                return;
            }
            Err(p) => {
                obs_str(&format!("construct panic {}", p));
                cosim::uninstall();
                return;
            }
        };
        let mut log: Vec<String> = vec![];
        // After a (clean) panic the object's state is unspecified: only dropping it is exercised.
        let mut dead = false;
        macro_rules! call {
            ($name:expr, $e:expr) => {{
                co.borrow_mut().spins = 0;
                let seq_before = hal::with(|h| h.seq);
                // While the call runs, every heap free is examined: memory still posted to the live
                // device must not be released (teardown order itself is C09's subject).
                if $name != "drop" {
                    crate::alloc_watch::arm(&w.dev);
                }
                let r = if dead && $name != "drop" { Err("skipped after an earlier panic".to_string()) } else { crate::util::catch(|| $e) };
                let freed = if $name != "drop" { crate::alloc_watch::disarm() } else { vec![] };
                if r.is_ok() {
                    // Once the device has named ids the driver cannot attribute, a request the
                    // driver gives up on may leave device-readable memory posted (the call that
                    // lent it has failed); memory the device may still *write* is never given up.
                    for h in freed.into_iter().filter(|h| !UNATTRIBUTABLE.with(|u| u.get()) || h.contains("device-writable")) {
                        viol(&format!("buffer-freed-while-posted:{}", $name), format!("{}: {}", $name, h));
                    }
                }
                if r.is_err() {
                    dead = true;
                }
                let s = match &r {
                    Ok(v) => format!("{} -> {:?}", $name, v),
                    Err(p) => format!("{} -> panic({})", $name, p.split('@').next().unwrap_or("")),
                };
                log.push(s);
                if let Some(l) = co.borrow_mut().livelock.take() {
                    if UNATTRIBUTABLE.with(|u| u.get()) {
                        tag("wait-for-a-completion-the-device-misattributed");
                        viol(&format!("wait-never-ends-after-foreign-used-id:{}:{}", kind.name(), $name), format!("{}: {}", $name, l));
                    } else {
                        viol("livelock", format!("{}: {}", $name, l));
                    }
                }
                take_ledger_faults($name);
                if r.is_ok() {
                    check_shares_after_return($name, crate::hal::current_sp!(), seq_before);
                }
                BORROWED.with(|b| b.borrow_mut().clear());
                r.ok()
            }};
        }
        match &mut d {
            AnyDriver::Blk(b) => {
                let mut buf = vec![0u8; 512];
                lend(&buf);
                call!("read_blocks", b.read_blocks(0, &mut buf));
                lend(&buf);
                call!("write_blocks", b.write_blocks(1, &buf));
                call!("flush", b.flush());
                let mut id = [0u8; 20];
                lend(&id);
                if let Some(Ok(n)) = call!("device_id", b.device_id(&mut id)) {
                    // The documented use of the result is `&id[0..n]`.
                    if n > id.len() {
                        viol("length-exceeds-buffer", format!("device_id returned a length of {} for the caller's {}-byte buffer (the caller is told to use id[0..length])", n, id.len()));
                    }
                }
                let mut req = virtio_drivers::device::blk::BlkReq::default();
                let mut resp = virtio_drivers::device::blk::BlkResp::default();
                let tok = call!("read_blocks_nb", unsafe { b.read_blocks_nb(2, &mut req, &mut buf, &mut resp) });
                call!("peek_used", b.peek_used());
                if let Some(Ok(tok)) = tok {
                    call!("complete_read_blocks", unsafe { b.complete_read_blocks(tok, &req, &mut buf, &mut resp) });
                }
            }
            AnyDriver::Console(c) => {
                use embedded_io::{BufRead, Read};
                adversary_fill(&co, kind, 0, b"hello");
                call!("recv(pop)", c.recv(true));
                call!("recv(peek)", c.recv(false));
                let mut buf = [0u8; 5];
                call!("read", c.read(&mut buf));
                let mut fb: Option<(usize, usize)> = None;
                call!("fill_buf", c.fill_buf().map(|s| {
                    fb = Some((s.as_ptr() as usize, s.len()));
                    s.len()
                }));
                if let Some(s) = fb {
                    if !slice_inside_shared(s.0, s.1) {
                        viol("slice-exceeds-buffer", format!("fill_buf returned a {}-byte slice outside the receive buffer", s.1));
                    }
                }
                call!("send", c.send(b'x'));
                call!("ack_interrupt", c.ack_interrupt());
            }
            AnyDriver::Gpu(g) => {
                call!("resolution", g.resolution());
                call!("setup_framebuffer", g.setup_framebuffer().map(|fb| fb.len()));
                call!("flush", g.flush());
                call!("setup_cursor", g.setup_cursor(&vec![0u8; 64 * 64 * 4], 1, 2, 3, 4));
                call!("get_edid", g.get_edid(0).map(|_| ()));
                call!("edid_preferred_resolution", g.edid_preferred_resolution());
                call!("edid_supported_resolutions", g.edid_supported_resolutions());
            }
            AnyDriver::Input(i) => {
                adversary_fill(&co, kind, 0, &[1, 0, 2, 0, 3, 0, 0, 0]);
                call!("pop_pending_event", i.pop_pending_event());
                adversary_fill(&co, kind, 0, &[4, 0, 5, 0, 6, 0, 0, 0]);
                call!("pop_pending_event", i.pop_pending_event());
                call!("name", i.name());
                call!("ids", i.ids().map(|_| ()));
                call!("prop_bits", i.prop_bits());
                call!("serial_number", i.serial_number());
                call!("ev_bits", i.ev_bits(1));
                call!("abs_info", i.abs_info(0).map(|_| ()));
                let mut out = [0u8; 16];
                call!("query_config_select", i.query_config_select(virtio_drivers::device::input::InputConfigSelect::IdName, 0, &mut out));
            }
            AnyDriver::NetRaw(n) => {
                let frame3 = vec![1u8, 2, 3];
                lend(&frame3);
                call!("send", n.send(&frame3));
                let mut buf = vec![0u8; 2048];
                let tok = call!("receive_begin", unsafe { n.receive_begin(&mut buf) });
                let mut frame = vec![0u8; 12];
                frame.extend([9u8; 20]);
                adversary_fill(&co, kind, 0, &frame);
                call!("poll_receive", n.poll_receive());
                if let Some(Ok(tok)) = tok {
                    if let Some(Ok((h, l))) = call!("receive_complete", unsafe { n.receive_complete(tok, &mut buf) }) {
                        // Lengths, not a slice: the caller's own bounds checks apply.
                        if h + l > buf.len() {
                            tag("raw-receive-length-beyond-buffer");
                        }
                    }
                }
                call!("can_send", n.can_send());
                // The blocking receive: the device fills the buffer (honestly or not) while the
                // driver waits.
                let mut buf2 = vec![0u8; 2048];
                lend(&buf2);
                call!("receive_wait", n.receive_wait(&mut buf2));
            }
            AnyDriver::NetBuf(n) => {
                let mut frame = vec![0u8; 12];
                frame.extend([7u8; 30]);
                adversary_fill(&co, kind, 0, &frame);
                call!("can_recv", n.can_recv());
                let mut rx_slot = None;
                call!("receive", n.receive().map(|rx| {
                    rx_slot = Some(rx);
                }));
                if let Some(rx) = rx_slot {
                    call!("packet_len", rx.packet_len());
                    let mut pk: Option<(usize, usize)> = None;
                    call!("packet", {
                        pk = Some((rx.packet().as_ptr() as usize, rx.packet().len()));
                        rx.packet().len()
                    });
                    if let Some(p) = pk {
                        if p.0 < rx.as_bytes().as_ptr() as usize || p.0 + p.1 > rx.as_bytes().as_ptr() as usize + rx.as_bytes().len() {
                            viol("slice-exceeds-buffer", format!("RxBuffer::packet() is {} bytes, outside its {}-byte buffer", p.1, rx.as_bytes().len()));
                        }
                    }
                    call!("recycle_rx_buffer", n.recycle_rx_buffer(rx));
                }
                // A second delivery (possibly naming an id the device already used).
                adversary_fill(&co, kind, 0, &frame);
                let mut rx_slot2 = None;
                call!("receive#2", n.receive().map(|rx| {
                    rx_slot2 = Some(rx);
                }));
                if let Some(rx) = rx_slot2 {
                    call!("packet_len#2", rx.packet_len());
                    call!("recycle_rx_buffer#2", n.recycle_rx_buffer(rx));
                }
                let tx = n.new_tx_buffer(10);
                call!("send", n.send(tx));
                // A burst: two buffers held by the caller at once and handed back oldest first,
                // then every buffer used once more. A buffer the caller receives must be the one
                // the device used (never one that is still posted).
                adversary_fill(&co, kind, 0, &frame);
                adversary_fill(&co, kind, 0, &frame);
                let mut held: Vec<virtio_drivers::device::net::RxBuffer> = vec![];
                call!("receive#3", n.receive().map(|rx| held.push(rx)));
                call!("receive#4", n.receive().map(|rx| held.push(rx)));
                while !held.is_empty() {
                    let rx = held.remove(0);
                    call!("recycle_rx_buffer(oldest first)", n.recycle_rx_buffer(rx));
                }
                for _ in 0..3 {
                    adversary_fill(&co, kind, 0, &frame);
                    let mut slot = None;
                    call!("receive(after recycling)", n.receive().map(|rx| slot = Some(rx)));
                    if let Some(rx) = slot {
                        call!("recycle_rx_buffer(after recycling)", n.recycle_rx_buffer(rx));
                    }
                }
            }
            AnyDriver::Rng(r) => {
                let mut dst = [0u8; 16];
                lend(&dst);
                call!("request_entropy", r.request_entropy(&mut dst));
            }
            AnyDriver::Rtc(r) => {
                call!("num_clocks", r.num_clocks());
                call!("clock_cap", r.clock_cap(0).map(|_| ()));
                call!("read", r.read(0));
            }
            AnyDriver::Socket(_) | AnyDriver::Sound(_) | AnyDriver::P9(_) => {}
        }
        // Drivers that are consumed by a wrapper or need owned access.
        match d {
            AnyDriver::Socket(mut s) => {
                use virtio_drivers::device::socket::{VsockAddr, VsockConnectionManager};
                // Raw driver first: the body slice handed to the caller's handler is visible here.
                {
                    let mut rw0 = crate::vsock_ref::Hdr { src_cid: 2, dst_cid: 0x0000_0001_0000_0003, src_port: 80, dst_port: 1234, len: 3, typ: 1, op: 5, flags: 0, buf_alloc: 64, fwd_cnt: 0 }.encode();
                    rw0.extend([7, 8, 9]);
                    adversary_fill(&co, kind, 0, &rw0);
                    call!("raw poll", s.poll(|ev, body| {
                        check_slice("vsock body", body);
                        Ok(Some(ev))
                    }));
                }
                let mut cm = VsockConnectionManager::new_with_capacity(s, 8);
                let peer = VsockAddr { cid: 2, port: 80 };
                call!("connect", cm.connect(peer, 1234));
                let hdr = |op: u16, len: u32| crate::vsock_ref::Hdr { src_cid: 2, dst_cid: 0x0000_0001_0000_0003, src_port: 80, dst_port: 1234, len, typ: 1, op, flags: 0, buf_alloc: 64, fwd_cnt: 0 }.encode();
                adversary_fill(&co, kind, 0, &hdr(2, 0));
                call!("poll", cm.poll());
                let mut rw = hdr(5, 4);
                rw.extend([1, 2, 3, 4]);
                adversary_fill(&co, kind, 0, &rw);
                call!("poll", cm.poll());
                let mut buf = [0u8; 8];
                call!("recv", cm.recv(peer, 1234, &mut buf));
                call!("send", cm.send(peer, 1234, &[5, 6]));
                adversary_fill(&co, kind, 0, &hdr(4, 0));
                call!("poll", cm.poll());
                call!("recv_buffer_available_bytes", cm.recv_buffer_available_bytes(peer, 1234));
                let posted = co.borrow_mut().held_count(0);
                obs(posted as u64);
                call!("drop", drop(cm));
            }
            AnyDriver::Sound(mut s) => {
                use virtio_drivers::device::sound::{PcmFeatures, PcmFormat, PcmRate};
                call!("output_streams", s.output_streams());
                call!("rates_supported", s.rates_supported(0).map(|_| ()));
                call!("pcm_set_params", s.pcm_set_params(0, 8, 4, PcmFeatures::empty(), 2, PcmFormat::S16, PcmRate::Rate44100));
                call!("pcm_prepare", s.pcm_prepare(0));
                // Three periods (4, 4, 1 bytes) so that several transfers can be in flight.
                let frames: Vec<u8> = (1..=9).collect();
                lend(&frames);
                call!("pcm_xfer", s.pcm_xfer(0, &frames));
                // Two transfers in flight: the device may finish the second first.
                let tok = call!("pcm_xfer_nb", s.pcm_xfer_nb(0, &[1, 2, 3, 4]));
                let tok2 = call!("pcm_xfer_nb#2", s.pcm_xfer_nb(0, &[5, 6, 7, 8]));
                let mut first_pending = false;
                if let Some(Ok(tok)) = tok {
                    // A refused poll (completion of the other transfer is first in the ring, or
                    // nothing is ready) leaves the transfer outstanding; it is polled again below.
                    first_pending = !matches!(call!("pcm_xfer_ok", s.pcm_xfer_ok(tok)), Some(Ok(())) | Some(Err(virtio_drivers::Error::IoError)));
                }
                if let Some(Ok(tok2)) = tok2 {
                    call!("pcm_xfer_ok#2", s.pcm_xfer_ok(tok2));
                }
                if let (Some(Ok(tok)), true) = (tok, first_pending) {
                    call!("pcm_xfer_ok#1-again", s.pcm_xfer_ok(tok));
                }
                adversary_fill(&co, kind, 1, &[0, 0x11, 0, 0, 1, 0, 0, 0]);
                call!("latest_notification", s.latest_notification());
                call!("jack_remap", s.jack_remap(0, 1, 2));
                call!("drop", drop(s));
            }
            AnyDriver::P9(mut p) => {
                let mut resp = [0u8; 32];
                lend(&resp);
                call!("request", p.request(&[7, 0, 0, 0, 100, 0, 0], &mut resp));
                call!("drop", drop(p));
            }
            other => {
                call!("drop", drop(other));
            }
        }
        for l in &log {
            obs_str(l);
        }
        tlog!("{}: {:?}", kind.name(), log);
        tag("driver-script");
        cosim::uninstall();
    }
}

pub fn run_driver(kind: Kind, tkind: TKind) {
    hal::reset();
    let feats = [F_VERSION_1 | kind.device_specific_supported(), F_VERSION_1 | F_INDIRECT | F_EVENT_IDX | kind.device_specific_supported()];
    let offered = feats[choose(feats.len(), "offered features")];
    let w = DWorld::new(kind, tkind, offered, kind.default_config());
    w.with_transport(VB);
    mmio::set_handler(None);
    take_ledger_faults("teardown");
    let live = hal::with(|h| h.live_dma_count());
    if live != 0 {
        // Leaks after a device misbehaved are not forbidden by the property; only double frees are.
        tag("dma-leak-after-misbehaviour");
    }
}

// ------------------------------------------------------------------------------------------
// Part C: absurd configuration-space values, each case isolated in a forked child.

pub fn config_variants(kind: Kind) -> Vec<(String, Vec<u8>)> {
    let base = kind.default_config();
    let mut v = vec![("all-ones".to_string(), vec![0xFFu8; base.len()]), ("all-zero".to_string(), vec![0u8; base.len()])];
    let mut set32 = |name: &str, off: usize, val: u32, v: &mut Vec<(String, Vec<u8>)>| {
        let mut c = base.clone();
        if c.len() >= off + 4 {
            c[off..off + 4].copy_from_slice(&val.to_le_bytes());
            v.push((name.to_string(), c));
        }
    };
    match kind {
        Kind::Sound => {
            set32("jacks=2^32-1", 0, u32::MAX, &mut v);
            set32("streams=2^32-1", 4, u32::MAX, &mut v);
            set32("streams=2^24", 4, 1 << 24, &mut v);
            set32("chmaps=2^32-1", 8, u32::MAX, &mut v);
            set32("streams=0", 4, 0, &mut v);
        }
        Kind::P9 => {
            let mut c = base.clone();
            c[0..2].copy_from_slice(&0xFFFFu16.to_le_bytes());
            v.push(("tag_len=65535".into(), c));
        }
        Kind::Input => {
            let mut c = base.clone();
            c[2] = 255;
            v.push(("size=255".into(), c));
            let mut c = base.clone();
            c[2] = 128;
            for b in c[8..].iter_mut() {
                *b = 0xC0;
            }
            v.push(("size=128,non-utf8".into(), c));
        }
        Kind::Gpu => set32("num_scanouts=2^32-1", 8, u32::MAX, &mut v),
        Kind::Blk => set32("capacity_high=2^32-1", 4, u32::MAX, &mut v),
        _ => {}
    }
    v
}

/// Runs one configuration case in a child process with an address-space limit and a watchdog.
/// Returns None if the child ended normally, or a description of how it died.
pub fn run_config_case_isolated(kind: Kind, cfg: &[u8]) -> Option<String> {
    // SAFETY: called from the main thread before any worker threads exist.
    unsafe {
        let pid = libc::fork();
        if pid < 0 {
            return Some("fork failed".into());
        }
        if pid == 0 {
            let lim = libc::rlimit { rlim_cur: 3 << 30, rlim_max: 3 << 30 };
            libc::setrlimit(libc::RLIMIT_AS, &lim);
            libc::alarm(20);
            // Default dispositions: the parent classifies the death.
            for sig in [libc::SIGABRT, libc::SIGSEGV, libc::SIGBUS, libc::SIGILL, libc::SIGALRM] {
                libc::signal(sig, libc::SIG_DFL);
            }
            let cfg = cfg.to_vec();
            let f = move || {
                hal::reset();
                let w = DWorld::new(kind, TKind::Model, F_VERSION_1 | kind.device_specific_supported(), cfg.clone());
                w.with_transport(VB);
            };
            let (out, panic) = crate::engine::dfs::run_one(&f, &[], false);
            let code = if panic.is_some() {
                3
            } else if out.violations.is_empty() {
                0
            } else {
                4
            };
            libc::_exit(code);
        }
        let mut status = 0;
        libc::waitpid(pid, &mut status, 0);
        if libc::WIFSIGNALED(status) {
            let sig = libc::WTERMSIG(status);
            let name = match sig {
                libc::SIGABRT => "SIGABRT (abort: allocation failure or double panic)",
                libc::SIGSEGV => "SIGSEGV",
                libc::SIGALRM => "SIGALRM (did not finish within 20 s)",
                libc::SIGKILL => "SIGKILL",
                _ => "signal",
            };
            return Some(format!("the process was killed by {} ({})", name, sig));
        }
        match libc::WEXITSTATUS(status) {
            0 => None,
            3 => Some("harness panic escaped".into()),
            4 => Some("ledger / slice violation".into()),
            c => Some(format!("exit status {}", c)),
        }
    }
}

// ------------------------------------------------------------------------------------------
// Part H: long sessions. "Every call ends" must also hold for call number 65 536 and later, when
// the free-running 16-bit ring indices of the queue have wrapped. A linear run (one execution,
// honest device): the entropy driver's blocking request and the raw queue's blocking helper.

/// Returns (requests made, violations).
pub fn run_long_session(tkind: TKind, requests: u32, features: u64) -> (u64, Vec<(String, String)>) {
    struct VL {
        requests: u32,
    }
    impl TransportVisitor for VL {
        type Out = (u64, Vec<(String, String)>);
        fn visit<T: Transport + 'static>(self, t: T, w: &DWorld) -> Self::Out {
            let co: CoRc = CoDevice::new(
                w.dev.clone(),
                Box::new(move |_q, chain, _readable| {
                    let wl = chain.writable_len();
                    Action::Complete((0..wl).map(|i| 0x40 + i as u8).collect(), wl as u32)
                }),
            );
            co.borrow_mut().spin_horizon = 16;
            cosim::install(&co);
            let mut out = vec![];
            let mut rng = match virtio_drivers::device::rng::VirtIORng::<LabHal, T>::new(t) {
                Ok(r) => r,
                Err(e) => {
                    cosim::uninstall();
                    return (0, vec![("construction".into(), format!("{:?}", e))]);
                }
            };
            let mut n = 0u64;
            for i in 0..self.requests {
                co.borrow_mut().spins = 0;
                if i % 1024 == 0 {
                    hal::with(|h| h.compact());
                    co.borrow_mut().served.clear();
                }
                let mut dst = [0u8; 5];
                let r = crate::util::catch(|| rng.request_entropy(&mut dst));
                n += 1;
                match r {
                    Ok(Ok(5)) if dst == [0x40, 0x41, 0x42, 0x43, 0x44] => {}
                    Ok(other) => {
                        out.push(("long-session-result".into(), format!("request {} of an honest session returned {:?} with data {:x?}", i, other, dst)));
                        break;
                    }
                    Err(p) if p.contains("LAB-LIVELOCK") => {
                        out.push(("livelock".into(), format!("blocking request number {} (counting from 0) of a session with an honest device never returns: {}", i, p)));
                        break;
                    }
                    Err(_) => break,
                }
            }
            // The driver is forgotten rather than dropped if a wait was abandoned half-way.
            if out.is_empty() {
                drop(rng);
            } else {
                std::mem::forget(rng);
            }
            cosim::uninstall();
            (n, out)
        }
    }
    hal::reset();
    let w = DWorld::new(Kind::Rng, tkind, features, vec![]);
    let r = w.with_transport(VL { requests });
    mmio::set_handler(None);
    r
}
