//! Queue-core harness: the real `VirtQueue<LabHal, N>` on the model transport, driven by
//! histories of submissions, device completions (any order) and completion polls, with the
//! oracles of C01 (chain well-formedness), C03 (exactly-once consumption and exact counts),
//! C04 (share/unshare discipline) and the history part of C05 (interrupt suppression).

use crate::dev::{DevRc, ModelTransport, VirtioDev};
use crate::engine::bfs::{BfsModel, BfsStep};
use crate::engine::chooser::{report, tag};
use crate::engine::Violation;
use crate::hal::{self, Dir, HalEvent, LabHal};
use crate::ring::{Chain, QueueAddrs, RefQueue};
use crate::tlog;
use crate::util::H128;
use std::cell::RefCell;
use std::rc::Rc;
use virtio_drivers::queue::VirtQueue;
use virtio_drivers::transport::DeviceType;
use virtio_drivers::Error;

#[derive(Clone, Copy, Debug, PartialEq, Eq)]
pub struct QCfg {
    pub indirect: bool,
    pub event_idx: bool,
    pub ap: bool,
    pub legacy: bool,
    /// Both ring indices start at this value (reached through the warp hook).
    pub start_off: u16,
    /// Include set_dev_notify operations in the alphabet.
    pub notify_ops: bool,
    /// Drop absolute index values from the key (fixpoint mode; differentially validated).
    pub abstract_idx: bool,
    /// Arm the store tracer on the descriptor/driver area for the checked step (C02, C07).
    pub trace: bool,
    /// Use a reduced set of submission shapes (deeper histories at the same cost).
    pub reduced: bool,
    /// Start the exploration from a non-initial state reached by an unchecked prefix:
    /// 1 = the queue was filled with single-buffer requests which were completed and consumed in
    /// submission order (the free list is now in descending order); 2 = the same, completed in
    /// reverse order.
    pub preroll: u8,
    /// Include the blocking helper `add_notify_wait_pop` in the alphabet (the device serves the
    /// request inside the notification or while the driver busy-waits), also while completions of
    /// earlier requests are waiting to be consumed.
    pub wait_pop: bool,
    /// Include submissions during which the heap allocation of the indirect table fails (indirect
    /// queues only): the call may fail in any way it likes, but without side effects, and if it
    /// succeeds the new chain and every outstanding one must be intact.
    pub oom: bool,
    /// Include submissions that break the documented precondition "the buffers must not be
    /// empty" (an empty buffer after the first one). The call may panic (the history ends there);
    /// if it returns an error instead, the refusal must be free of side effects like any other.
    pub bad_args: bool,
    /// Include "the queue object is dropped while the device still has it" (no reset, no
    /// queue_unset: a stand-alone queue, or a transport that cannot unset a queue) as a final
    /// operation: up to the instant the queue memory is handed back, the device-visible
    /// available index must not move.
    pub drop_op: bool,
}

impl QCfg {
    pub fn label<const N: usize>(&self) -> String {
        format!(
            "qcore:N={},indirect={},event_idx={},ap={},legacy={},off={},nops={},abs={},trace={},rs={},pre={},wp={},oom={},bad={},drop={}",
            N, self.indirect as u8, self.event_idx as u8, self.ap as u8, self.legacy as u8, self.start_off, self.notify_ops as u8, self.abstract_idx as u8, self.trace as u8, self.reduced as u8, self.preroll, self.wait_pop as u8, self.oom as u8, self.bad_args as u8, self.drop_op as u8
        )
    }
    pub fn parse(s: &str) -> Option<(usize, QCfg)> {
        let s = s.strip_prefix("qcore:")?;
        let mut n = 0usize;
        let mut c = QCfg { indirect: false, event_idx: false, ap: false, legacy: false, start_off: 0, notify_ops: false, abstract_idx: false, trace: false, reduced: false, preroll: 0, wait_pop: false, oom: false, bad_args: false, drop_op: false };
        for kv in s.split(',') {
            let (k, v) = kv.split_once('=')?;
            let v: u64 = v.parse().ok()?;
            match k {
                "N" => n = v as usize,
                "indirect" => c.indirect = v != 0,
                "event_idx" => c.event_idx = v != 0,
                "ap" => c.ap = v != 0,
                "legacy" => c.legacy = v != 0,
                "off" => c.start_off = v as u16,
                "nops" => c.notify_ops = v != 0,
                "abs" => c.abstract_idx = v != 0,
                "trace" => c.trace = v != 0,
                "rs" => c.reduced = v != 0,
                "pre" => c.preroll = v as u8,
                "wp" => c.wait_pop = v != 0,
                "oom" => c.oom = v != 0,
                "bad" => c.bad_args = v != 0,
                "drop" => c.drop_op = v != 0,
                _ => return None,
            }
        }
        Some((n, c))
    }
}

pub const A_ADD0: u16 = 0;
pub const A_COMPLETE0: u16 = 64;
pub const A_POP_RIGHT: u16 = 200;
pub const A_POP_WRONG_OUT: u16 = 201;
pub const A_POP_WRONG_FREE: u16 = 202;
pub const A_POP_EMPTY: u16 = 203;
/// pop_used with a token that is no descriptor index but equals the right token modulo the queue
/// size (token + N), resp. with the top bit set.
pub const A_POP_WRONG_HIGH: u16 = 204;
pub const A_POP_WRONG_TOP: u16 = 205;
pub const A_DROP: u16 = 230;
pub const A_NOTIFY_OFF: u16 = 210;
pub const A_NOTIFY_ON: u16 = 211;
pub const A_WAIT_POP: u16 = 220;
/// The same with a device that is busy when notified: it looks at the ring only while the driver
/// busy-waits, or after the helper has returned.
pub const A_WAIT_POP_LATE: u16 = 221;
pub const A_ADD_OOM0: u16 = 300;
pub const A_ADD_EMPTY0: u16 = 400;

pub fn shapes_for_cfg(n: usize, reduced: bool) -> Vec<(usize, usize)> {
    if !reduced {
        return shapes_for(n);
    }
    let mut v = vec![(0, 0), (1, 0), (0, 1), (1, 1), (2, 1), (n / 2, n - n / 2), (n, 1)];
    v.sort();
    v.dedup();
    v
}

pub fn shapes_for(n: usize) -> Vec<(usize, usize)> {
    let mut v = vec![(0, 0)];
    let totals: Vec<usize> = if n <= 4 {
        (1..=n).collect()
    } else {
        let mut t = vec![1, 2, 3, n / 2, n - 1, n];
        t.sort();
        t.dedup();
        t
    };
    for t in totals {
        v.push((t, 0));
        v.push((0, t));
        if t >= 2 {
            v.push((t.div_ceil(2), t / 2));
        }
    }
    v.push((n, 1));
    v.sort();
    v.dedup();
    v
}

struct Out {
    token: u16,
    ins: Vec<Box<[u8]>>,
    outs: Vec<Box<[u8]>>,
    /// Available-ring position at which the chain was published.
    pos: u16,
    chain: Chain,
    /// Set once the device completed the chain: (reported length, pattern seed).
    completed: Option<(u32, u8)>,
    /// Descriptors of the main table held by the chain.
    held: usize,
}

#[derive(PartialEq, Eq, Debug)]
struct Snap {
    privs: Option<virtio_drivers::queue::VerifSnapshot>,
    desc: Vec<u8>,
    avail: Vec<u8>,
    used: Vec<u8>,
    hal_log_len: usize,
    live_shares: usize,
    live_dma: usize,
}

pub struct World<const N: usize> {
    pub cfg: QCfg,
    pub dev: DevRc,
    pub transport: ModelTransport,
    pub q: Option<VirtQueue<LabHal, N>>,
    pub refq: RefQueue,
    outs: Vec<Out>,
    /// Completions written by the device and not yet consumed: tokens in used-ring order.
    pub fifo: std::collections::VecDeque<(u16, u32)>,
    /// Chains the device has fetched and not completed, in fetch order (tokens).
    pub inflight: Vec<u16>,
    pops: u16,
    notify_setting: u16,
    /// How many times in a row the interrupt switch was last set to the same value (capped at 3).
    /// Part of the state key: an implementation may (wrongly) count such calls, which no
    /// device-visible or snapshot field would show, so "off, off, on" must not be merged with
    /// "off, on" by the exact-state de-duplication.
    notify_streak: u8,
    last_switch: u16,
    adds: u32,
    /// The history ended (a call broke its precondition and the library panicked or accepted it).
    dead: bool,
    tracer: Option<Box<crate::tracer::Tracer>>,
    /// Accesses of the driver to the traced region during the checked call.
    pub accesses: Vec<crate::tracer::Access>,
    pub read_faults: usize,
}

fn pat(seed: u32, i: usize) -> u8 {
    (seed.wrapping_mul(31).wrapping_add(i as u32 * 7).wrapping_add(3) % 251) as u8
}

fn viol(prop: &'static str, kind: &str, detail: String) {
    report(Violation::new(prop, kind, detail));
}

impl<const N: usize> World<N> {
    pub fn new(cfg: QCfg) -> Result<Self, String> {
        hal::reset();
        hal::with(|h| h.use_tracer_pages = cfg.trace);
        // The device would accept a queue four times as large: the driver's choice of N is what
        // both sides use.
        let mut d = VirtioDev::new(DeviceType::Block, 0, 1, 4 * N as u32, vec![]);
        d.legacy = cfg.legacy;
        let dev: DevRc = Rc::new(RefCell::new(d));
        let mut transport = ModelTransport::new(dev.clone());
        let q = VirtQueue::<LabHal, N>::new(&mut transport, 0, cfg.indirect, cfg.event_idx, cfg.ap).map_err(|e| format!("VirtQueue::new failed: {:?}", e))?;
        let a = dev.borrow().queue_addrs(0).ok_or("queue_set was not called")?;
        let mut w = World {
            cfg,
            dev,
            transport,
            q: Some(q),
            refq: RefQueue::new(a, cfg.indirect),
            outs: vec![],
            fifo: Default::default(),
            inflight: vec![],
            pops: 0,
            notify_setting: 0,
            notify_streak: 0,
            last_switch: 0,
            adds: 0,
            dead: false,
            tracer: None,
            accesses: vec![],
            read_faults: 0,
        };
        if cfg.trace {
            // Trace the pages holding the descriptor table and the available ring (for the legacy
            // layout: the pages below the used ring).
            let (base, alias, pages) = hal::with(|h| {
                let e = h.dma_containing(a.desc, 16 * N).expect("descriptor area is DMA memory");
                (e.vaddr, e.dev_vaddr, e.pages)
            });
            let len = if cfg.legacy { (a.device - a.desc) as usize } else { pages * 4096 };
            w.tracer = Some(crate::tracer::Tracer::new(base, len, alias, 16 * N + 6 + 2 * N));
        }
        if cfg.start_off != 0 {
            w.q.as_mut().unwrap().verif_warp(cfg.start_off);
            w.refq.last_avail = cfg.start_off;
            w.refq.used_idx = cfg.start_off;
            hal::with(|h| h.dev_write(a.device + 2, &cfg.start_off.to_le_bytes())).map_err(|e| e)?;
        }
        hal::with(|h| h.log.clear());
        Ok(w)
    }

    fn q(&mut self) -> &mut VirtQueue<LabHal, N> {
        self.q.as_mut().unwrap()
    }

    /// Calls into the driver, with the store tracer armed if this is the checked step.
    fn traced<R>(&mut self, check: bool, f: impl FnOnce(&mut VirtQueue<LabHal, N>) -> R) -> Result<R, String> {
        self.accesses.clear();
        if check && self.cfg.indirect {
            // C02: the indirect table of an entry that is available and not yet completed is
            // device-visible queue memory; the driver may not hand it back to the heap during
            // any call (the device may read it at any instant until it has used the entry).
            let tables: Vec<(u16, usize, usize)> = hal::with(|h| {
                self.outs
                    .iter()
                    .filter(|o| o.completed.is_none())
                    .filter_map(|o| o.chain.indirect.and_then(|(taddr, _)| h.shares.iter().rev().find(|s| s.live && s.paddr == taddr).map(|s| (o.token, s.vaddr, s.len))))
                    .collect()
            });
            if !tables.is_empty() {
                let r = {
                    crate::alloc_watch::log_frees();
                    let r = self.traced_inner(check, f);
                    let (frees, overflow) = crate::alloc_watch::take_frees();
                    if overflow {
                        viol("C02", "free-log-overflow", "more heap frees in one queue call than the log holds".into());
                    }
                    for (tok, va, len) in &tables {
                        if let Some((fa, fs)) = frees.iter().find(|(fa, fs)| *fa < va + len && *va < fa + fs) {
                            viol("C02", "indirect-table-freed-while-available", format!("the indirect table of entry {} ({:#x}+{}), which is available and not yet completed, was returned to the heap ({:#x}+{}) during this call: the device may still read it", tok, va, len, fa, fs));
                        }
                    }
                    r
                };
                return r;
            }
        }
        self.traced_inner(check, f)
    }

    fn traced_inner<R>(&mut self, check: bool, f: impl FnOnce(&mut VirtQueue<LabHal, N>) -> R) -> Result<R, String> {
        let q = self.q.as_mut().unwrap();
        if check {
            if let Some(mut t) = self.tracer.take() {
                let (r, acc) = t.trace(|| crate::util::catch(|| f(q)));
                if t.overflow {
                    viol("C02", "tracer-overflow", "more accesses than the tracer can log".into());
                }
                self.tracer = Some(t);
                self.read_faults = acc.iter().filter(|a| !a.write).count();
                for a in &acc {
                    tag(if a.write { "tracer:store-observed" } else { "tracer:load-observed" });
                }
                self.accesses = acc;
                return r;
            }
        }
        crate::util::catch(|| f(q))
    }

    fn snap_idx(snap: &[u8]) -> u16 {
        u16::from_le_bytes([snap[16 * N + 2], snap[16 * N + 3]])
    }
    fn snap_ring(snap: &[u8], slot: usize) -> u16 {
        u16::from_le_bytes([snap[16 * N + 4 + 2 * slot], snap[16 * N + 5 + 2 * slot]])
    }

    /// C02 for a submission: at every instant after a store, everything below the available index
    /// visible at that instant is complete, and the index is the last location to change.
    fn check_c02_add(&self, prev_avail: u16, token: u16, chain: Option<&Chain>, succeeded: bool, want: &[(usize, usize, bool)]) {
        if self.tracer.is_none() {
            return;
        }
        let mut published_at: Option<usize> = None;
        for (i, a) in self.accesses.iter().enumerate() {
            let idx = Self::snap_idx(&a.snapshot);
            if idx != prev_avail && idx != prev_avail.wrapping_add(1) {
                viol("C02", "avail-idx-jump", format!("after store #{} the device could read avail.idx = {} (previous {})", i, idx, prev_avail));
            }
            if published_at.is_some() && idx == prev_avail {
                viol("C02", "avail-idx-backwards", format!("avail.idx moved back to {} at store #{}", idx, i));
            }
            if idx == prev_avail.wrapping_add(1) {
                if published_at.is_none() {
                    published_at = Some(i);
                    if !a.write {
                        viol("C02", "index-changed-without-store", "index changed on a read access".into());
                    }
                }
                // Everything the device could reach through the new entry must be complete now.
                let slot = prev_avail as usize & (N - 1);
                let head = Self::snap_ring(&a.snapshot, slot);
                if head != token {
                    viol("C02", "ring-slot-after-index", format!("at store #{} avail.idx already covers slot {} but the slot holds {} (the submission's head is {})", i, slot, head, token));
                }
                match (self.refq.walk_snapshot(&a.snapshot[..16 * N], token), chain) {
                    (Ok(c), Some(fc)) => {
                        // Complete means: it already describes exactly the submitted buffers.
                        let ok = c.elems.len() == want.len()
                            && c.elems.iter().zip(want.iter()).all(|(e, w)| e.len as usize == w.1 && e.write == w.2 && hal::with(|h| h.shares.iter().any(|s| s.paddr == e.addr && s.vaddr == w.0 && s.len == w.1)));
                        if !ok {
                            viol("C02", "entry-incomplete-at-publication", format!("at store #{} avail.idx covers the new entry but the chain the device reaches from it reads {:?}, which is not the {} submitted buffers (a descriptor field was not written)", i, c.elems, want.len()));
                        }
                        if c != *fc {
                            viol("C02", "descriptors-after-index", format!("at store #{} avail.idx already covers the new entry but its chain reads {:?}; complete form is {:?}", i, c, fc));
                        }
                        if let Some((taddr, _)) = c.indirect {
                            let shared_seq = hal::with(|h| h.shares.iter().find(|s| s.paddr == taddr).map(|s| s.seq));
                            match shared_seq {
                                Some(sq) if sq <= a.hal_seq => {}
                                other => viol("C02", "indirect-table-after-index", format!("at store #{} the index covers an entry whose indirect table {:#x} was not yet shared with the device ({:?} vs {})", i, taddr, other, a.hal_seq)),
                            }
                        }
                    }
                    (Err(e), _) => viol("C02", "descriptors-after-index", format!("at store #{} avail.idx already covers the new entry but its chain is not well-formed yet: {}", i, e)),
                    _ => {}
                }
            }
            // The new entry is not in `outs` yet: every chain there was published earlier and must
            // stay as it was, also when the new submission (wrongly) reuses its head.
            self.check_inflight_in_snapshot(&a.snapshot, i, None);
        }
        if let Some(p) = published_at {
            if let Some(later) = self.accesses.iter().enumerate().skip(p + 1).find(|(_, a)| a.write) {
                viol("C02", "store-after-index", format!("store #{} at offset {:#x} of the queue memory follows the store that published avail.idx (#{}); the index must be the last device-visible location to change", later.0, later.1.off, p));
            }
        } else if succeeded {
            viol("C02", "index-never-published", "the submission succeeded but no store made the new index visible".into());
        }
    }

    /// C02 for operations that do not submit: the index never moves and chains that are available
    /// but not yet completed stay intact at every instant.
    fn check_c02_other(&self, what: &str) {
        if self.tracer.is_none() {
            return;
        }
        let want = self.cfg.start_off.wrapping_add(self.adds as u16);
        for (i, a) in self.accesses.iter().enumerate() {
            let idx = Self::snap_idx(&a.snapshot);
            if idx != want {
                viol("C02", "avail-idx-moved", format!("{}: after store #{} the device could read avail.idx = {} (must stay {})", what, i, idx, want));
            }
            self.check_inflight_in_snapshot(&a.snapshot, i, None);
        }
    }

    fn check_inflight_in_snapshot(&self, snap: &[u8], i: usize, except: Option<u16>) {
        // Ring slots: an entry that is available and not completed may not have been fetched yet
        // by a device that looks late, so its ring slot must keep naming its head for as long as
        // the slot has not legitimately been taken by an entry N positions later. `published` is
        // the number of entries made available before this call.
        let published = self.cfg.start_off.wrapping_add(self.adds as u16);
        let visible = Self::snap_idx(snap);
        for o in &self.outs {
            if o.completed.is_some() || o.chain.descs.is_empty() {
                continue;
            }
            let age = published.wrapping_sub(o.pos) as usize;
            // During a submission that has become visible, the slot of the entry exactly N
            // positions back is the one being reused.
            let reused = age == N && visible != published;
            if age >= 1 && age <= N && !reused {
                let slot = o.pos as usize & (N - 1);
                let head = Self::snap_ring(snap, slot);
                if head != o.token {
                    viol("C02", "ring-slot-disturbed", format!("at store #{} ring slot {} of the available, not yet completed entry {} (published at index {}) reads {}; a device that has not fetched it yet would take the wrong chain", i, slot, o.token, o.pos, head));
                }
            }
        }
        for o in &self.outs {
            if o.completed.is_some() || o.chain.descs.is_empty() || Some(o.token) == except {
                continue;
            }
            match self.refq.walk_snapshot(&snap[..16 * N], o.token) {
                Ok(c) if c == o.chain => {}
                other => viol("C02", "available-chain-disturbed", format!("at store #{} the available, not yet completed chain {} reads {:?}; it was published as {:?}", i, o.token, other, o.chain)),
            }
        }
    }

    fn held(&self) -> usize {
        self.outs.iter().map(|o| o.held).sum()
    }

    fn snap(&self) -> Snap {
        let a = self.refq.a;
        hal::with(|h| Snap {
            privs: self.q.as_ref().map(|q| q.verif_snapshot()),
            desc: h.peek(a.desc, 16 * N).unwrap_or_default(),
            avail: h.peek(a.driver, 6 + 2 * N).unwrap_or_default(),
            used: h.peek(a.device, 6 + 8 * N).unwrap_or_default(),
            hal_log_len: h.log.len(),
            live_shares: h.live_share_count(),
            live_dma: h.live_dma_count(),
        })
    }

    /// Owner of each main-table descriptor among outstanding chains.
    fn owner_map(&self) -> Vec<Option<u16>> {
        let mut m = vec![None; N];
        for o in &self.outs {
            for &d in &o.chain.descs {
                if (d as usize) < N {
                    m[d as usize] = Some(o.token);
                }
            }
        }
        m
    }

    fn take_hal_faults(&self) {
        let faults = hal::with(|h| std::mem::take(&mut h.faults));
        for (k, d) in faults {
            let prop = if k.starts_with("dma") { "C06" } else { "C04" };
            viol(prop, &k, d);
        }
    }

    pub fn enabled(&self) -> Vec<u16> {
        let mut v = vec![];
        for (i, _) in shapes_for_cfg(N, self.cfg.reduced).iter().enumerate() {
            v.push(A_ADD0 + i as u16);
        }
        for j in 0..self.inflight.len() {
            v.push(A_COMPLETE0 + j as u16);
        }
        if self.fifo.is_empty() {
            v.push(A_POP_EMPTY);
        } else {
            v.push(A_POP_RIGHT);
            if self.wrong_outstanding_token().is_some() {
                v.push(A_POP_WRONG_OUT);
            }
            if self.wrong_free_token().is_some() {
                v.push(A_POP_WRONG_FREE);
            }
            v.push(A_POP_WRONG_HIGH);
            v.push(A_POP_WRONG_TOP);
        }
        if self.cfg.drop_op {
            v.push(A_DROP);
        }
        if self.cfg.notify_ops {
            v.push(A_NOTIFY_OFF);
            v.push(A_NOTIFY_ON);
        }
        if self.cfg.wait_pop {
            v.push(A_WAIT_POP);
            v.push(A_WAIT_POP_LATE);
        }
        if self.dead {
            return vec![];
        }
        if self.cfg.bad_args {
            for (i, (ni, no)) in shapes_for_cfg(N, self.cfg.reduced).iter().enumerate() {
                if ni + no >= 2 {
                    v.push(A_ADD_EMPTY0 + i as u16);
                }
            }
        }
        if self.cfg.oom && self.cfg.indirect {
            for (i, (ni, no)) in shapes_for_cfg(N, self.cfg.reduced).iter().enumerate() {
                if ni + no > 0 {
                    v.push(A_ADD_OOM0 + i as u16);
                }
            }
        }
        v
    }

    fn wrong_outstanding_token(&self) -> Option<u16> {
        let front = self.fifo.front()?.0;
        self.outs.iter().map(|o| o.token).filter(|t| *t != front).min()
    }

    fn wrong_free_token(&self) -> Option<u16> {
        let front = self.fifo.front().map(|f| f.0);
        let m = self.owner_map();
        (0..N as u16).find(|i| m[*i as usize].is_none() && Some(*i) != front)
    }

    pub fn describe(a: u16) -> String {
        Self::describe_with(a, false)
    }

    pub fn describe_with(a: u16, reduced: bool) -> String {
        match a {
            x if x < A_COMPLETE0 => {
                let s = shapes_for_cfg(N, reduced);
                match s.get(x as usize) {
                    Some((i, o)) => format!("add({} readable, {} writable)", i, o),
                    None => format!("add(shape {}?)", x),
                }
            }
            x if x < A_POP_RIGHT => format!("device completes in-flight chain #{}", x - A_COMPLETE0),
            A_POP_RIGHT => "pop_used(next used token)".into(),
            A_POP_WRONG_OUT => "pop_used(token of another outstanding chain)".into(),
            A_POP_WRONG_FREE => "pop_used(index of a free descriptor)".into(),
            A_POP_WRONG_HIGH => "pop_used(next used token + queue size)".into(),
            A_POP_WRONG_TOP => "pop_used(next used token | 0x8000)".into(),
            A_DROP => "the queue is dropped while the device still has it".into(),
            A_POP_EMPTY => "pop_used(with nothing completed)".into(),
            A_NOTIFY_OFF => "set_dev_notify(false)".into(),
            A_NOTIFY_ON => "set_dev_notify(true)".into(),
            A_WAIT_POP => "add_notify_wait_pop(1 readable, 1 writable), device serves it when notified".into(),
            A_WAIT_POP_LATE => "add_notify_wait_pop(1 readable, 1 writable), device busy when notified: serves while the driver waits or after the call".into(),
            x if x >= A_ADD_EMPTY0 && x < A_ADD_EMPTY0 + 64 => {
                let s = shapes_for_cfg(N, reduced);
                match s.get((x - A_ADD_EMPTY0) as usize) {
                    Some((i, o)) => format!("add({} readable, {} writable) whose second buffer is empty (precondition broken)", i, o),
                    None => format!("add(shape {}?) with an empty buffer", x - A_ADD_EMPTY0),
                }
            }
            x if x >= A_ADD_OOM0 && x < A_ADD_OOM0 + 64 => {
                let s = shapes_for_cfg(N, reduced);
                match s.get((x - A_ADD_OOM0) as usize) {
                    Some((i, o)) => format!("add({} readable, {} writable) while the heap allocation of the indirect table fails", i, o),
                    None => format!("add(shape {}?) with failing allocation", x - A_ADD_OOM0),
                }
            }
            x => format!("action {}", x),
        }
    }

    /// Applies one action; `check` enables the oracles (the last step of a history).
    pub fn step(&mut self, a: u16, check: bool) {
        tlog!("step: {}", Self::describe_with(a, self.cfg.reduced));
        match a {
            x if x < A_COMPLETE0 => self.do_add(x as usize, check, false),
            x if x >= A_ADD_OOM0 && x < A_ADD_OOM0 + 64 => self.do_add((x - A_ADD_OOM0) as usize, check, true),
            x if x >= A_ADD_EMPTY0 && x < A_ADD_EMPTY0 + 64 => self.do_add_empty((x - A_ADD_EMPTY0) as usize, check),
            x if x < A_POP_RIGHT => self.do_complete((x - A_COMPLETE0) as usize, check),
            A_POP_RIGHT => self.do_pop_right(check),
            A_POP_WRONG_OUT => {
                let t = self.wrong_outstanding_token().unwrap_or(0);
                self.do_pop_fail(t, Error::WrongToken, check)
            }
            A_POP_WRONG_FREE => {
                let t = self.wrong_free_token().unwrap_or(0);
                self.do_pop_fail(t, Error::WrongToken, check)
            }
            A_POP_WRONG_HIGH => {
                let t = self.fifo.front().map(|f| f.0).unwrap_or(0).wrapping_add(N as u16);
                self.do_pop_fail(t, Error::WrongToken, check)
            }
            A_POP_WRONG_TOP => {
                let t = self.fifo.front().map(|f| f.0).unwrap_or(0) | 0x8000;
                self.do_pop_fail(t, Error::WrongToken, check)
            }
            A_DROP => self.do_drop(check),
            A_POP_EMPTY => {
                let t = self.outs.first().map(|o| o.token).unwrap_or(0);
                self.do_pop_fail(t, Error::NotReady, check)
            }
            A_WAIT_POP => self.do_wait_pop(check, false),
            A_WAIT_POP_LATE => self.do_wait_pop(check, true),
            A_NOTIFY_OFF | A_NOTIFY_ON => {
                let en = a == A_NOTIFY_ON;
                let _ = self.traced(check, |q| q.set_dev_notify(en));
                if check {
                    self.check_c02_other("set_dev_notify");
                }
                let new_setting = if en { 0 } else { 1 };
                if self.notify_streak > 0 && new_setting == self.last_switch {
                    self.notify_streak = (self.notify_streak + 1).min(3);
                } else {
                    self.notify_streak = 1;
                }
                self.last_switch = new_setting;
                if !self.cfg.event_idx {
                    self.notify_setting = new_setting;
                }
            }
            _ => {}
        }
        if check {
            self.check_queries();
            self.check_outstanding_unchanged();
            self.take_hal_faults();
        } else {
            hal::with(|h| h.faults.clear());
        }
        // Keep the ledger small.
        hal::with(|h| h.compact());
    }

    /// A submission whose second buffer is empty. Outcomes: panic (history ends), an error (must
    /// be free of side effects), or acceptance (then the history ends too: what a zero-length
    /// descriptor means to the device is outside this harness).
    fn do_add_empty(&mut self, shape: usize, check: bool) {
        let shapes = shapes_for_cfg(N, self.cfg.reduced);
        let (ni, no) = shapes[shape];
        let pos = self.cfg.start_off.wrapping_add(self.adds as u16);
        let seed = pos as u32;
        let mut k = 0usize;
        let mut mk = |len: usize| -> Box<[u8]> {
            let l = if k == 1 { 0 } else { len };
            k += 1;
            vec![0x33u8; l].into_boxed_slice()
        };
        let ins: Vec<Box<[u8]>> = (0..ni).map(|i| mk(1 + (i + seed as usize) % 5)).collect();
        let mut outs: Vec<Box<[u8]>> = (0..no).map(|i| mk(1 + (i * 2 + seed as usize) % 6)).collect();
        let before = self.snap();
        let res = {
            let in_refs: Vec<&[u8]> = ins.iter().map(|b| unsafe { std::slice::from_raw_parts(b.as_ptr(), b.len()) }).collect();
            let mut out_refs: Vec<&mut [u8]> = outs.iter_mut().map(|b| unsafe { std::slice::from_raw_parts_mut(b.as_mut_ptr(), b.len()) }).collect();
            self.traced(false, |q| unsafe { q.add(&in_refs, &mut out_refs) })
        };
        match res {
            Err(_) => {
                tag("add-empty:panicked");
                self.dead = true;
            }
            Ok(Ok(_)) => {
                tag("add-empty:accepted");
                self.dead = true;
            }
            Ok(Err(e)) => {
                tag("add-empty:refused");
                if check {
                    let after = self.snap();
                    if after != before {
                        if after.hal_log_len != before.hal_log_len {
                            viol("C04", "refused-add-shared", format!("add({},{}) with an empty buffer was refused ({:?}) but made platform share/unshare calls", ni, no, e));
                        }
                        viol("C03", "refused-add-side-effect", format!("add({},{}) with an empty buffer was refused ({:?}) but changed queue state or device-visible memory", ni, no, e));
                        viol("C01", "refused-add-side-effect", format!("add({},{}) with an empty buffer was refused ({:?}) but left the free list / descriptor table changed: later chains will share descriptors with outstanding ones", ni, no, e));
                    }
                }
            }
        }
    }

    fn do_add(&mut self, shape: usize, check: bool, oom: bool) {
        let shapes = shapes_for_cfg(N, self.cfg.reduced);
        let (ni, no) = shapes[shape];
        let n = ni + no;
        let held = self.held();
        let expect: Result<(), Error> = if n == 0 {
            Err(Error::InvalidParam)
        } else if self.cfg.indirect {
            if held + 1 > N || n > N { Err(Error::QueueFull) } else { Ok(()) }
        } else if held + n > N {
            Err(Error::QueueFull)
        } else {
            Ok(())
        };
        let pos = self.cfg.start_off.wrapping_add(self.adds as u16);
        let seed = pos as u32;
        let mut ins: Vec<Box<[u8]>> = (0..ni).map(|i| (0..(1 + (i + pos as usize) % 5)).map(|k| pat(seed + i as u32 * 101, k)).collect::<Vec<u8>>().into_boxed_slice()).collect();
        let mut outs: Vec<Box<[u8]>> = (0..no).map(|i| vec![0x5Au8; 1 + (i * 2 + pos as usize) % 6].into_boxed_slice()).collect();
        let before = if check { Some(self.snap()) } else { None };
        let log_before = hal::with(|h| h.log.len());
        let prev_avail = self.refq.last_avail;
        let res = {
            let in_refs: Vec<&[u8]> = ins.iter().map(|b| unsafe { std::slice::from_raw_parts(b.as_ptr(), b.len()) }).collect();
            let mut out_refs: Vec<&mut [u8]> = outs.iter_mut().map(|b| unsafe { std::slice::from_raw_parts_mut(b.as_mut_ptr(), b.len()) }).collect();
            if oom {
                // One descriptor of 16 bytes per buffer, 16-byte aligned: the indirect table.
                crate::alloc_watch::fail_next(16 * n, 16);
            }
            self.traced(check, |q| unsafe { q.add(&in_refs, &mut out_refs) })
        };
        let alloc_failed = oom && !crate::alloc_watch::take_fail_next();
        if alloc_failed && !matches!(res, Ok(Ok(_))) {
            // The submission failed (error or panic) because memory ran out: nothing may have
            // changed, nothing may have been shared.
            tag("add:allocation-failed");
            tlog!("  indirect table allocation failed -> {:?}", res);
            if check {
                self.check_c02_other("add that ran out of memory");
                let after = self.snap();
                if Some(&after) != before.as_ref() {
                    if after.hal_log_len != before.as_ref().unwrap().hal_log_len {
                        viol("C04", "refused-add-shared", format!("add({},{}) failed for lack of heap memory but made platform share/unshare calls", ni, no));
                    }
                    viol("C03", "refused-add-side-effect", format!("add({},{}) failed for lack of heap memory but changed queue state or device-visible memory", ni, no));
                }
            }
            return;
        }
        if alloc_failed {
            tag("add:allocation-failed-but-accepted");
        }
        let res = match res {
            Ok(r) => r,
            Err(p) => {
                viol("C03", "add-panicked", format!("add({},{}) panicked: {}", ni, no, p));
                return;
            }
        };
        match (expect, res) {
            (Err(e), Err(got)) => {
                tag(if e == Error::QueueFull { "add:QueueFull" } else { "add:InvalidParam" });
                if check {
                    self.check_c02_other("refused add");
                }
                tlog!("  refused with {:?}", got);
                if check {
                    if got != e {
                        viol("C03", "add-wrong-error", format!("add({},{}) with {} descriptors held returned {:?}, expected {:?}", ni, no, held, got, e));
                    }
                    let after = self.snap();
                    if Some(&after) != before.as_ref() {
                        let hal_calls = after.hal_log_len != before.as_ref().unwrap().hal_log_len;
                        if hal_calls {
                            viol("C04", "refused-add-shared", format!("refused add({},{}) made platform share/unshare calls", ni, no));
                        }
                        viol("C03", "refused-add-side-effect", format!("refused add({},{}) changed queue state or device-visible memory", ni, no));
                    }
                }
            }
            (Err(e), Ok(t)) => {
                if hal::with(|h| h.log.len()) != log_before {
                    viol("C04", "refused-add-shared", format!("add({},{}) with {} of {} descriptors held must be refused ({:?}) but buffers were shared with the device", ni, no, held, N, e));
                }
                viol("C03", "add-not-refused", format!("add({},{}) with {} of {} descriptors held returned Ok({}) but must be refused with {:?}", ni, no, held, N, t, e));
                // The entry is in the ring all the same: the device will fetch it, and it must
                // stay intact until then like any other (C02 keeps judging it).
                self.adds += 1;
                // (and it is judged like any other chain the device reaches: C01)
                let chain = self.oracle_add(t, prev_avail, &ins, &outs, log_before, check);
                let heldn = chain.as_ref().map(|c| c.descs.len()).unwrap_or(if self.cfg.indirect { 1 } else { n });
                let chain = chain.unwrap_or(Chain { head: t, descs: vec![], elems: vec![], indirect: None });
                self.outs.push(Out { token: t, ins: std::mem::take(&mut ins), outs: std::mem::take(&mut outs), pos, chain, completed: None, held: heldn });
                self.inflight.push(t);
            }
            (Ok(()), Err(got)) => {
                viol("C03", "add-spuriously-refused", format!("add({},{}) with {} of {} descriptors held was refused with {:?}", ni, no, held, N, got));
            }
            (Ok(()), Ok(token)) => {
                tag("add:ok");
                tlog!("  -> token {}", token);
                self.adds += 1;
                // The device now looks at the ring (always; the state must be tracked).
                let chain = self.oracle_add(token, prev_avail, &ins, &outs, log_before, check);
                if check {
                    let want: Vec<(usize, usize, bool)> = ins.iter().map(|b| (b.as_ptr() as usize, b.len(), false)).chain(outs.iter().map(|b| (b.as_ptr() as usize, b.len(), true))).collect();
                    self.check_c02_add(prev_avail, token, chain.as_ref(), true, &want);
                }
                let heldn = match &chain {
                    Some(c) => c.descs.len(),
                    None => if self.cfg.indirect { 1 } else { n },
                };
                // C03: whatever form the driver chose for the chain, it cannot have had the
                // descriptors for it if it placed the buffers in the ring itself and fewer
                // descriptors were free than the request has buffers.
                if check && chain.as_ref().map(|c| c.indirect.is_none()).unwrap_or(!self.cfg.indirect) && held + n > N {
                    viol("C03", "add-not-refused", format!("add({},{}) was accepted and placed directly in the ring with {} of {} descriptors held: {} descriptors were free for {} buffers", ni, no, held, N, N - held.min(N), n));
                }
                let chain = chain.unwrap_or(Chain { head: token, descs: vec![], elems: vec![], indirect: None });
                self.outs.push(Out { token, ins: std::mem::take(&mut ins), outs: std::mem::take(&mut outs), pos, chain, completed: None, held: heldn });
                self.inflight.push(token);
            }
        }
    }

    /// The blocking helper: submit one readable and one writable buffer, notify, wait, consume.
    /// The device fetches and completes the new chain when notified (or when it polls while the
    /// driver busy-waits). The helper's documented precondition is that nothing else is being
    /// processed; it is also exercised while completions of earlier requests are waiting, where
    /// its result is not judged - but whatever it returns, the chain it published belongs to the
    /// device until its completion has been consumed, so its descriptors must not be handed out
    /// again (checked by the submission oracles of the following steps and by the free-list
    /// integrity check).
    fn do_wait_pop(&mut self, check: bool, late: bool) {
        use std::cell::RefCell;
        use std::rc::Rc;
        let held = self.held();
        let must_refuse = if self.cfg.indirect { held + 1 > N } else { held + 2 > N };
        let pos = self.cfg.start_off.wrapping_add(self.adds as u16);
        let seed = pos as u32;
        let ins: Vec<Box<[u8]>> = vec![(0..(1 + pos as usize % 5)).map(|k| pat(seed, k)).collect::<Vec<u8>>().into_boxed_slice()];
        let mut outs: Vec<Box<[u8]>> = vec![vec![0x5Au8; 1 + (pos as usize) % 6].into_boxed_slice()];
        let others_pending = !self.fifo.is_empty() || !self.inflight.is_empty();
        let owners = self.owner_map();
        let want: Vec<(usize, usize, bool)> = vec![(ins[0].as_ptr() as usize, ins[0].len(), false), (outs[0].as_ptr() as usize, outs[0].len(), true)];
        // (chain, recorded length, pattern seed, elements matched the caller's buffers)
        let served: Rc<RefCell<Vec<(Chain, u32, u8, bool)>>> = Rc::new(RefCell::new(vec![]));
        let rq: Rc<RefCell<RefQueue>> = Rc::new(RefCell::new(self.refq.clone()));
        let serve = {
            let served = served.clone();
            let rq = rq.clone();
            let want = want.clone();
            move || {
                let mut rq = rq.borrow_mut();
                while let Ok(Some(chain)) = rq.fetch() {
                    let old = rq.used_idx;
                    let len = (chain.head as u32) * 7 + (old as u32) * 13 + 1;
                    let pseed = (old as u8).wrapping_mul(17).wrapping_add(chain.head as u8);
                    let mut widx = 0u32;
                    for e in chain.elems.iter().filter(|e| e.write) {
                        let data: Vec<u8> = (0..e.len as usize).map(|k| pat(pseed as u32 + widx * 977, k)).collect();
                        let _ = hal::with(|h| h.dev_write(e.addr, &data));
                        widx += 1;
                    }
                    let ok = chain.elems.len() == want.len() && chain.elems.iter().zip(want.iter()).all(|(e, w)| e.len as usize == w.1 && e.write == w.2 && hal::with(|h| h.shares.iter().any(|s| s.live && s.paddr == e.addr && s.vaddr == w.0 && s.len == w.1)));
                    let _ = rq.push_used(chain.head as u32, len);
                    served.borrow_mut().push((chain, len, pseed, ok));
                }
            }
        };
        let serve_later = serve.clone();
        {
            let mut s1 = serve.clone();
            crate::dev::set_notify_handler(Some(Box::new(move |_q| {
                if !late {
                    s1()
                }
            })));
            let mut s2 = serve;
            let spins = Rc::new(RefCell::new(0u32));
            crate::mmio::set_spin_handler(Some(Box::new(move |_site| {
                *spins.borrow_mut() += 1;
                s2();
                if *spins.borrow() > 6 {
                    panic!("LAB-LIVELOCK: add_notify_wait_pop keeps waiting although the device has completed the request");
                }
            })));
        }
        let res = {
            let (ip, il, op, ol) = (ins[0].as_ptr(), ins[0].len(), outs[0].as_mut_ptr(), outs[0].len());
            let q = self.q.as_mut().unwrap();
            let t = &mut self.transport;
            crate::util::catch(std::panic::AssertUnwindSafe(|| {
                // SAFETY: the buffers are owned by this function (or the outstanding table) for
                // as long as the device may use them.
                let in_refs: [&[u8]; 1] = [unsafe { std::slice::from_raw_parts(ip, il) }];
                let mut out_refs: [&mut [u8]; 1] = [unsafe { std::slice::from_raw_parts_mut(op, ol) }];
                q.add_notify_wait_pop(&in_refs, &mut out_refs, t)
            }))
        };
        crate::dev::set_notify_handler(None);
        crate::mmio::set_spin_handler(None);
        // The available index only ever moves forwards: whatever the helper returned, the index
        // the device reads now may not lie before what it read earlier (or before the call).
        let idx_before_call = self.cfg.start_off.wrapping_add(self.adds as u16);
        if let Ok(idx_now) = self.refq.avail_idx() {
            let seen = rq.borrow().last_avail;
            let floor = if (seen.wrapping_sub(idx_before_call) as i16) > 0 { seen } else { idx_before_call };
            if (idx_now.wrapping_sub(floor) as i16) < 0 {
                if check {
                    viol("C02", "avail-idx-moved-backwards", format!("after add_notify_wait_pop (returned {:?}) the device reads avail.idx = {}, it was {} before", res, idx_now, floor));
                    viol("C01", "avail-idx-step", format!("add_notify_wait_pop moved the available index from {} back to {}", floor, idx_now));
                }
                self.dead = true;
                return;
            }
        }
        // If the helper returned without the device having looked (an earlier completion was
        // already waiting, so it never waited), the device finds the new entry now.
        serve_later();
        {
            let r = rq.borrow();
            self.refq.last_avail = r.last_avail;
            self.refq.used_idx = r.used_idx;
        }
        tag("wait_pop");
        tlog!("  add_notify_wait_pop -> {:?} (device served {} chains)", res, served.borrow().len());
        let served = std::mem::take(&mut *served.borrow_mut());
        if served.len() > 1 {
            viol("C01", "avail-idx-step", format!("one add_notify_wait_pop made {} entries available", served.len()));
        }
        let res = match res {
            Ok(r) => r,
            Err(p) => {
                if check {
                    viol("C03", "wait-pop-panicked", format!("add_notify_wait_pop panicked: {}", p));
                }
                Err(Error::IoError)
            }
        };
        match served.into_iter().next() {
            None => {
                if check && !must_refuse {
                    viol("C03", "add-spuriously-refused", format!("add_notify_wait_pop with {} of {} descriptors held -> {:?} and nothing reached the device", held, N, res));
                }
                if check && res.is_ok() {
                    viol("C03", "wait-pop-result", "add_notify_wait_pop returned Ok although nothing reached the device".into());
                }
            }
            Some((chain, len, pseed, elems_ok)) => {
                self.adds += 1;
                let token = chain.head;
                if check {
                    if must_refuse {
                        viol("C03", "add-not-refused", format!("add_notify_wait_pop with {} of {} descriptors held must be refused but a chain reached the device", held, N));
                    }
                    if !elems_ok {
                        viol("C01", "element-mismatch", format!("the chain published by add_notify_wait_pop reads {:?}, not the caller's two buffers", chain.elems));
                        viol("C02", "available-chain-disturbed", format!("when the device looked at the entry published by add_notify_wait_pop (returned {:?}) its chain read {:?}, not the caller's two buffers: an entry below the available index must stay completely written until the device has used it", res, chain.elems));
                        viol("C04", "unshared-before-completion", format!("when the device looked at the entry published by add_notify_wait_pop (returned {:?}) the caller's buffers were no longer shared under the addresses in its chain {:?}: buffers are unshared when their completion is consumed, not before", res, chain.elems));
                    }
                    for &d in &chain.descs {
                        if let Some(o) = owners[d as usize] {
                            viol("C01", "descriptor-shared", format!("descriptor {} of the chain published by add_notify_wait_pop already belongs to outstanding chain {}", d, o));
                        }
                    }
                }
                match res {
                    Ok(got) => {
                        self.pops = self.pops.wrapping_add(1);
                        if check {
                            if got != len {
                                viol("C03", "pop-length", format!("add_notify_wait_pop returned {} but the device recorded {}", got, len));
                            }
                            let data: Vec<u8> = (0..outs[0].len()).map(|k| pat(pseed as u32, k)).collect();
                            if *outs[0] != data[..] {
                                viol("C04", "writeback-data", "the writable buffer of add_notify_wait_pop does not hold what the device wrote".into());
                            }
                            if others_pending && !self.fifo.is_empty() {
                                // Consumed out of used-ring order: only possible if the helper looked past the front.
                                viol("C03", "wait-pop-result", "add_notify_wait_pop consumed its completion although an earlier completion is first in the used ring".into());
                            }
                        }
                    }
                    Err(e) => {
                        if check && !others_pending {
                            viol("C03", "wait-pop-result", format!("add_notify_wait_pop with nothing else in flight -> {:?} although the device completed the request", e));
                        }
                        // The chain stays with the device side of the bookkeeping: published,
                        // completed, not consumed.
                        tag("wait_pop:left-outstanding");
                        let heldn = chain.descs.len();
                        self.outs.push(Out { token, ins, outs, pos, chain, completed: Some((len, pseed)), held: heldn });
                        self.fifo.push_back((token, len));
                        return;
                    }
                }
            }
        }
    }

    /// C01 + C04 oracle for a successful submission. Returns the chain as seen by the device.
    fn oracle_add(&mut self, token: u16, prev_avail: u16, ins: &[Box<[u8]>], outs: &[Box<[u8]>], log_before: usize, check: bool) -> Option<Chain> {
        let idx = match self.refq.avail_idx() {
            Ok(i) => i,
            Err(e) => {
                viol("C06", "avail-unreadable", e);
                return None;
            }
        };
        if check && idx != prev_avail.wrapping_add(1) {
            viol("C01", "avail-idx-step", format!("available index moved from {} to {} for one submission", prev_avail, idx));
        }
        let slot = prev_avail as usize & (N - 1);
        let head = self.refq.avail_ring(slot).unwrap_or(0xffff);
        if check && head != token {
            viol("C01", "ring-slot", format!("ring slot {} (designated by previous index {}) holds {} but add returned token {}", slot, prev_avail, head, token));
        }
        self.refq.last_avail = prev_avail.wrapping_add(1);
        let chain = match self.refq.walk(token) {
            Ok(c) => c,
            Err(e) => {
                if check {
                    viol("C01", "chain-malformed", format!("chain from head {}: {}", token, e));
                }
                return None;
            }
        };
        if !check {
            return Some(chain);
        }
        // Disjointness from every outstanding chain.
        let owners = self.owner_map();
        for &d in &chain.descs {
            if let Some(o) = owners[d as usize] {
                viol("C01", "descriptor-shared", format!("descriptor {} of new chain {} already belongs to outstanding chain {}", d, token, o));
            }
        }
        if chain.indirect.is_some() && !self.cfg.indirect {
            viol("C01", "indirect-not-enabled", format!("chain {} uses an indirect table but indirect descriptors are not enabled", token));
        }
        // Elements must be exactly the caller's buffers, in order.
        let want: Vec<(usize, usize, bool)> = ins.iter().map(|b| (b.as_ptr() as usize, b.len(), false)).chain(outs.iter().map(|b| (b.as_ptr() as usize, b.len(), true))).collect();
        if chain.elems.len() > N {
            // "A driver MUST NOT create a descriptor chain longer than the Queue Size of the
            // device" - through an indirect table as little as directly.
            viol("C01", "chain-longer-than-queue", format!("chain {} has {} elements on a queue of {} entries", token, chain.elems.len(), N));
        }
        if chain.elems.len() != want.len() {
            viol("C01", "chain-length", format!("chain {} has {} elements for {} caller buffers", token, chain.elems.len(), want.len()));
        }
        for (k, (e, w)) in chain.elems.iter().zip(want.iter()).enumerate() {
            let ok = hal::with(|h| match h.find_share(e.addr) {
                None => Err(format!("element {} address {:#x} is not the result of any live share", k, e.addr)),
                Some(s) => {
                    if s.vaddr != w.0 || s.len != w.1 {
                        Err(format!("element {} address {:#x} is the share of buffer {:#x}+{} but the caller's buffer {} is {:#x}+{}", k, e.addr, s.vaddr, s.len, k, w.0, w.1))
                    } else if e.len as usize != w.1 {
                        Err(format!("element {} has length {} but the caller's buffer has {}", k, e.len, w.1))
                    } else if e.write != w.2 {
                        Err(format!("element {} is device-{} but the caller supplied it as {}", k, if e.write { "writable" } else { "readable" }, if w.2 { "an output" } else { "an input" }))
                    } else if (s.dir == Dir::FromDevice) != w.2 {
                        Err(format!("element {} shared with direction {:?} but role is {}", k, s.dir, if w.2 { "output" } else { "input" }))
                    } else if s.ap != self.cfg.ap {
                        Err(format!("element {} address {:#x} was handed out for access_platform={} while the queue runs with access_platform={}", k, e.addr, s.ap, self.cfg.ap))
                    } else {
                        Ok(())
                    }
                }
            });
            if let Err(d) = ok {
                viol("C01", "element-mismatch", format!("chain {}: {}", token, d));
            }
        }
        // C04: platform calls made by this submission.
        let evs: Vec<HalEvent> = hal::with(|h| h.log[log_before.min(h.log.len())..].to_vec());
        let mut expected: Vec<HalEvent> = vec![];
        for (k, w) in want.iter().enumerate() {
            let paddr = chain.elems.get(k).map(|e| e.addr).unwrap_or(0);
            expected.push(HalEvent::Share { paddr, vaddr: w.0, len: w.1, dir: if w.2 { Dir::FromDevice } else { Dir::ToDevice }, ap: self.cfg.ap });
        }
        if let Some((taddr, tlen)) = chain.indirect {
            let ts = hal::with(|h| h.find_share(taddr).map(|s| (s.vaddr, s.len, s.dir, s.ap)));
            match ts {
                Some((v, l, d, ap)) => {
                    if l != tlen as usize || d != Dir::ToDevice {
                        viol("C04", "table-share", format!("indirect table of chain {} shared as len {} dir {:?}, descriptor says len {}", token, l, d, tlen));
                    }
                    expected.push(HalEvent::Share { paddr: taddr, vaddr: v, len: l, dir: Dir::ToDevice, ap });
                    if ap != self.cfg.ap {
                        viol("C04", "table-share-ap", format!("indirect table shared with access_platform={}", ap));
                        // C01: what the head descriptor holds is the table's address in the
                        // other address space (bus address vs. address behind the platform's
                        // translation), not the address at which the device finds the table.
                        viol("C01", "table-address-space", format!("the head descriptor of chain {} points at {:#x}, which the platform handed out for access_platform={} while the queue runs with access_platform={}: not the device address of the table", token, taddr, ap, self.cfg.ap));
                    }
                }
                None => viol("C01", "table-not-shared", format!("indirect table address {:#x} of chain {} is not a live share", taddr, token)),
            }
        }
        let mut evs_sorted = evs.clone();
        let keyf = |e: &HalEvent| format!("{:?}", e);
        evs_sorted.sort_by_key(keyf);
        expected.sort_by_key(keyf);
        if evs_sorted != expected {
            viol("C04", "add-hal-calls", format!("submission of chain {} made platform calls {:?}, expected exactly {:?}", token, evs, expected));
        }
        // Bounce copies of readable buffers equal the caller's bytes.
        for (k, b) in ins.iter().enumerate() {
            if let Some(e) = chain.elems.get(k) {
                let got = hal::with(|h| h.dev_read(e.addr, e.len as usize));
                match got {
                    Ok(g) => {
                        if g[..] != b[..] {
                            viol("C04", "readable-data", format!("device sees {:?} for readable buffer {} of chain {}, caller supplied {:?}", g, k, token, b));
                        }
                    }
                    Err(er) => viol("C04", "readable-unreachable", format!("chain {} element {}: {}", token, k, er)),
                }
            }
        }
        Some(chain)
    }

    fn do_complete(&mut self, j: usize, check: bool) {
        if j >= self.inflight.len() {
            return;
        }
        let token = self.inflight.remove(j);
        let old = self.refq.used_idx;
        let oi = self.outs.iter().position(|o| o.token == token).unwrap();
        // The recorded length is an arbitrary number the device chose; for entries published at an
        // even position it is larger than any chain (the queue returns it as it is).
        let len = (token as u32) * 7 + (old as u32) * 13 + 1 + if self.outs[oi].pos % 2 == 0 { 4096 } else { 0 };
        let seed = (old as u8).wrapping_mul(17).wrapping_add(token as u8);
        // Write the pattern into every device-writable element.
        let elems = self.outs[oi].chain.elems.clone();
        let mut widx = 0;
        for e in elems.iter().filter(|e| e.write) {
            let data: Vec<u8> = (0..e.len as usize).map(|k| pat(seed as u32 + widx * 977, k)).collect();
            if let Err(er) = hal::with(|h| h.dev_write(e.addr, &data)) {
                if check {
                    viol("C04", "writable-unreachable", format!("device cannot write element of chain {}: {}", token, er));
                }
            }
            widx += 1;
        }
        if let Err(e) = self.refq.push_used(token as u32, len) {
            viol("C06", "used-ring-unwritable", e);
        }
        self.outs[oi].completed = Some((len, seed));
        self.fifo.push_back((token, len));
        tag("dev:complete");
        tlog!("  device used id={} len={} (used.idx {} -> {})", token, len, old, self.refq.used_idx);
        if check {
            // The caller's writable buffers must not change before the completion is consumed.
            for (k, b) in self.outs[oi].outs.iter().enumerate() {
                if b.iter().any(|x| *x != 0x5A) {
                    viol("C04", "early-writeback", format!("writable buffer {} of chain {} changed before pop_used", k, token));
                }
            }
        }
    }

    fn do_pop_right(&mut self, check: bool) {
        let Some(&(token, len)) = self.fifo.front() else { return };
        let oi = self.outs.iter().position(|o| o.token == token).unwrap();
        let log_before = hal::with(|h| h.log.len());
        let used_pos_before = self.q.as_ref().map(|q| q.verif_snapshot().last_used_idx);
        let res = {
            let o = &mut self.outs[oi];
            let in_refs: Vec<&[u8]> = o.ins.iter().map(|b| unsafe { std::slice::from_raw_parts(b.as_ptr(), b.len()) }).collect();
            let mut out_refs: Vec<&mut [u8]> = o.outs.iter_mut().map(|b| unsafe { std::slice::from_raw_parts_mut(b.as_mut_ptr(), b.len()) }).collect();
            self.traced(check, |q| unsafe { q.pop_used(token, &in_refs, &mut out_refs) })
        };
        match res {
            Err(p) => {
                viol("C03", "pop-panicked", format!("pop_used({}) of the next completion panicked: {}", token, p));
            }
            Ok(Err(e)) => {
                viol("C03", "pop-refused", format!("pop_used({}) of the next completion failed with {:?}", token, e));
                if check {
                    // C02: whatever the call returned, entries that are available and not yet
                    // completed must have stayed intact at every instant.
                    self.check_c02_other("pop_used (failed)");
                }
                // C04: whatever the call returned, a completion that has been consumed (the
                // driver moved past the used element) must have unshared its buffers.
                let used_pos_after = self.q.as_ref().map(|q| q.verif_snapshot().last_used_idx);
                if used_pos_after != used_pos_before {
                    let o = &self.outs[oi];
                    let still: usize = hal::with(|h| o.ins.iter().chain(o.outs.iter()).filter(|b| h.shares.iter().any(|s| s.live && s.vaddr == b.as_ptr() as usize && s.len == b.len())).count());
                    if still != 0 {
                        viol("C04", "consumed-without-unshare", format!("pop_used({}) returned {:?} and moved past the used element, but {} of the chain's buffers are still shared", token, e, still));
                    }
                }
            }
            Ok(Ok(got)) => {
                tag("pop:ok");
                tlog!("  -> Ok({})", got);
                if check {
                    self.check_c02_other("pop_used");
                }
                self.fifo.pop_front();
                self.pops = self.pops.wrapping_add(1);
                let o = self.outs.remove(oi);
                if !check {
                    return;
                }
                if got != len {
                    viol("C03", "pop-length", format!("pop_used({}) returned length {} but the device recorded {}", token, got, len));
                }
                // C04: exactly one unshare per buffer and table, with identical arguments.
                let evs: Vec<HalEvent> = hal::with(|h| h.log[log_before.min(h.log.len())..].to_vec());
                let mut expected: Vec<HalEvent> = vec![];
                let bufs: Vec<(usize, usize, bool)> = o.ins.iter().map(|b| (b.as_ptr() as usize, b.len(), false)).chain(o.outs.iter().map(|b| (b.as_ptr() as usize, b.len(), true))).collect();
                for (k, w) in bufs.iter().enumerate() {
                    let paddr = o.chain.elems.get(k).map(|e| e.addr).unwrap_or(0);
                    expected.push(HalEvent::Unshare { paddr, vaddr: w.0, len: w.1, dir: if w.2 { Dir::FromDevice } else { Dir::ToDevice }, ap: self.cfg.ap });
                }
                let mut evs_cmp = evs.clone();
                if let Some((taddr, tlen)) = o.chain.indirect {
                    // The table's virtual address is private to the driver; match on everything else.
                    let pos = evs_cmp.iter().position(|e| matches!(e, HalEvent::Unshare { paddr, len, dir: Dir::ToDevice, .. } if *paddr == taddr && *len == tlen as usize));
                    match pos {
                        Some(p) => {
                            evs_cmp.remove(p);
                        }
                        None => viol("C04", "table-not-unshared", format!("indirect table {:#x} of chain {} was not unshared when the completion was consumed", taddr, token)),
                    }
                }
                let keyf = |e: &HalEvent| format!("{:?}", e);
                evs_cmp.sort_by_key(keyf);
                expected.sort_by_key(keyf);
                if evs_cmp != expected {
                    viol("C04", "pop-hal-calls", format!("consuming chain {} made platform calls {:?}, expected unshare of exactly {:?} (plus its table)", token, evs, expected));
                }
                // Data: writable buffers now hold exactly what the device wrote.
                if let Some((_, seed)) = o.completed {
                    for (k, b) in o.outs.iter().enumerate() {
                        let want: Vec<u8> = (0..b.len()).map(|i| pat(seed as u32 + k as u32 * 977, i)).collect();
                        if b[..] != want[..] {
                            viol("C04", "writeback-data", format!("writable buffer {} of chain {} holds {:?} after pop_used, device wrote {:?}", k, token, b, want));
                        }
                    }
                }
                // Readable buffers are untouched.
                let seedp = o.pos as u32;
                for (i, b) in o.ins.iter().enumerate() {
                    let want: Vec<u8> = (0..b.len()).map(|k| pat(seedp + i as u32 * 101, k)).collect();
                    if b[..] != want[..] {
                        viol("C04", "readable-clobbered", format!("readable buffer {} of chain {} was modified", i, token));
                    }
                }
                // C05 (interrupt side): with event-idx the used_event is re-armed to the new position.
                if self.cfg.event_idx {
                    let want = self.cfg.start_off.wrapping_add(self.pops);
                    match self.refq.used_event() {
                        Ok(ue) if ue == want => {}
                        Ok(ue) => viol("C05", "used-event-not-rearmed", format!("after consuming completion #{} used_event is {} but must be {} for the device to interrupt for the next one", want.wrapping_sub(1), ue, want)),
                        Err(e) => viol("C06", "avail-unreadable", e),
                    }
                }
            }
        }
    }

    /// The queue object goes away while the device still has the queue (it was neither reset nor
    /// told to forget the queue). C02: at the instants the queue's DMA regions are handed back -
    /// the last at which the device can read them - the available index still is what was
    /// published.
    fn do_drop(&mut self, check: bool) {
        self.dead = true;
        let seen: std::rc::Rc<std::cell::RefCell<Vec<u16>>> = Default::default();
        let s2 = seen.clone();
        let driver = self.refq.a.driver;
        hal::with(|h| {
            h.dealloc_hook = Some(Box::new(move |_paddr, _pages| {
                if let Some(b) = hal::with(|h| h.peek(driver + 2, 2)) {
                    s2.borrow_mut().push(u16::from_le_bytes([b[0], b[1]]));
                }
                None
            }))
        });
        let q = self.q.take();
        let tracer = self.tracer.take();
        let r = crate::util::catch(move || drop(q));
        self.tracer = tracer;
        hal::with(|h| h.dealloc_hook = None);
        tag("drop");
        if !check {
            return;
        }
        if let Err(p) = r {
            viol("C03", "drop-panicked", format!("dropping the queue panicked: {}", p));
        }
        let want = self.cfg.start_off.wrapping_add(self.adds as u16);
        for idx in seen.borrow().iter() {
            if *idx != want {
                viol("C02", "avail-idx-moved-backwards", format!("while the queue was being dropped (device neither reset nor told to forget the queue) the device could read avail.idx = {}, but {} had been published: the index may never move backwards while the device can read it", idx, want));
            }
        }
    }

    fn do_pop_fail(&mut self, token: u16, want: Error, check: bool) {
        let before = if check { Some(self.snap()) } else { None };
        // Use the buffers of the named chain if it exists (or of the chain whose token it equals
        // modulo the queue size), otherwise none.
        let oi = self.outs.iter().position(|o| o.token == token).or_else(|| self.outs.iter().position(|o| o.token == token & (N as u16 - 1)));
        let res = {
            let (in_refs, mut out_refs): (Vec<&[u8]>, Vec<&mut [u8]>) = match oi {
                Some(i) => {
                    let o = &mut self.outs[i];
                    (
                        o.ins.iter().map(|b| unsafe { std::slice::from_raw_parts(b.as_ptr(), b.len()) }).collect(),
                        o.outs.iter_mut().map(|b| unsafe { std::slice::from_raw_parts_mut(b.as_mut_ptr(), b.len()) }).collect(),
                    )
                }
                None => (vec![], vec![]),
            };
            self.traced(check, |q| unsafe { q.pop_used(token, &in_refs, &mut out_refs) })
        };
        tag(if want == Error::WrongToken { "pop:WrongToken" } else { "pop:NotReady" });
        if !check {
            return;
        }
        match res {
            Err(p) => viol("C03", "pop-panicked", format!("pop_used({}) expected to fail with {:?} panicked: {}", token, want, p)),
            Ok(Ok(l)) => viol("C03", "pop-wrongly-succeeded", format!("pop_used({}) returned Ok({}) but must fail with {:?} (next used token is {:?})", token, l, want, self.fifo.front())),
            Ok(Err(e)) => {
                tlog!("  -> Err({:?})", e);
                if e != want {
                    viol("C03", "pop-wrong-error", format!("pop_used({}) failed with {:?}, expected {:?}", token, e, want));
                }
                let after = self.snap();
                if Some(&after) != before.as_ref() {
                    if after.hal_log_len != before.as_ref().unwrap().hal_log_len {
                        viol("C04", "failed-pop-hal-calls", format!("failed pop_used({}) made platform calls", token));
                    }
                    viol("C03", "failed-pop-side-effect", format!("pop_used({}) failing with {:?} changed queue state or device-visible memory", token, e));
                }
            }
        }
    }

    fn check_queries(&mut self) {
        if self.dead {
            // The history ended with a call that broke its precondition: nothing more is judged.
            return;
        }
        let held = self.held();
        let q = self.q.as_ref().unwrap();
        let can = q.can_pop();
        if can != !self.fifo.is_empty() {
            viol("C03", "can_pop", format!("can_pop() = {} with {} unconsumed completions", can, self.fifo.len()));
        }
        let peek = q.peek_used();
        let want = self.fifo.front().map(|f| f.0);
        if peek != want {
            viol("C03", "peek_used", format!("peek_used() = {:?}, next used token is {:?}", peek, want));
        }
        let avail = q.available_desc();
        if !self.cfg.indirect {
            if avail != N.saturating_sub(held) {
                viol("C03", "available_desc", format!("available_desc() = {} with {} of {} descriptors held", avail, held, N));
            }
        } else {
            // In indirect mode the accessor answers "N unless full" (pinned by the repository's tests);
            // what must hold is: add(n) succeeds iff 1 <= n <= available_desc().
            let want = if held == N { 0 } else { N };
            if avail != want {
                viol("C03", "available_desc", format!("available_desc() = {} in indirect mode with {} of {} descriptors held", avail, held, N));
            }
        }
        let s = q.verif_snapshot();
        if s.num_used as usize != held {
            viol("C03", "num_used", format!("driver counts {} descriptors in use, outstanding chains hold {}", s.num_used, held));
        }
        // Free list: exactly N - held distinct descriptors, none owned by an outstanding chain.
        let owners = self.owner_map();
        let mut seen = vec![false; N];
        let mut i = s.free_head as usize;
        let mut cnt = 0;
        while cnt < N.saturating_sub(held) {
            if i >= N {
                viol("C03", "free-list-range", format!("free list reaches index {} after {} entries", i, cnt));
                break;
            }
            if seen[i] {
                viol("C03", "free-list-cycle", format!("free list revisits descriptor {} after {} entries ({} expected)", i, cnt, N.saturating_sub(held)));
                break;
            }
            if let Some(o) = owners[i] {
                viol("C03", "free-list-owned", format!("free list contains descriptor {} which belongs to outstanding chain {}", i, o));
                break;
            }
            seen[i] = true;
            cnt += 1;
            i = s.desc_shadow[i].3 as usize;
        }
        // With event-idx: while used-buffer notifications are wanted (never switched off, or
        // switched on again), used_event names the next completion, so that a device following
        // the specification interrupts for it. (What it holds while they are switched off is the
        // driver's business.)
        if self.cfg.event_idx && self.last_switch == 0 {
            let want = self.cfg.start_off.wrapping_add(self.pops);
            match self.refq.used_event() {
                Ok(ue) if ue == want => {}
                Ok(ue) => viol("C05", "used-event-not-rearmed", format!("used-buffer notifications are switched on and {} completions have been consumed, but used_event is {} (must be {} for the device to interrupt for the next completion)", self.pops, ue, want)),
                Err(e) => viol("C06", "avail-unreadable", e),
            }
        }
        // Interrupt suppression without event-idx: the device reads exactly the last setting.
        if !self.cfg.event_idx {
            match self.refq.avail_flags() {
                Ok(f) if f == self.notify_setting => {}
                Ok(f) => viol("C05", "avail-flags", format!("device reads avail.flags = {} but the driver's last interrupt-suppression setting is {}", f, self.notify_setting)),
                Err(e) => viol("C06", "avail-unreadable", e),
            }
        }
        // avail.idx as seen by the device equals start + successful submissions.
        if let Ok(idx) = self.refq.avail_idx() {
            let want = self.cfg.start_off.wrapping_add(self.adds as u16);
            if idx != want {
                viol("C01", "avail-idx", format!("device reads avail.idx = {} after {} submissions from {}", idx, self.adds, self.cfg.start_off));
            }
        }
    }

    /// Chains published and not yet consumed must stay exactly as published.
    fn check_outstanding_unchanged(&mut self) {
        for o in &self.outs {
            if o.chain.descs.is_empty() {
                continue;
            }
            if o.completed.is_some() {
                continue;
            }
            match self.refq.walk(o.token) {
                Ok(c) if c == o.chain => {}
                Ok(c) => viol("C01", "outstanding-chain-changed", format!("outstanding chain {} changed in device memory: was {:?}, now {:?}", o.token, o.chain, c)),
                Err(e) => viol("C01", "outstanding-chain-broken", format!("outstanding chain {} is no longer well-formed: {}", o.token, e)),
            }
        }
    }

    /// Canonical key of the complete concrete state (addresses renamed by owner).
    pub fn key(&self) -> u128 {
        let mut h = H128::new();
        if self.dead {
            // All ended histories are one state without successors.
            h.u64(0xdead_dead_dead_dead);
            return h.finish128();
        }
        let a = self.refq.a;
        // Address renaming: device address -> (owner token, element index).
        let mut names: Vec<(u64, u64)> = vec![];
        for o in &self.outs {
            for (k, e) in o.chain.elems.iter().enumerate() {
                names.push((e.addr, ((o.token as u64) << 16) | (k as u64 + 1)));
            }
            if let Some((t, _)) = o.chain.indirect {
                names.push((t, ((o.token as u64) << 16) | 0xffff));
            }
        }
        let rename = |addr: u64| -> u64 {
            if addr == 0 {
                return 0;
            }
            names.iter().find(|n| n.0 == addr).map(|n| n.1).unwrap_or(0xdead_0000)
        };
        let off = if self.cfg.abstract_idx { self.refq.last_avail & !(N as u16 - 1) } else { 0 };
        let s = self.q.as_ref().unwrap().verif_snapshot();
        h.u64(s.num_used as u64);
        h.u64(s.free_head as u64);
        h.u64(s.avail_idx.wrapping_sub(off) as u64);
        h.u64(if self.cfg.abstract_idx { s.avail_idx.wrapping_sub(s.last_used_idx) as u64 } else { s.last_used_idx as u64 });
        for (i, d) in s.desc_shadow.iter().enumerate() {
            h.u64(rename(d.0));
            h.u64(d.1 as u64 | (d.2 as u64) << 32 | (d.3 as u64) << 48);
            h.u64(s.indirect_lists[i] as u64);
        }
        hal::with(|hs| {
            let desc = hs.peek(a.desc, 16 * N).unwrap_or_default();
            for c in desc.chunks(16) {
                h.u64(rename(u64::from_le_bytes(c[0..8].try_into().unwrap())));
                h.u64(u64::from_le_bytes(c[8..16].try_into().unwrap()));
            }
            let avail = hs.peek(a.driver, 6 + 2 * N).unwrap_or_default();
            let used = hs.peek(a.device, 6 + 8 * N).unwrap_or_default();
            if self.cfg.abstract_idx {
                // flags, idx (relative), ring, used_event (relative)
                h.u64(u16::from_le_bytes([avail[0], avail[1]]) as u64);
                h.u64(u16::from_le_bytes([avail[2], avail[3]]).wrapping_sub(off) as u64);
                h.bytes(&avail[4..4 + 2 * N]);
                h.u64(u16::from_le_bytes([avail[4 + 2 * N], avail[5 + 2 * N]]).wrapping_sub(off) as u64);
                h.u64(u16::from_le_bytes([used[0], used[1]]) as u64);
                h.u64(u16::from_le_bytes([used[2], used[3]]).wrapping_sub(off) as u64);
                // Used elements: ids only for stale slots would be exact, but lengths embed the
                // absolute index; keep ids and drop lengths (lengths are checked per execution).
                for c in used[4..4 + 8 * N].chunks(8) {
                    h.u64(u32::from_le_bytes(c[0..4].try_into().unwrap()) as u64);
                }
                h.u64(u16::from_le_bytes([used[4 + 8 * N], used[5 + 8 * N]]).wrapping_sub(off) as u64);
            } else {
                h.bytes(&avail);
                h.bytes(&used);
            }
            h.u64(hs.live_share_count() as u64);
        });
        h.u64(self.refq.last_avail.wrapping_sub(off) as u64);
        h.u64(self.refq.used_idx.wrapping_sub(off) as u64);
        h.u64(self.notify_setting as u64);
        h.u64(self.notify_streak as u64 | (self.last_switch as u64) << 8);
        for o in &self.outs {
            h.u64(o.token as u64 | (o.ins.len() as u64) << 16 | (o.outs.len() as u64) << 24 | (o.pos.wrapping_sub(off) as u64) << 32);
            h.u64(match o.completed {
                None => 0,
                Some((l, s)) => if self.cfg.abstract_idx { 1 } else { 1 | (l as u64) << 8 | (s as u64) << 40 },
            });
        }
        for t in &self.inflight {
            h.u64(*t as u64);
        }
        for f in &self.fifo {
            h.u64(f.0 as u64 | if self.cfg.abstract_idx { 0 } else { (f.1 as u64) << 16 });
        }
        h.finish128()
    }

    /// Tears the world down in the order a driver would (transport reset first).
    pub fn teardown(mut self) {
        // Outstanding buffers stay alive until the queue is gone.
        self.dev.borrow_mut().set_status(0);
        let q = self.q.take();
        drop(q);
        hal::with(|h| h.faults.clear());
    }
}

pub struct QModel<const N: usize> {
    pub cfg: QCfg,
}

impl<const N: usize> BfsModel for QModel<N> {
    fn run(&self, history: &[u16]) -> BfsStep {
        let mut w = match World::<N>::new(self.cfg) {
            Ok(w) => w,
            Err(e) => {
                viol("C06", "queue-creation", e);
                return BfsStep { key: 0, enabled: vec![] };
            }
        };
        if self.cfg.preroll != 0 {
            // An unchecked prefix: N single-buffer requests (readable and writable alternating),
            // all completed (in submission or in reverse order) and consumed.
            let shapes = shapes_for_cfg(N, self.cfg.reduced);
            let r = shapes.iter().position(|s| *s == (1, 0)).unwrap() as u16;
            let wr = shapes.iter().position(|s| *s == (0, 1)).unwrap() as u16;
            for k in 0..N {
                w.step(if k % 2 == 0 { r } else { wr }, false);
            }
            for k in 0..N {
                let j = if self.cfg.preroll == 2 { N - 1 - k } else { 0 };
                w.step(A_COMPLETE0 + j as u16, false);
            }
            for _ in 0..N {
                w.step(A_POP_RIGHT, false);
            }
        }
        for (i, &a) in history.iter().enumerate() {
            let last = i + 1 == history.len();
            w.step(a, last);
            if !last && crate::engine::chooser::has_violation_of(crate::util::panic_prop()) {
                // A prefix that was clean (for the property this check decides) when explored now
                // violates it: nondeterminism. Violations of the other queue properties do not
                // end the history: the exploration goes on beyond them.
                break;
            }
        }
        let key = w.key();
        let enabled = w.enabled();
        w.teardown();
        BfsStep { key, enabled }
    }
    fn describe(&self, action: u16) -> String {
        World::<N>::describe_with(action, self.cfg.reduced)
    }
}

/// One long linear history on the real queue (no re-execution): `cycles` rounds of submissions
/// with rotating shapes, device completions in rotating orders and polls, every step checked.
/// Returns the number of steps executed. Used to cross the 16-bit index wrap for real.
pub fn linear_run<const N: usize>(cfg: QCfg, cycles: usize) -> u64 {
    let mut w = match World::<N>::new(cfg) {
        Ok(w) => w,
        Err(e) => {
            viol("C06", "queue-creation", e);
            return 0;
        }
    };
    let shapes = shapes_for(N);
    let mut steps = 0u64;
    let mut r = 0usize;
    for c in 0..cycles {
        // Fill: up to three submissions of rotating shapes (refusals included).
        for k in 0..3 {
            let s = (c * 7 + k * 3) % shapes.len();
            w.step(A_ADD0 + s as u16, true);
            steps += 1;
        }
        // A wrong-token / empty poll now and then.
        if c % 5 == 0 {
            let en = w.enabled();
            if en.contains(&A_POP_EMPTY) {
                w.step(A_POP_EMPTY, true);
                steps += 1;
            }
        }
        // The device completes everything in a rotating order.
        while !w.inflight.is_empty() && !crate::engine::chooser::has_violation() {
            r = r.wrapping_add(c + 1);
            let j = r % w.inflight.len();
            w.step(A_COMPLETE0 + j as u16, true);
            steps += 1;
        }
        if c % 3 == 0 && w.enabled().contains(&A_POP_WRONG_OUT) {
            w.step(A_POP_WRONG_OUT, true);
            steps += 1;
        }
        while !w.fifo.is_empty() && !crate::engine::chooser::has_violation() {
            w.step(A_POP_RIGHT, true);
            steps += 1;
        }
        if crate::engine::chooser::has_violation() {
            break;
        }
    }
    w.teardown();
    steps
}

/// The warp hook is a faithful shortcut: `k` real single-buffer cycles from a fresh queue end in
/// the same private state and device-visible driver memory as `verif_warp(k mod 2^16)`.
pub fn warp_faithfulness<const N: usize>(cfg: QCfg, k: usize) -> Result<(), String> {
    let mut a = World::<N>::new(QCfg { start_off: 0, ..cfg })?;
    for _ in 0..k {
        // add(1 readable) / complete / pop, all unchecked for speed.
        let shape = shapes_for(N).iter().position(|s| *s == (1, 0)).unwrap();
        a.step(A_ADD0 + shape as u16, false);
        a.step(A_COMPLETE0, false);
        a.step(A_POP_RIGHT, false);
    }
    let b = World::<N>::new(QCfg { start_off: (k % 65536) as u16, ..cfg })?;
    let (sa, sb) = (a.snap(), b.snap());
    let r = if sa.privs != sb.privs {
        Err(format!("private state after {} real cycles {:?} differs from verif_warp({}) {:?}", k, sa.privs, k % 65536, sb.privs))
    } else if sa.avail[..4] != sb.avail[..4] || sa.avail[4 + 2 * N..] != sb.avail[4 + 2 * N..] {
        Err(format!("available ring header/used_event after {} real cycles {:?} differs from the warped queue {:?}", k, sa.avail, sb.avail))
    } else {
        Ok(())
    };
    a.teardown();
    b.teardown();
    r
}
