//! A wrapping global allocator which, while a watch is armed on the current thread, reports every
//! heap `dealloc` whose range overlaps the virtual range of a buffer that is still shared with a
//! device that is live on the queue holding it (C09: driver-owned buffer freed while posted).

use std::alloc::{GlobalAlloc, Layout, System};
use std::cell::{Cell, RefCell};

pub struct WatchAlloc;

thread_local! {
    static ARMED: Cell<bool> = const { Cell::new(false) };
    static IN_HOOK: Cell<bool> = const { Cell::new(false) };
    static HITS: RefCell<Vec<String>> = const { RefCell::new(Vec::new()) };
    static DEV: RefCell<Option<crate::dev::DevRc>> = const { RefCell::new(None) };
    /// One-shot allocation failure: the next allocation of exactly this (size, alignment) on this
    /// thread returns null.
    static FAIL_NEXT: Cell<Option<(usize, usize)>> = const { Cell::new(None) };
    /// While set, every heap `dealloc` on this thread is recorded (address, size) in FREES.
    static LOG_ON: Cell<bool> = const { Cell::new(false) };
    static FREES: Cell<([(usize, usize); 64], usize)> = const { Cell::new(([(0, 0); 64], 0)) };
}

/// Starts recording the heap ranges freed on this thread (at most 64; more sets the overflow flag
/// returned by `take_frees`).
pub fn log_frees() {
    FREES.with(|f| f.set(([(0, 0); 64], 0)));
    LOG_ON.with(|l| l.set(true));
}

/// Stops recording and returns the freed ranges and whether the log overflowed.
pub fn take_frees() -> (Vec<(usize, usize)>, bool) {
    LOG_ON.with(|l| l.set(false));
    let (a, n) = FREES.with(|f| f.get());
    (a[..n.min(64)].to_vec(), n > 64)
}

/// Makes the next heap allocation of exactly `size` bytes with alignment `align` on this thread
/// fail (once).
pub fn fail_next(size: usize, align: usize) {
    FAIL_NEXT.with(|f| f.set(Some((size, align))));
}

/// Disarms the one-shot failure; returns true if it was still pending (it never fired).
pub fn take_fail_next() -> bool {
    FAIL_NEXT.with(|f| f.take()).is_some()
}

fn should_fail(layout: &Layout) -> bool {
    FAIL_NEXT
        .try_with(|f| match f.get() {
            Some((s, a)) if s == layout.size() && a == layout.align() => {
                f.set(None);
                true
            }
            _ => false,
        })
        .unwrap_or(false)
}

// SAFETY: delegates to the system allocator; the hook only observes.
unsafe impl GlobalAlloc for WatchAlloc {
    unsafe fn alloc(&self, layout: Layout) -> *mut u8 {
        if should_fail(&layout) {
            return std::ptr::null_mut();
        }
        // SAFETY: forwarded.
        unsafe { System.alloc(layout) }
    }
    unsafe fn alloc_zeroed(&self, layout: Layout) -> *mut u8 {
        if should_fail(&layout) {
            return std::ptr::null_mut();
        }
        // SAFETY: forwarded.
        unsafe { System.alloc_zeroed(layout) }
    }
    unsafe fn realloc(&self, ptr: *mut u8, layout: Layout, new_size: usize) -> *mut u8 {
        // SAFETY: forwarded.
        unsafe { System.realloc(ptr, layout, new_size) }
    }
    unsafe fn dealloc(&self, ptr: *mut u8, layout: Layout) {
        if LOG_ON.try_with(|l| l.get()).unwrap_or(false) {
            let _ = FREES.try_with(|f| {
                let (mut a, n) = f.get();
                if n < 64 {
                    a[n] = (ptr as usize, layout.size());
                }
                f.set((a, n + 1));
            });
        }
        let armed = ARMED.try_with(|a| a.get()).unwrap_or(false);
        if armed {
            on_dealloc(ptr as usize, layout.size());
        }
        // SAFETY: forwarded.
        unsafe { System.dealloc(ptr, layout) }
    }
}

fn on_dealloc(addr: usize, size: usize) {
    if IN_HOOK.try_with(|h| h.replace(true)).unwrap_or(true) {
        return;
    }
    let hit = crate::hal::try_with(|h| {
        let mut found: Vec<(u64, usize, usize, bool)> = vec![];
        for s in h.shares.iter() {
            if s.live && s.vaddr < addr + size && addr < s.vaddr + s.len && s.len > 0 {
                found.push((s.paddr, s.vaddr, s.len, s.dir != crate::hal::Dir::ToDevice));
            }
        }
        found
    });
    if let Some(found) = hit {
        if !found.is_empty() {
            let dev = DEV.try_with(|d| d.try_borrow().ok().and_then(|d| d.clone())).ok().flatten();
            if let Some(dev) = dev {
                if let Ok(d) = dev.try_borrow() {
                    for (paddr, vaddr, len, writable) in found {
                        // Which live queue has a descriptor pointing into this share?
                        for (qi, q) in d.queues.iter().enumerate() {
                            if !d.live_on(qi) {
                                continue;
                            }
                            if queue_references(q.a, paddr, len) {
                                let msg = format!("heap range {:#x}+{} freed while {} buffer {:#x}+{} is still posted on queue {} of a live device", addr, size, if writable { "device-writable" } else { "device-readable" }, vaddr, len, qi);
                                let _ = HITS.try_with(|h| {
                                    if let Ok(mut h) = h.try_borrow_mut() {
                                        if h.len() < 8 {
                                            h.push(msg);
                                        }
                                    }
                                });
                            }
                        }
                    }
                }
            }
        }
    }
    let _ = IN_HOOK.try_with(|h| h.set(false));
}

fn queue_references(a: crate::ring::QueueAddrs, paddr: u64, len: usize) -> bool {
    let n = a.size as usize;
    if n == 0 {
        return false;
    }
    let r = crate::hal::try_with(|h| {
        let Some(desc) = h.peek(a.desc, 16 * n) else { return false };
        for c in desc.chunks(16) {
            let addr = u64::from_le_bytes(c[0..8].try_into().unwrap());
            let dlen = u32::from_le_bytes(c[8..12].try_into().unwrap());
            let flags = u16::from_le_bytes(c[12..14].try_into().unwrap());
            if dlen == 0 {
                continue;
            }
            if addr >= paddr && addr < paddr + len as u64 {
                return true;
            }
            if flags & 4 != 0 {
                if let Some(t) = h.peek(addr, dlen as usize) {
                    for e in t.chunks(16) {
                        let ea = u64::from_le_bytes(e[0..8].try_into().unwrap());
                        if ea >= paddr && ea < paddr + len as u64 {
                            return true;
                        }
                    }
                }
            }
        }
        false
    });
    r.unwrap_or(false)
}

/// Arms the watch for the current thread.
pub fn arm(dev: &crate::dev::DevRc) {
    DEV.with(|d| *d.borrow_mut() = Some(dev.clone()));
    HITS.with(|h| h.borrow_mut().clear());
    ARMED.with(|a| a.set(true));
}

/// Disarms the watch and returns what it saw.
pub fn disarm() -> Vec<String> {
    ARMED.with(|a| a.set(false));
    DEV.with(|d| *d.borrow_mut() = None);
    HITS.with(|h| std::mem::take(&mut *h.borrow_mut()))
}
