//! LabHal: an instrumented, bouncing, fault-injecting implementation of `Hal`.
//!
//! `Hal` methods are associated functions, so the state is thread-local (one lab per worker).
//! Device addresses never equal virtual addresses. The device side resolves addresses only through
//! live ledger entries and respects the direction of each mapping.

use std::cell::RefCell;
use std::ptr::NonNull;
use virtio_drivers::{BufferDirection, Hal, PhysAddr, PAGE_SIZE};

#[derive(Clone, Copy, Debug, PartialEq, Eq, Hash)]
pub enum Dir {
    ToDevice,
    FromDevice,
    Both,
}

impl From<BufferDirection> for Dir {
    fn from(d: BufferDirection) -> Self {
        match d {
            BufferDirection::DriverToDevice => Dir::ToDevice,
            BufferDirection::DeviceToDriver => Dir::FromDevice,
            BufferDirection::Both => Dir::Both,
        }
    }
}

#[derive(Debug)]
pub struct DmaEntry {
    pub paddr: u64,
    pub vaddr: usize,
    /// Address through which the lab (device side) accesses the memory: equal to `vaddr` unless
    /// the region is double-mapped for the store tracer.
    pub dev_vaddr: usize,
    pub pages: usize,
    pub dir: Dir,
    pub ap: bool,
    pub live: bool,
    pub seq: u64,
    pub ordinal: usize,
}

#[derive(Debug)]
pub struct ShareEntry {
    pub paddr: u64,
    pub vaddr: usize,
    pub len: usize,
    pub dir: Dir,
    pub ap: bool,
    pub live: bool,
    pub seq: u64,
    pub bounce: Vec<u8>,
    /// Content of a device-writable buffer when it was shared (only while `watch_writes` is on).
    pub orig: Option<Vec<u8>>,
}

#[derive(Clone, Debug, PartialEq, Eq)]
pub enum HalEvent {
    DmaAlloc { paddr: u64, pages: usize, dir: Dir, ap: bool, failed: bool },
    DmaDealloc { paddr: u64, vaddr: usize, pages: usize, ap: bool },
    Share { paddr: u64, vaddr: usize, len: usize, dir: Dir, ap: bool },
    Unshare { paddr: u64, vaddr: usize, len: usize, dir: Dir, ap: bool },
    MmioMap { paddr: u64, size: usize, vaddr: usize },
}

pub struct HalState {
    pub dma: Vec<DmaEntry>,
    pub shares: Vec<ShareEntry>,
    pub log: Vec<HalEvent>,
    /// Ledger violations (double free, mismatching unshare, ...): (kind, detail).
    pub faults: Vec<(String, String)>,
    pub seq: u64,
    next_dma_paddr: u64,
    /// One-shot: the next DMA allocation starts this many pages below a 4 GiB boundary of device
    /// address space (so that a region of more pages straddles the boundary).
    straddle: Option<u64>,
    /// Opt-in oracle: a device-writable buffer must not be written by the driver between share
    /// and unshare (the bouncing layer would hide such a write: the device's copy wins). With
    /// this on, the buffer's content is remembered at share and compared at unshare
    /// (fault `buffer-written-while-shared`).
    pub watch_writes: bool,
    /// Added to every pointer `mmio_phys_to_virt` returns (a platform whose MMIO mappings do not
    /// preserve the low bits of the physical address).
    pub mmio_skew: usize,
    next_share_paddr: u64,
    /// If Some(k), the k-th (0-based) dma_alloc call of this execution fails.
    pub fail_dma_at: Option<usize>,
    pub dma_calls: usize,
    /// Hook called on dma_dealloc: (paddr, pages) -> optional complaint (C09 / C20 oracles).
    pub dealloc_hook: Option<Box<dyn FnMut(u64, usize) -> Option<(String, String)>>>,
    pub mmio_maps: Vec<(u64, usize, usize)>,
    /// Use tracer-capable (memfd double-mapped) pages for DMA memory.
    pub use_tracer_pages: bool,
    free_pages: Vec<(usize, usize)>,
}

pub const DMA_PADDR_BASE: u64 = 0x1_4000_0000;
pub const SHARE_PADDR_BASE: u64 = 0x9_0000_0000;
pub const MMIO_VADDR_BASE: usize = 0x7000_0000_0000;
pub const MMIO_VADDR_STRIDE: usize = 0x2_0000_0000;

impl Default for HalState {
    fn default() -> Self {
        HalState {
            dma: vec![],
            shares: vec![],
            log: vec![],
            faults: vec![],
            seq: 0,
            next_dma_paddr: DMA_PADDR_BASE,
            straddle: None,
            watch_writes: false,
            mmio_skew: 0,
            next_share_paddr: SHARE_PADDR_BASE,
            fail_dma_at: None,
            dma_calls: 0,
            dealloc_hook: None,
            mmio_maps: vec![],
            use_tracer_pages: false,
            free_pages: vec![],
        }
    }
}

thread_local! {
    static HAL: RefCell<HalState> = RefCell::new(HalState::default());
}

pub fn with<R>(f: impl FnOnce(&mut HalState) -> R) -> R {
    HAL.with(|h| f(&mut h.borrow_mut()))
}

/// Like `with`, but returns None if the ledger is currently borrowed (used from the allocator hook).
pub fn try_with<R>(f: impl FnOnce(&HalState) -> R) -> Option<R> {
    HAL.try_with(|h| h.try_borrow().ok().map(|h| f(&h))).ok().flatten()
}

/// Resets the lab for a new execution, freeing leaked DMA memory of the previous one.
pub fn reset() {
    HAL.with(|h| {
        let mut h = h.borrow_mut();
        for e in h.dma.iter() {
            if e.live {
                // Leaked by the previous execution (reported there if relevant); reclaim now.
                if e.dev_vaddr != e.vaddr {
                    crate::tracer::free_double_mapped(e.vaddr, e.dev_vaddr, e.pages);
                } else {
                    free_pages(e.vaddr, e.pages);
                }
            }
        }
        *h = HalState::default();
    })
}

fn alloc_pages(pages: usize) -> usize {
    let layout = std::alloc::Layout::from_size_align(pages.max(1) * PAGE_SIZE, PAGE_SIZE).unwrap();
    // SAFETY: layout has non-zero size.
    let p = unsafe { std::alloc::alloc_zeroed(layout) };
    assert!(!p.is_null());
    p as usize
}

fn free_pages(vaddr: usize, pages: usize) {
    let layout = std::alloc::Layout::from_size_align(pages.max(1) * PAGE_SIZE, PAGE_SIZE).unwrap();
    // SAFETY: allocated by alloc_pages with the same layout.
    unsafe { std::alloc::dealloc(vaddr as *mut u8, layout) };
}

impl HalState {
    pub fn fault(&mut self, kind: &str, detail: String) {
        self.faults.push((kind.to_string(), detail));
    }
    /// Moves the next DMA device address forward by `pages` pages (so that allocations start at
    /// addresses whose low page-frame bits are set).
    /// Start of the device-address window from which `share` hands out addresses (default
    /// 0x9_0000_0000). With 0 the first shared buffer gets device address 0, which is as good an
    /// I/O virtual address as any other.
    pub fn set_share_base(&mut self, base: u64) {
        self.next_share_paddr = base;
    }
    pub fn straddle_next(&mut self, pages_below: u64) {
        self.straddle = Some(pages_below);
    }
    pub fn skew_dma(&mut self, pages: u64) {
        self.next_dma_paddr += pages * PAGE_SIZE as u64;
    }
    pub fn live_dma(&self) -> impl Iterator<Item = &DmaEntry> {
        self.dma.iter().filter(|e| e.live)
    }
    pub fn live_shares(&self) -> impl Iterator<Item = &ShareEntry> {
        self.shares.iter().filter(|e| e.live)
    }
    pub fn find_share(&self, paddr: u64) -> Option<&ShareEntry> {
        self.shares.iter().rev().find(|e| e.live && e.paddr == paddr)
    }
    /// Device-side read of `len` bytes at device address `paddr`.
    pub fn dev_read(&self, paddr: u64, len: usize) -> Result<Vec<u8>, String> {
        let end = paddr.checked_add(len as u64).ok_or_else(|| format!("device address range {:#x}+{} wraps", paddr, len))?;
        for e in self.shares.iter().rev() {
            if e.live && paddr >= e.paddr && end <= e.paddr + e.len as u64 {
                if e.dir == Dir::FromDevice {
                    return Err(format!("device reads {:#x}+{} from a share mapped device-to-driver only", paddr, len));
                }
                let o = (paddr - e.paddr) as usize;
                return Ok(e.bounce[o..o + len].to_vec());
            }
        }
        for e in self.dma.iter().rev() {
            if e.live && paddr >= e.paddr && end <= e.paddr + (e.pages * PAGE_SIZE) as u64 {
                if e.dir == Dir::FromDevice {
                    return Err(format!("device reads {:#x}+{} from DMA memory allocated device-to-driver only", paddr, len));
                }
                let o = (paddr - e.paddr) as usize;
                let mut v = vec![0u8; len];
                // SAFETY: inside a live allocation made by alloc_pages.
                unsafe { std::ptr::copy_nonoverlapping((e.dev_vaddr + o) as *const u8, v.as_mut_ptr(), len) };
                return Ok(v);
            }
        }
        Err(format!("device address {:#x}+{} does not resolve to any live share or DMA allocation", paddr, len))
    }
    /// Raw look at memory behind a device address, ignoring direction (harness snapshots only).
    pub fn peek(&self, paddr: u64, len: usize) -> Option<Vec<u8>> {
        let end = paddr.checked_add(len as u64)?;
        for e in self.dma.iter().rev() {
            if e.live && paddr >= e.paddr && end <= e.paddr + (e.pages * PAGE_SIZE) as u64 {
                let o = (paddr - e.paddr) as usize;
                let mut v = vec![0u8; len];
                // SAFETY: inside a live allocation made by alloc_pages.
                unsafe { std::ptr::copy_nonoverlapping((e.dev_vaddr + o) as *const u8, v.as_mut_ptr(), len) };
                return Some(v);
            }
        }
        for e in self.shares.iter().rev() {
            if e.live && paddr >= e.paddr && end <= e.paddr + e.len as u64 {
                let o = (paddr - e.paddr) as usize;
                return Some(e.bounce[o..o + len].to_vec());
            }
        }
        None
    }
    /// Device-side write.
    pub fn dev_write(&mut self, paddr: u64, data: &[u8]) -> Result<(), String> {
        let len = data.len();
        let end = paddr.checked_add(len as u64).ok_or_else(|| format!("device address range {:#x}+{} wraps", paddr, len))?;
        for e in self.shares.iter_mut().rev() {
            if e.live && paddr >= e.paddr && end <= e.paddr + e.len as u64 {
                if e.dir == Dir::ToDevice {
                    return Err(format!("device writes {:#x}+{} to a share mapped driver-to-device only", paddr, len));
                }
                let o = (paddr - e.paddr) as usize;
                e.bounce[o..o + len].copy_from_slice(data);
                return Ok(());
            }
        }
        for e in self.dma.iter().rev() {
            if e.live && paddr >= e.paddr && end <= e.paddr + (e.pages * PAGE_SIZE) as u64 {
                if e.dir == Dir::ToDevice {
                    return Err(format!("device writes {:#x}+{} to DMA memory allocated driver-to-device only", paddr, len));
                }
                let o = (paddr - e.paddr) as usize;
                // SAFETY: inside a live allocation made by alloc_pages.
                unsafe { std::ptr::copy_nonoverlapping(data.as_ptr(), (e.dev_vaddr + o) as *mut u8, len) };
                return Ok(());
            }
        }
        Err(format!("device address {:#x}+{} does not resolve to any live share or DMA allocation", paddr, len))
    }
    /// Device-side write ignoring direction (a misbehaving device scribbling over memory it can reach).
    pub fn dev_scribble(&mut self, paddr: u64, data: &[u8]) -> bool {
        let len = data.len();
        let end = paddr + len as u64;
        for e in self.dma.iter().rev() {
            if e.live && paddr >= e.paddr && end <= e.paddr + (e.pages * PAGE_SIZE) as u64 {
                let o = (paddr - e.paddr) as usize;
                // SAFETY: inside a live allocation.
                unsafe { std::ptr::copy_nonoverlapping(data.as_ptr(), (e.dev_vaddr + o) as *mut u8, len) };
                return true;
            }
        }
        for e in self.shares.iter_mut().rev() {
            if e.live && paddr >= e.paddr && end <= e.paddr + e.len as u64 {
                let o = (paddr - e.paddr) as usize;
                e.bounce[o..o + len].copy_from_slice(data);
                return true;
            }
        }
        false
    }
    /// Which live DMA allocation wholly contains [paddr, paddr+len)?
    pub fn dma_containing(&self, paddr: u64, len: usize) -> Option<&DmaEntry> {
        let end = paddr.checked_add(len as u64)?;
        self.dma.iter().rev().find(|e| e.live && paddr >= e.paddr && end <= e.paddr + (e.pages * PAGE_SIZE) as u64)
    }
    pub fn live_share_count(&self) -> usize {
        self.shares.iter().filter(|e| e.live).count()
    }
    pub fn live_dma_count(&self) -> usize {
        self.dma.iter().filter(|e| e.live).count()
    }
    /// Live shares whose virtual range intersects [lo, hi).
    pub fn live_shares_in(&self, lo: usize, hi: usize) -> Vec<(usize, usize, Dir, u64)> {
        self.shares.iter().filter(|e| e.live && e.len > 0 && e.vaddr < hi && e.vaddr + e.len > lo).map(|e| (e.vaddr, e.len, e.dir, e.seq)).collect()
    }
    /// Drops retired entries (keeps the ledger small in long runs).
    pub fn compact(&mut self) {
        self.shares.retain(|e| e.live);
        self.log.clear();
    }
}

pub struct LabHal;

// SAFETY: dma_alloc returns page-aligned zeroed memory which stays valid until dma_dealloc; share
// returns an address distinct from every other live mapping.
unsafe impl Hal for LabHal {
    fn dma_alloc(pages: usize, direction: BufferDirection, access_platform: bool) -> (PhysAddr, NonNull<u8>) {
        HAL.with(|h| {
            let mut h = h.borrow_mut();
            let k = h.dma_calls;
            h.dma_calls += 1;
            let dir: Dir = direction.into();
            if h.fail_dma_at == Some(k) {
                h.log.push(HalEvent::DmaAlloc { paddr: 0, pages, dir, ap: access_platform, failed: true });
                return (0, NonNull::dangling());
            }
            if pages == 0 {
                h.fault("dma_alloc-zero-pages", "dma_alloc called with 0 pages".into());
            }
            let (vaddr, dev_vaddr) = if h.use_tracer_pages { crate::tracer::alloc_double_mapped(pages) } else { let v = alloc_pages(pages); (v, v) };
            // Consecutive allocations land in different 4 GiB windows of device address space, so
            // that the upper halves of the addresses of one queue's regions differ (a transport
            // mixing up the halves of two addresses is then visible).
            let window = (h.dma.len() as u64 % 7) << 32;
            let mut paddr = h.next_dma_paddr + window;
            if let Some(b) = h.straddle.take() {
                let up = (paddr + (1u64 << 32) - 1) & !((1u64 << 32) - 1);
                let mut np = up - b * PAGE_SIZE as u64;
                if np < paddr {
                    np += 1u64 << 32;
                }
                h.next_dma_paddr += np - paddr;
                paddr = np;
            }
            // Leave an unmapped guard gap between allocations in device address space.
            h.next_dma_paddr += ((pages.max(1) + 1) * PAGE_SIZE) as u64;
            h.seq += 1;
            crate::tracer::HAL_SEQ.with(|s| s.set(h.seq));
            let seq = h.seq;
            let ordinal = h.dma.len();
            h.dma.push(DmaEntry { paddr, vaddr, dev_vaddr, pages, dir, ap: access_platform, live: true, seq, ordinal });
            h.log.push(HalEvent::DmaAlloc { paddr, pages, dir, ap: access_platform, failed: false });
            (paddr, NonNull::new(vaddr as *mut u8).unwrap())
        })
    }

    unsafe fn dma_dealloc(paddr: PhysAddr, vaddr: NonNull<u8>, pages: usize, access_platform: bool) -> i32 {
        let hook = HAL.with(|h| h.borrow_mut().dealloc_hook.take());
        let mut complaint = None;
        let mut hook = hook;
        if let Some(hk) = hook.as_mut() {
            complaint = hk(paddr, pages);
        }
        HAL.with(|h| {
            let mut h = h.borrow_mut();
            if h.dealloc_hook.is_none() {
                h.dealloc_hook = hook;
            }
            if let Some((k, d)) = complaint {
                h.fault(&k, d);
            }
            h.seq += 1;
            crate::tracer::HAL_SEQ.with(|s| s.set(h.seq));
            h.log.push(HalEvent::DmaDealloc { paddr, vaddr: vaddr.as_ptr() as usize, pages, ap: access_platform });
            let idx = h.dma.iter().position(|e| e.live && e.paddr == paddr);
            match idx {
                None => {
                    let was = h.dma.iter().any(|e| e.paddr == paddr);
                    if was {
                        h.fault("dma-double-free", format!("dma_dealloc({:#x}) of a region that was already returned", paddr));
                    } else {
                        h.fault("dma-unknown-free", format!("dma_dealloc({:#x}) of an address that was never allocated", paddr));
                    }
                }
                Some(i) => {
                    let (ev, ep, ea) = (h.dma[i].vaddr, h.dma[i].pages, h.dma[i].ap);
                    let edv = h.dma[i].dev_vaddr;
                    if ev != vaddr.as_ptr() as usize || ep != pages || ea != access_platform {
                        h.fault(
                            "dma-free-mismatch",
                            format!("dma_dealloc({:#x}, vaddr {:#x}, pages {}, ap {}) but allocated as (vaddr {:#x}, pages {}, ap {})", paddr, vaddr.as_ptr() as usize, pages, access_platform, ev, ep, ea),
                        );
                    }
                    h.dma[i].live = false;
                    if edv != ev {
                        crate::tracer::free_double_mapped(ev, edv, ep);
                    } else {
                        free_pages(ev, ep);
                    }
                }
            }
            0
        })
    }

    unsafe fn mmio_phys_to_virt(paddr: PhysAddr, size: usize) -> NonNull<u8> {
        HAL.with(|h| {
            let mut h = h.borrow_mut();
            let idx = h.mmio_maps.len();
            let vaddr = MMIO_VADDR_BASE + idx * MMIO_VADDR_STRIDE + (paddr & 0xfff) as usize + h.mmio_skew;
            h.mmio_maps.push((paddr, size, vaddr));
            h.log.push(HalEvent::MmioMap { paddr, size, vaddr });
            NonNull::new(vaddr as *mut u8).unwrap()
        })
    }

    unsafe fn share(buffer: NonNull<[u8]>, direction: BufferDirection, access_platform: bool) -> PhysAddr {
        HAL.with(|h| {
            let mut h = h.borrow_mut();
            let dir: Dir = direction.into();
            let vaddr = buffer.as_ptr() as *mut u8 as usize;
            let len = buffer.len();
            if dir == Dir::Both {
                h.fault("share-both", format!("share({:#x}+{}) with direction Both", vaddr, len));
            }
            // Overlapping live share of the same virtual range is suspicious but legal for
            // read-only buffers; record only exact duplicates of writable ranges.
            let mut bounce = vec![0xA5u8; len];
            if dir != Dir::FromDevice && len > 0 {
                // SAFETY: the driver promises the buffer is valid for reads for len bytes.
                unsafe { std::ptr::copy_nonoverlapping(vaddr as *const u8, bounce.as_mut_ptr(), len) };
            }
            let paddr = h.next_share_paddr;
            h.next_share_paddr += ((len as u64 + 15) & !15) + 0x40;
            h.seq += 1;
            crate::tracer::HAL_SEQ.with(|s| s.set(h.seq));
            let seq = h.seq;
            // (For device-readable buffers the same comparison shows a buffer that is rewritten
            // while a request that names it is still with the device.)
            let orig = if h.watch_writes && len > 0 {
                // SAFETY: the driver promises the buffer is valid for len bytes.
                Some(unsafe { std::slice::from_raw_parts(vaddr as *const u8, len) }.to_vec())
            } else {
                None
            };
            h.shares.push(ShareEntry { paddr, vaddr, len, dir, ap: access_platform, live: true, seq, bounce, orig });
            h.log.push(HalEvent::Share { paddr, vaddr, len, dir, ap: access_platform });
            paddr
        })
    }

    unsafe fn unshare(paddr: PhysAddr, buffer: NonNull<[u8]>, direction: BufferDirection, access_platform: bool) {
        HAL.with(|h| {
            let mut h = h.borrow_mut();
            let dir: Dir = direction.into();
            let vaddr = buffer.as_ptr() as *mut u8 as usize;
            let len = buffer.len();
            h.seq += 1;
            crate::tracer::HAL_SEQ.with(|s| s.set(h.seq));
            h.log.push(HalEvent::Unshare { paddr, vaddr, len, dir, ap: access_platform });
            let idx = h.shares.iter().position(|e| e.live && e.paddr == paddr);
            match idx {
                None => {
                    let was = h.shares.iter().any(|e| e.paddr == paddr);
                    if was {
                        h.fault("unshare-double", format!("unshare({:#x}) of a mapping that was already unshared", paddr));
                    } else {
                        h.fault("unshare-unknown", format!("unshare({:#x}) of an address never returned by share", paddr));
                    }
                }
                Some(i) => {
                    let e = &h.shares[i];
                    if e.vaddr != vaddr || e.len != len || e.dir != dir || e.ap != access_platform {
                        let d = format!(
                            "unshare({:#x}, buf {:#x}+{}, {:?}, ap {}) but shared as (buf {:#x}+{}, {:?}, ap {})",
                            paddr, vaddr, len, dir, access_platform, e.vaddr, e.len, e.dir, e.ap
                        );
                        h.fault("unshare-mismatch", d);
                        h.shares[i].live = false;
                    } else {
                        if let Some(orig) = e.orig.as_ref() {
                            // SAFETY: the driver promises the buffer is valid for len bytes.
                            let now = unsafe { std::slice::from_raw_parts(vaddr as *const u8, len) };
                            if now != &orig[..] {
                                let at = now.iter().zip(orig.iter()).position(|(a, b)| a != b).unwrap_or(0);
                                let d = if dir == Dir::ToDevice {
                                    format!("device-readable buffer {:#x}+{} was rewritten while it was shared with the device (first difference at byte {}: {:#x} -> {:#x}); with in-place DMA a device that reads it late finds the new content", vaddr, len, at, orig[at], now[at])
                                } else {
                                    format!("device-writable buffer {:#x}+{} was written by the driver while it was shared with the device (first difference at byte {}: {:#x} -> {:#x}); with in-place DMA the driver would have overwritten what the device wrote", vaddr, len, at, orig[at], now[at])
                                };
                                h.fault("buffer-written-while-shared", d);
                            }
                        }
                        let e = &h.shares[i];
                        if dir != Dir::ToDevice && len > 0 {
                            // SAFETY: the driver promises the buffer is valid for writes.
                            unsafe { std::ptr::copy_nonoverlapping(e.bounce.as_ptr(), vaddr as *mut u8, len) };
                        }
                        let e = &mut h.shares[i];
                        e.live = false;
                        for b in e.bounce.iter_mut() {
                            *b = 0xDD;
                        }
                    }
                }
            }
        })
    }
}

/// Bounds [lo, hi) of the calling thread's stack.
pub fn stack_bounds() -> (usize, usize) {
    thread_local! {
        static B: std::cell::Cell<(usize, usize)> = const { std::cell::Cell::new((0, 0)) };
    }
    B.with(|b| {
        if b.get() == (0, 0) {
            // SAFETY: plain libc queries on the calling thread.
            unsafe {
                let mut attr: libc::pthread_attr_t = std::mem::zeroed();
                if libc::pthread_getattr_np(libc::pthread_self(), &mut attr) == 0 {
                    let mut addr: *mut libc::c_void = std::ptr::null_mut();
                    let mut size: libc::size_t = 0;
                    libc::pthread_attr_getstack(&attr, &mut addr, &mut size);
                    libc::pthread_attr_destroy(&mut attr);
                    b.set((addr as usize, addr as usize + size));
                }
            }
        }
        b.get()
    })
}

/// The stack pointer of the frame in which the macro is expanded: everything below it belongs to
/// frames that have returned.
#[macro_export]
macro_rules! current_sp {
    () => {{
        let sp: usize;
        // SAFETY: reads a register.
        unsafe { core::arch::asm!("mov {}, rsp", out(reg) sp, options(nomem, nostack, preserves_flags)) };
        sp
    }};
}
pub use current_sp;

/// Live shares that point into the dead part of this thread's stack (below `sp`): buffers of
/// stack frames which no longer exist but which the device may still read or write.
pub fn dangling_stack_shares(sp: usize) -> Vec<(usize, usize, Dir, u64)> {
    let (lo, hi) = stack_bounds();
    if lo == 0 || sp <= lo || sp > hi {
        return vec![];
    }
    with(|h| h.live_shares_in(lo, sp))
}
