//! C17: socket streams are loss-free and obey credit-based flow control both ways.

use crate::cosim;
use crate::drivers::{DWorld, Kind, TKind, TransportVisitor, F_EVENT_IDX, F_INDIRECT, F_VERSION_1, VSOCK_RX};
use crate::engine::chooser::{choose, obs, report, tag};
use crate::engine::Violation;
use crate::hal::{self, LabHal};
use crate::mmio;
use crate::tlog;
use crate::vsock_ref::*;
use std::collections::VecDeque;
use virtio_drivers::device::socket::{SocketError, VirtIOSocket, VsockAddr, VsockConnectionManager, VsockEventType};
use virtio_drivers::transport::Transport;
use virtio_drivers::Error;

fn viol(kind: &str, d: String) {
    report(Violation::new("C17", kind, d));
}

pub const GUEST_CID: u64 = 0x0000_0001_0000_0003;
pub const PEER: VsockAddr = VsockAddr { cid: 2, port: 80 };
pub const LPORT: u32 = 1234;

fn sbyte(i: u64) -> u8 {
    (i % 249) as u8 + 3
}

/// `RX` is the size of the receive buffers the driver posts (a const generic of the driver): 64
/// in most parts, 2048 in the large-buffer part where packets of several hundred bytes flow.
struct V<const RX: usize> {
    depth: usize,
    cap: u32,
    preset: (u32, u32),
    /// Ring-buffer mode: a reduced alphabet (peer data of 1, 2, cap bytes polled at once; recv of
    /// 1, 2, cap bytes; update_credit) that reaches every (start, used) state of the per-connection
    /// receive ring with every read and write length, including reads and writes that wrap.
    ring: bool,
}

#[derive(Clone, Debug)]
struct Pending {
    h: Hdr,
    payload: Vec<u8>,
}

impl<const RX: usize> TransportVisitor for V<RX> {
    type Out = ();
    fn visit<T: Transport + 'static>(self, t: T, w: &DWorld) {
        let dev = make_device(w);
        cosim::install(&dev.co);
        let sock = match VirtIOSocket::<LabHal, T, RX>::new(t) {
            Ok(s) => s,
            Err(e) => {
                viol("construction", format!("{:?}", e));
                cosim::uninstall();
                return;
            }
        };
        let cap = self.cap;
        let mut cm = VsockConnectionManager::new_with_capacity(sock, cap);
        // Establish the connection.
        if let Err(e) = cm.connect(PEER, LPORT) {
            viol("connect", format!("{:?}", e));
        }
        let (tx0, fwd0) = self.preset;
        // Peer state.
        let mut p_buf_alloc: u32 = 4;
        let mut p_rx_total: u32 = tx0; // bytes received from the driver
        let mut p_fwd: u32 = tx0; // bytes the peer has consumed
        let mut p_tx_total: u32 = fwd0; // bytes sent to the driver
        let mut p_stream_pos: u64 = 0; // absolute position of the peer's byte stream
        let mut seen_d_buf_alloc: u32;
        let mut seen_d_fwd: u32;
        let peer_hdr = |op: u16, len: u32, buf_alloc: u32, fwd: u32| Hdr { src_cid: PEER.cid, dst_cid: GUEST_CID, src_port: PEER.port, dst_port: LPORT, len, typ: 1, op, flags: 0, buf_alloc, fwd_cnt: fwd };
        dev.deliver(0, &peer_hdr(OP_RESPONSE, 0, p_buf_alloc, p_fwd), &[]);
        match cm.poll() {
            Ok(Some(ev)) if ev.event_type == VsockEventType::Connected => {}
            other => viol("connect", format!("poll after RESPONSE -> {:?}", other)),
        }
        if cm.verif_set_counters(PEER, LPORT, tx0, fwd0).is_err() {
            viol("connect", "connection not found after RESPONSE".into());
        }
        {
            let tx = dev.tx.borrow();
            if tx.len() != 1 || tx[0].0.op != OP_REQUEST {
                viol("connect-packet", format!("connect emitted {:?}", tx.iter().map(|p| p.0.op).collect::<Vec<_>>()));
            }
        }
        seen_d_buf_alloc = cap;
        seen_d_fwd = fwd0;
        // Model of what the driver knows and has done.
        let mut k_buf_alloc = p_buf_alloc; // peer credit as last *polled* by the driver
        let mut k_fwd = p_fwd;
        let mut d_tx_total: u32 = tx0;
        let mut d_read_total: u32 = fwd0;
        let mut d_read_pos: u64 = 0; // absolute stream position read so far
        let mut ring_used: u32 = 0;
        let mut credit_request_pending = false;
        let mut inbox: VecDeque<Pending> = VecDeque::new(); // delivered, not yet polled
        let mut out_pos: u64 = 0; // absolute position of the driver's outgoing stream
        let mut peer_rx_pos: u64 = 0;
        let mut tx_seen = dev.tx.borrow().len();
        let large = RX > 512;
        let send_lens = if large { [0u32, 1, 469, cap] } else { [0u32, 1, 2, cap] };
        let recv_lens = if large {
            [1usize, 500, cap as usize]
        } else if self.ring {
            [1usize, 2, cap as usize]
        } else {
            [1usize, 3, cap as usize]
        };
        let peer_lens = if large {
            // Just below and above the default buffer's payload limit (468), and a full buffer.
            [468u32, 469, (RX - HDR_LEN) as u32]
        } else if self.ring {
            [1u32, 2, cap]
        } else {
            [1u32, 3, cap]
        };
        let mut forced: Option<usize> = None;
        // The peer has shut the connection down while data was still buffered.
        let mut shutdown_pending = false;
        let mut closed = false;
        let mut budget = self.depth;
        for step in 0..self.depth * 2 {
            let op = if let Some(f) = forced.take() {
                f
            } else {
                if budget == 0 {
                    break;
                }
                budget -= 1;
                if self.ring {
                    [9usize, 10, 11, 4, 5, 6, 7, 16][choose(8, "vsock operation (ring-buffer alphabet)")]
                } else {
                    choose(17, "vsock operation")
                }
            };
            if shutdown_pending && !(4..=6).contains(&op) {
                // After the peer's shutdown only the buffered data is left to read.
                tag("skip:after-peer-shutdown");
                continue;
            }
            let expect_packets: Vec<(u16, Vec<u8>)>;
            match op {
                0..=3 => {
                    let len = send_lens[op];
                    let data: Vec<u8> = (0..len as u64).map(|i| sbyte(out_pos + i)).collect();
                    let in_flight = d_tx_total.wrapping_sub(k_fwd);
                    let free = k_buf_alloc.saturating_sub(in_flight);
                    let r = crate::util::catch(|| cm.send(PEER, LPORT, &data));
                    tlog!("step {}: send({}) with peer free {} (buf_alloc {}, in flight {}) -> {:?}", step, len, free, k_buf_alloc, in_flight, r);
                    if len <= free {
                        tag("send:ok");
                        if !matches!(r, Ok(Ok(()))) {
                            viol("send-refused", format!("send of {} bytes with {} bytes of peer credit (buf_alloc {}, in flight {}) -> {:?}", len, free, k_buf_alloc, in_flight, r));
                            expect_packets = vec![];
                        } else {
                            expect_packets = vec![(OP_RW, data.clone())];
                            d_tx_total = d_tx_total.wrapping_add(len);
                            out_pos += len as u64;
                        }
                    } else {
                        tag("send:refused");
                        match r {
                            Ok(Err(Error::SocketDeviceError(SocketError::InsufficientBufferSpaceInPeer))) => {}
                            other => viol("credit-overrun", format!("send of {} bytes with only {} bytes of peer credit (buf_alloc {}, in flight {}) -> {:?}; must be refused with InsufficientBufferSpaceInPeer", len, free, k_buf_alloc, in_flight, other)),
                        }
                        expect_packets = if credit_request_pending { vec![] } else { vec![(OP_CREDIT_REQUEST, vec![])] };
                        credit_request_pending = true;
                    }
                }
                4..=6 => {
                    let n = recv_lens[op - 4];
                    let mut buf = vec![0u8; n];
                    let r = crate::util::catch(|| cm.recv(PEER, LPORT, &mut buf));
                    let want = (ring_used as usize).min(n);
                    tlog!("step {}: recv({}) with {} buffered -> {:?}", step, n, ring_used, r);
                    tag("recv");
                    match r {
                        Ok(Ok(k)) => {
                            if k != want {
                                viol("recv-count", format!("recv({}) returned {} bytes with {} buffered", n, k, ring_used));
                            }
                            for i in 0..k.min(want) {
                                if buf[i] != sbyte(d_read_pos + i as u64) {
                                    viol("recv-data", format!("recv returned byte {:#x} at stream position {}, the peer sent {:#x}", buf[i], d_read_pos + i as u64, sbyte(d_read_pos + i as u64)));
                                    break;
                                }
                            }
                            d_read_pos += k as u64;
                            d_read_total = d_read_total.wrapping_add(k as u32);
                            ring_used -= (k as u32).min(ring_used);
                        }
                        other => viol("recv-error", format!("recv({}) -> {:?}", n, other)),
                    }
                    if shutdown_pending && ring_used == 0 {
                        // Drained after the peer's shutdown: the connection is closed with a reset
                        // that carries the final forwarded-byte count like every other packet.
                        expect_packets = vec![(OP_RST, vec![])];
                        closed = true;
                    } else {
                        expect_packets = vec![];
                    }
                }
                7 => {
                    let r = crate::util::catch(|| cm.update_credit(PEER, LPORT));
                    tag("update_credit");
                    if !matches!(r, Ok(Ok(()))) {
                        viol("update_credit", format!("{:?}", r));
                    }
                    expect_packets = vec![(OP_CREDIT_UPDATE, vec![])];
                }
                8 => {
                    let r = crate::util::catch(|| cm.poll());
                    tlog!("step {}: poll with {} packets pending -> {:?}", step, inbox.len(), r);
                    match inbox.pop_front() {
                        None => {
                            tag("poll:empty");
                            if !matches!(r, Ok(Ok(None))) {
                                viol("poll", format!("poll with nothing delivered -> {:?}", r));
                            }
                            expect_packets = vec![];
                        }
                        Some(p) => {
                            k_buf_alloc = p.h.buf_alloc;
                            k_fwd = p.h.fwd_cnt;
                            match p.h.op {
                                OP_RW => {
                                    tag("poll:rw");
                                    ring_used += p.payload.len() as u32;
                                    match r {
                                        Ok(Ok(Some(ev))) if ev.event_type == VsockEventType::Received { length: p.payload.len() } => {}
                                        other => viol("poll-event", format!("poll of an RW packet with {} bytes (honouring the advertised credit) -> {:?}", p.payload.len(), other)),
                                    }
                                    expect_packets = vec![];
                                }
                                OP_CREDIT_UPDATE => {
                                    tag("poll:credit-update");
                                    credit_request_pending = false;
                                    if !matches!(&r, Ok(Ok(Some(ev))) if ev.event_type == VsockEventType::CreditUpdate) {
                                        viol("poll-event", format!("poll of CREDIT_UPDATE -> {:?}", r));
                                    }
                                    expect_packets = vec![];
                                }
                                _ => {
                                    tag("poll:credit-request");
                                    if !matches!(r, Ok(Ok(None))) {
                                        viol("poll-event", format!("poll of CREDIT_REQUEST -> {:?}", r));
                                    }
                                    expect_packets = vec![(OP_CREDIT_UPDATE, vec![])];
                                }
                            }
                        }
                    }
                }
                9..=11 => {
                    // Peer data, only within the credit the driver advertised.
                    let len = peer_lens[op - 9];
                    let credit = seen_d_buf_alloc.saturating_sub(p_tx_total.wrapping_sub(seen_d_fwd));
                    if len > credit || len as usize > RX - HDR_LEN || dev.posted() == 0 {
                        tag("peer:rw-not-allowed");
                        continue;
                    }
                    let payload: Vec<u8> = (0..len as u64).map(|i| sbyte(p_stream_pos + i)).collect();
                    // Like every packet of a real peer, a data packet carries the peer's current
                    // counters: credit is refreshed by data packets too, not only by updates.
                    p_fwd = p_rx_total;
                    let h = peer_hdr(OP_RW, len, p_buf_alloc, p_fwd);
                    dev.deliver(0, &h, &payload);
                    p_stream_pos += len as u64;
                    p_tx_total = p_tx_total.wrapping_add(len);
                    inbox.push_back(Pending { h, payload });
                    tag("peer:rw");
                    if self.ring {
                        forced = Some(8);
                    }
                    tlog!("step {}: peer sends {} bytes (credit {})", step, len, credit);
                    expect_packets = vec![];
                }
                12..=14 => {
                    if dev.posted() == 0 {
                        continue;
                    }
                    match op {
                        12 => p_fwd = p_rx_total,
                        // (The first shrink leaves one byte, the next one closes the window.)
                        13 => p_buf_alloc = if p_buf_alloc == 1 { 0 } else { 1 },
                        _ => p_buf_alloc = 8,
                    }
                    let h = peer_hdr(OP_CREDIT_UPDATE, 0, p_buf_alloc, p_fwd);
                    dev.deliver(0, &h, &[]);
                    inbox.push_back(Pending { h, payload: vec![] });
                    tag("peer:credit-update");
                    tlog!("step {}: peer credit update buf_alloc {} fwd_cnt {}", step, p_buf_alloc, p_fwd);
                    expect_packets = vec![];
                }
                16 => {
                    // The peer shuts the connection down (both directions); polled at once.
                    if dev.posted() == 0 || !inbox.is_empty() {
                        continue;
                    }
                    // ... or resets it: what the peer sent before stays readable all the same.
                    let rst = choose(2, "peer ends the connection with SHUTDOWN or RST") == 1;
                    let mut h = peer_hdr(if rst { OP_RST } else { OP_SHUTDOWN }, 0, p_buf_alloc, p_fwd);
                    h.flags = if rst { 0 } else { 3 };
                    dev.deliver(0, &h, &[]);
                    let r = crate::util::catch(|| cm.poll());
                    tag(if rst { "peer:reset" } else { "peer:shutdown" });
                    tlog!("step {}: peer {} with {} bytes buffered -> {:?}", step, if rst { "RST" } else { "SHUTDOWN" }, ring_used, r);
                    k_buf_alloc = h.buf_alloc;
                    k_fwd = h.fwd_cnt;
                    if !matches!(&r, Ok(Ok(Some(ev))) if matches!(ev.event_type, VsockEventType::Disconnected { .. })) {
                        viol("poll-event", format!("poll of {} -> {:?}", if rst { "RST" } else { "SHUTDOWN" }, r));
                    }
                    if ring_used == 0 {
                        // A shutdown is acknowledged with a reset; a reset needs no answer.
                        expect_packets = if rst { vec![] } else { vec![(OP_RST, vec![])] };
                        closed = true;
                    } else {
                        shutdown_pending = true;
                        expect_packets = vec![];
                    }
                }
                _ => {
                    if dev.posted() == 0 {
                        continue;
                    }
                    let h = peer_hdr(OP_CREDIT_REQUEST, 0, p_buf_alloc, p_fwd);
                    dev.deliver(0, &h, &[]);
                    inbox.push_back(Pending { h, payload: vec![] });
                    tag("peer:credit-request");
                    expect_packets = vec![];
                }
            }
            // Packets the driver emitted in this step.
            let new: Vec<(Hdr, Vec<u8>)> = dev.tx.borrow()[tx_seen..].to_vec();
            tx_seen += new.len();
            let got: Vec<(u16, Vec<u8>)> = new.iter().map(|(h, p)| (h.op, p.clone())).collect();
            if got != expect_packets {
                let k = if got.iter().filter(|g| g.0 == OP_CREDIT_REQUEST).count() != expect_packets.iter().filter(|g| g.0 == OP_CREDIT_REQUEST).count() { "credit-request-count" } else { "packets-emitted" };
                viol(k, format!("step emitted packets {:?}, expected {:?}", got.iter().map(|g| (g.0, g.1.len())).collect::<Vec<_>>(), expect_packets.iter().map(|g| (g.0, g.1.len())).collect::<Vec<_>>()));
            }
            for (h, payload) in &new {
                if h.src_cid != GUEST_CID || h.dst_cid != PEER.cid || h.src_port != LPORT || h.dst_port != PEER.port || h.typ != 1 || h.len as usize != payload.len() {
                    viol("header-addressing", format!("packet header {:?} for connection guest:{} -> {:?}", h, LPORT, PEER));
                }
                if h.buf_alloc != cap {
                    viol("header-buf-alloc", format!("packet advertises buf_alloc {} but the connection's buffer capacity is {}", h.buf_alloc, cap));
                }
                if h.fwd_cnt != d_read_total {
                    viol("header-fwd-cnt", format!("packet advertises fwd_cnt {:#x} but the caller has read {:#x} bytes (free-running 32-bit count)", h.fwd_cnt, d_read_total));
                }
                // Advertised credit never overstates the free receive space.
                let unread_at_peer_view = p_tx_total.wrapping_sub(h.fwd_cnt);
                if h.buf_alloc.saturating_sub(unread_at_peer_view) > cap - ring_used.min(cap) + (inbox.iter().map(|p| p.payload.len() as u32).sum::<u32>()).min(cap) {
                    viol("credit-overstated", format!("advertised credit {} exceeds the free receive space", h.buf_alloc.saturating_sub(unread_at_peer_view)));
                }
                if h.op == OP_RW {
                    // The peer checks what it receives.
                    for (i, b) in payload.iter().enumerate() {
                        if *b != sbyte(peer_rx_pos + i as u64) {
                            viol("tx-data", format!("peer received byte {:#x} at stream position {}", b, peer_rx_pos + i as u64));
                            break;
                        }
                    }
                    peer_rx_pos += payload.len() as u64;
                    p_rx_total = p_rx_total.wrapping_add(payload.len() as u32);
                    // Bytes in flight never exceed the peer's real buffer as it last advertised.
                    let unconsumed = p_rx_total.wrapping_sub(k_fwd);
                    if !payload.is_empty() && unconsumed > k_buf_alloc {
                        viol("credit-overrun", format!("{} bytes in flight towards the peer exceed the {} bytes it last advertised", unconsumed, k_buf_alloc));
                    }
                }
                seen_d_buf_alloc = h.buf_alloc;
                seen_d_fwd = h.fwd_cnt;
            }
            for e in dev.malformed.borrow_mut().drain(..) {
                viol("packet-malformed", e);
            }
            for e in dev.co.borrow_mut().errors.drain(..) {
                viol("chain-malformed", e);
            }
            if closed {
                if cm.recv_buffer_available_bytes(PEER, LPORT).is_ok() {
                    viol("connection-not-closed", "the connection still exists after the reset that completes the peer's shutdown".into());
                }
                tag("closed-after-peer-shutdown");
                break;
            }
            let rb = cm.recv_buffer_available_bytes(PEER, LPORT);
            if rb != Ok(ring_used as usize) {
                viol("buffered-bytes", format!("recv_buffer_available_bytes = {:?}, model {}", rb, ring_used));
            }
            obs((d_tx_total as u64) << 32 | (d_read_total as u64));
            obs((ring_used as u64) << 8 | inbox.len() as u64 | (k_buf_alloc as u64) << 16);
            if crate::engine::chooser::has_violation() {
                break;
            }
        }
        drop(cm);
        cosim::uninstall();
    }
}

pub const PRESETS: [(u32, u32); 4] = [(0, 0), (u32::MAX - 1, u32::MAX - 2), (u32::MAX, u32::MAX), (0x7fff_ffff, 0x8000_0000)];

pub fn run(tkind: TKind, depth: usize, cap: u32) {
    run_mode(tkind, depth, cap, false)
}

/// Receive buffers of 2048 bytes, a connection buffer of 2048 bytes, peer packets of 468, 469 and
/// 2004 bytes: sizes for which a receive-buffer size other than the default matters.
pub fn run_large(tkind: TKind, depth: usize) {
    hal::reset();
    // (The device also offers socket-type feature bits: SEQPACKET alone - as Linux vhost-vsock
    // does - resp. STREAM and SEQPACKET. The driver is a byte-stream driver whatever is offered.)
    let feats = [F_VERSION_1 | 2, F_VERSION_1 | F_INDIRECT | F_EVENT_IDX | 1 | 2];
    let offered = feats[choose(feats.len(), "offered features")];
    let preset = [PRESETS[0], PRESETS[1]][choose(2, "counter preset")];
    let mut cfg = vec![0u8; 8];
    cfg.copy_from_slice(&GUEST_CID.to_le_bytes());
    let w = DWorld::new(Kind::Socket, tkind, offered, cfg);
    w.with_transport(V::<2048> { depth, cap: 2048, preset, ring: false });
    mmio::set_handler(None);
}

pub fn run_mode(tkind: TKind, depth: usize, cap: u32, ring: bool) {
    hal::reset();
    let feats = [F_VERSION_1, F_VERSION_1 | F_INDIRECT | F_EVENT_IDX];
    let offered = feats[choose(feats.len(), "offered features")];
    let preset = PRESETS[choose(PRESETS.len(), "counter preset")];
    let mut cfg = vec![0u8; 8];
    cfg.copy_from_slice(&GUEST_CID.to_le_bytes());
    let w = DWorld::new(Kind::Socket, tkind, offered, cfg);
    w.with_transport(V::<VSOCK_RX> { depth, cap, preset, ring });
    mmio::set_handler(None);
}

// ------------------------------------------------------------------------------------------------
// A large per-connection buffer: the caller chooses the capacity, the driver advertises it, and a
// peer that honours the advertisement fills it completely before anything is read.

pub fn run_big_capacity(tkind: TKind, cap: u32) -> (u64, Vec<(String, String)>) {
    struct VB {
        cap: u32,
    }
    impl TransportVisitor for VB {
        type Out = (u64, Vec<(String, String)>);
        fn visit<T: Transport + 'static>(self, t: T, w: &DWorld) -> Self::Out {
            const RX: usize = 2048;
            let mut out: Vec<(String, String)> = vec![];
            let dev = make_device(w);
            cosim::install(&dev.co);
            let sock = match VirtIOSocket::<LabHal, T, RX>::new(t) {
                Ok(s) => s,
                Err(e) => {
                    cosim::uninstall();
                    return (0, vec![("construction".into(), format!("{:?}", e))]);
                }
            };
            let cap = self.cap;
            let mut cm = VsockConnectionManager::new_with_capacity(sock, cap);
            let _ = cm.connect(PEER, LPORT);
            let peer_hdr = |op: u16, len: u32, fwd: u32| Hdr { src_cid: PEER.cid, dst_cid: GUEST_CID, src_port: PEER.port, dst_port: LPORT, len, typ: 1, op, flags: 0, buf_alloc: 4096, fwd_cnt: fwd };
            dev.deliver(0, &peer_hdr(OP_RESPONSE, 0, 0), &[]);
            let _ = cm.poll();
            let advertised = dev.tx.borrow().first().map(|p| p.0.buf_alloc).unwrap_or(0);
            if advertised != cap {
                out.push(("header-buf-alloc".into(), format!("the connection request advertises buf_alloc {} for a connection created with a capacity of {}", advertised, cap)));
            }
            // The peer sends until the advertised credit is used up.
            let mut sent: u64 = 0;
            let mut n = 0u64;
            while sent < advertised as u64 {
                let len = (RX - HDR_LEN).min((advertised as u64 - sent) as usize);
                let payload: Vec<u8> = (0..len as u64).map(|i| sbyte(sent + i)).collect();
                if dev.deliver(0, &peer_hdr(OP_RW, len as u32, 0), &payload).is_none() {
                    out.push(("no-receive-buffer".into(), format!("no receive buffer posted after {} bytes", sent)));
                    break;
                }
                match crate::util::catch(|| cm.poll()) {
                    Ok(Ok(Some(ev))) if ev.event_type == VsockEventType::Received { length: len } => {}
                    other => {
                        out.push(("poll-event".into(), format!("data within the advertised credit ({} of {} bytes so far, packet of {}) -> {:?}", sent, advertised, len, other)));
                        break;
                    }
                }
                sent += len as u64;
                n += 1;
                if n % 16 == 0 {
                    hal::with(|h| h.compact());
                    dev.co.borrow_mut().served.clear();
                }
            }
            if out.is_empty() {
                match cm.recv_buffer_available_bytes(PEER, LPORT) {
                    Ok(b) if b as u64 == sent => {}
                    other => out.push(("buffered-bytes".into(), format!("recv_buffer_available_bytes -> {:?} after {} bytes were delivered", other, sent))),
                }
                // Everything comes back, in order.
                let mut pos = 0u64;
                let mut buf = vec![0u8; 4099];
                while pos < sent {
                    match crate::util::catch(|| cm.recv(PEER, LPORT, &mut buf)) {
                        Ok(Ok(k)) if k > 0 => {
                            if (0..k).any(|i| buf[i] != sbyte(pos + i as u64)) {
                                out.push(("recv-data".into(), format!("bytes read at stream position {} differ from what the peer sent", pos)));
                                break;
                            }
                            pos += k as u64;
                        }
                        other => {
                            out.push(("recv-data".into(), format!("recv at stream position {} of {} -> {:?}", pos, sent, other)));
                            break;
                        }
                    }
                }
            }
            drop(cm);
            cosim::uninstall();
            (n, out)
        }
    }
    hal::reset();
    let mut cfg = vec![0u8; 8];
    cfg.copy_from_slice(&GUEST_CID.to_le_bytes());
    let w = DWorld::new(Kind::Socket, tkind, F_VERSION_1, cfg);
    let r = w.with_transport(VB { cap });
    mmio::set_handler(None);
    r
}

// ------------------------------------------------------------------------------------------------
// A connection that is closed with unread data, and the next one between the same endpoints: the
// new connection starts with an empty buffer and its whole advertised credit is usable.

pub fn run_reconnect(tkind: TKind, cap: u32) -> (u64, Vec<(String, String)>) {
    struct VR {
        cap: u32,
    }
    impl TransportVisitor for VR {
        type Out = (u64, Vec<(String, String)>);
        fn visit<T: Transport + 'static>(self, t: T, w: &DWorld) -> Self::Out {
            let mut out: Vec<(String, String)> = vec![];
            let dev = make_device(w);
            cosim::install(&dev.co);
            let sock = match VirtIOSocket::<LabHal, T, VSOCK_RX>::new(t) {
                Ok(s) => s,
                Err(e) => {
                    cosim::uninstall();
                    return (0, vec![("construction".into(), format!("{:?}", e))]);
                }
            };
            let cap = self.cap;
            let mut cm = VsockConnectionManager::new_with_capacity(sock, cap);
            let peer_hdr = |op: u16, len: u32| Hdr { src_cid: PEER.cid, dst_cid: GUEST_CID, src_port: PEER.port, dst_port: LPORT, len, typ: 1, op, flags: 0, buf_alloc: 64, fwd_cnt: 0 };
            let mut n = 0u64;
            for round in 0..3u32 {
                let _ = cm.connect(PEER, LPORT);
                dev.deliver(0, &peer_hdr(OP_RESPONSE, 0), &[]);
                let _ = cm.poll();
                match cm.recv_buffer_available_bytes(PEER, LPORT) {
                    Ok(0) => {}
                    other => {
                        out.push(("buffered-bytes".into(), format!("round {}: a new connection reports {:?} buffered bytes before its peer has sent anything", round, other)));
                        break;
                    }
                }
                // The peer uses the whole advertised credit, in packets of up to 5 bytes.
                let mut sent = 0u32;
                let mut ok = true;
                while sent < cap {
                    let len = (cap - sent).min(5);
                    let payload: Vec<u8> = (0..len).map(|i| sbyte((round * 1000 + sent + i) as u64)).collect();
                    dev.deliver(0, &peer_hdr(OP_RW, len), &payload);
                    match crate::util::catch(|| cm.poll()) {
                        Ok(Ok(Some(ev))) if ev.event_type == VsockEventType::Received { length: len as usize } => {}
                        other => {
                            out.push(("poll-event".into(), format!("round {}: data within the advertised credit ({} of {} bytes so far, packet of {}) -> {:?}", round, sent, cap, len, other)));
                            ok = false;
                            break;
                        }
                    }
                    sent += len;
                    n += 1;
                }
                if !ok {
                    break;
                }
                // Part of it is read (and must be what was sent), then the connection is closed.
                let k = (cap as usize / 2).max(1).min(cap as usize - 1).max(1);
                let mut buf = vec![0u8; k];
                match crate::util::catch(|| cm.recv(PEER, LPORT, &mut buf)) {
                    Ok(Ok(r)) if r == k.min(cap as usize) && (0..r).all(|i| buf[i] == sbyte((round * 1000) as u64 + i as u64)) => {}
                    other => {
                        out.push(("recv-data".into(), format!("round {}: recv({}) -> {:?} {:?}", round, k, other, buf)));
                        break;
                    }
                }
                if cm.force_close(PEER, LPORT).is_err() {
                    out.push(("force_close".into(), format!("round {}: force_close failed", round)));
                    break;
                }
            }
            drop(cm);
            cosim::uninstall();
            (n, out)
        }
    }
    hal::reset();
    let mut cfg = vec![0u8; 8];
    cfg.copy_from_slice(&GUEST_CID.to_le_bytes());
    let w = DWorld::new(Kind::Socket, tkind, F_VERSION_1, cfg);
    let r = w.with_transport(VR { cap });
    mmio::set_handler(None);
    r
}
