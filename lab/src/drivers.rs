//! Driver-level infrastructure: the device kinds, their configuration spaces, and the four
//! transports every driver harness is instantiated over.

use crate::c11::{self, VCap};
use crate::c12::{layout_caps, new_bus, DF};
use crate::dev::{DevRc, ModelTransport, VirtioDev};
use crate::hal::{self, LabHal};
use crate::mmio;
use crate::pci_model::{BarKind, BusRc, ModelCam, PciFunc};
use crate::regdev::{MmioRegs, PciLayout, PciRegs, RegWorld, Trace, MMIO_DEV_BASE};
use std::cell::RefCell;
use std::ptr::NonNull;
use std::rc::Rc;
use virtio_drivers::device::blk::VirtIOBlk;
use virtio_drivers::device::console::VirtIOConsole;
use virtio_drivers::device::gpu::VirtIOGpu;
use virtio_drivers::device::input::VirtIOInput;
use virtio_drivers::device::net::{VirtIONet, VirtIONetRaw};
use virtio_drivers::device::rng::VirtIORng;
use virtio_drivers::device::rtc::VirtIORtc;
use virtio_drivers::device::socket::VirtIOSocket;
use virtio_drivers::device::sound::VirtIOSound;
use virtio_drivers::device::virtio_9p::VirtIO9p;
use virtio_drivers::transport::mmio::{MmioTransport, VirtIOHeader};
use virtio_drivers::transport::pci::bus::PciRoot;
use virtio_drivers::transport::pci::PciTransport;
use virtio_drivers::transport::{DeviceType, SomeTransport, Transport};
use virtio_drivers::Result;

#[derive(Clone, Copy, Debug, PartialEq, Eq, Hash, PartialOrd, Ord)]
pub enum Kind {
    Blk,
    Console,
    Gpu,
    Input,
    NetRaw,
    NetBuf,
    Rng,
    Rtc,
    Socket,
    Sound,
    P9,
}

pub const ALL_KINDS: [Kind; 11] = [Kind::Blk, Kind::Console, Kind::Gpu, Kind::Input, Kind::NetRaw, Kind::NetBuf, Kind::Rng, Kind::Rtc, Kind::Socket, Kind::Sound, Kind::P9];

pub const F_INDIRECT: u64 = 1 << 28;
pub const F_EVENT_IDX: u64 = 1 << 29;
pub const F_VERSION_1: u64 = 1 << 32;
pub const F_ACCESS_PLATFORM: u64 = 1 << 33;
pub const F_RING_PACKED: u64 = 1 << 34;
pub const COMMON_SUPPORTED: u64 = F_INDIRECT | F_EVENT_IDX | F_VERSION_1 | F_ACCESS_PLATFORM;

pub const NET_QS: usize = 4;
pub const VSOCK_RX: usize = 64;

impl Kind {
    pub fn name(self) -> &'static str {
        match self {
            Kind::Blk => "blk",
            Kind::Console => "console",
            Kind::Gpu => "gpu",
            Kind::Input => "input",
            Kind::NetRaw => "net-raw",
            Kind::NetBuf => "net-buffered",
            Kind::Rng => "rng",
            Kind::Rtc => "rtc",
            Kind::Socket => "socket",
            Kind::Sound => "sound",
            Kind::P9 => "9p",
        }
    }
    pub fn device_type(self) -> DeviceType {
        match self {
            Kind::Blk => DeviceType::Block,
            Kind::Console => DeviceType::Console,
            Kind::Gpu => DeviceType::GPU,
            Kind::Input => DeviceType::Input,
            Kind::NetRaw | Kind::NetBuf => DeviceType::Network,
            Kind::Rng => DeviceType::EntropySource,
            Kind::Rtc => DeviceType::Timer,
            Kind::Socket => DeviceType::Socket,
            Kind::Sound => DeviceType::Sound,
            Kind::P9 => DeviceType::_9P,
        }
    }
    pub fn nqueues(self) -> usize {
        match self {
            Kind::Blk | Kind::Rng | Kind::P9 => 1,
            Kind::Console | Kind::Gpu | Kind::Input | Kind::NetRaw | Kind::NetBuf | Kind::Rtc => 2,
            Kind::Socket => 3,
            Kind::Sound => 4,
        }
    }
    /// Queues the driver actually creates: (index, size).
    pub fn driver_queues(self) -> Vec<(u16, u32)> {
        match self {
            Kind::Blk => vec![(0, 16)],
            Kind::Console => vec![(0, 2), (1, 2)],
            Kind::Gpu => vec![(0, 2), (1, 2)],
            Kind::Input => vec![(0, 32), (1, 32)],
            Kind::NetRaw | Kind::NetBuf => vec![(1, NET_QS as u32), (0, NET_QS as u32)],
            Kind::Rng => vec![(0, 8)],
            Kind::Rtc => vec![(0, 8)],
            Kind::Socket => vec![(0, 8), (1, 8), (2, 8)],
            Kind::Sound => vec![(0, 32), (1, 32), (2, 32), (3, 32)],
            Kind::P9 => vec![(0, 16)],
        }
    }
    /// Feature bits the driver supports (device-specific part), from the specification of each
    /// driver's documented behaviour.
    pub fn device_specific_supported(self) -> u64 {
        match self {
            Kind::Blk => (1 << 5) | (1 << 9),
            Kind::Console => (1 << 0) | (1 << 2),
            Kind::Gpu => 1 << 1,
            Kind::NetRaw | Kind::NetBuf => (1 << 5) | (1 << 16),
            _ => 0,
        }
    }
    pub fn supported(self) -> u64 {
        COMMON_SUPPORTED | self.device_specific_supported()
    }
    /// A device-specific feature bit the driver does not support (for the premise check).
    pub fn unsupported_specific(self) -> u64 {
        match self {
            Kind::Blk => 1 << 12,       // MQ
            Kind::Console => 1 << 1,    // MULTIPORT
            Kind::Gpu => 1 << 0,        // VIRGL
            Kind::NetRaw | Kind::NetBuf => 1 << 15, // MRG_RXBUF
            Kind::Rtc => 1 << 0,        // ALARM
            _ => 1 << 3,
        }
    }
    pub fn default_config(self) -> Vec<u8> {
        match self {
            Kind::Blk => {
                let mut c = vec![0u8; 60];
                c[0..8].copy_from_slice(&8u64.to_le_bytes());
                c[20..24].copy_from_slice(&512u32.to_le_bytes());
                c
            }
            Kind::Console => {
                let mut c = vec![0u8; 12];
                c[0..2].copy_from_slice(&80u16.to_le_bytes());
                c[2..4].copy_from_slice(&24u16.to_le_bytes());
                c[4..8].copy_from_slice(&1u32.to_le_bytes());
                c
            }
            Kind::Gpu => {
                let mut c = vec![0u8; 16];
                c[8..12].copy_from_slice(&1u32.to_le_bytes());
                c
            }
            Kind::Input => vec![0u8; 136],
            Kind::NetRaw | Kind::NetBuf => {
                let mut c = vec![0u8; 12];
                c[0..6].copy_from_slice(&[0x52, 0x54, 0x00, 0x12, 0x34, 0x56]);
                c[6..8].copy_from_slice(&1u16.to_le_bytes());
                c
            }
            Kind::Rng | Kind::Rtc => vec![],
            Kind::Socket => {
                let mut c = vec![0u8; 8];
                c[0..8].copy_from_slice(&0x0000_0001_0000_0003u64.to_le_bytes());
                c
            }
            Kind::Sound => {
                let mut c = vec![0u8; 12];
                c[0..4].copy_from_slice(&1u32.to_le_bytes());
                c[4..8].copy_from_slice(&2u32.to_le_bytes());
                c[8..12].copy_from_slice(&1u32.to_le_bytes());
                c
            }
            Kind::P9 => {
                let mut c = vec![0u8; 8];
                c[0..2].copy_from_slice(&4u16.to_le_bytes());
                c[2..6].copy_from_slice(b"root");
                c
            }
        }
    }
}

#[derive(Clone, Copy, Debug, PartialEq, Eq, Hash, PartialOrd, Ord)]
pub enum TKind {
    Model,
    MmioLegacy,
    MmioModern,
    Pci,
}

pub const ALL_TKINDS: [TKind; 4] = [TKind::Model, TKind::MmioLegacy, TKind::MmioModern, TKind::Pci];
pub const REAL_TKINDS: [TKind; 3] = [TKind::MmioLegacy, TKind::MmioModern, TKind::Pci];

impl TKind {
    pub fn name(self) -> &'static str {
        match self {
            TKind::Model => "model",
            TKind::MmioLegacy => "mmio-legacy",
            TKind::MmioModern => "mmio-modern",
            TKind::Pci => "pci",
        }
    }
}

pub struct DWorld {
    pub kind: Kind,
    pub tkind: TKind,
    pub dev: DevRc,
    pub trace: Trace,
    pub bus: Option<BusRc>,
    pub wrap_some: bool,
}

pub const PCI_BAR_ADDR: u64 = 0x8_0000_0000;

thread_local! {
    /// Maximum queue size reported by the devices that `DWorld::new` creates (64 unless a check
    /// sets another value for the worlds it creates on this thread).
    pub static MAX_QUEUE_SIZE: std::cell::Cell<u32> = const { std::cell::Cell::new(64) };
}

impl DWorld {
    /// Creates the device and installs the register world for the transport kind. The HAL must
    /// have been reset by the caller.
    pub fn new(kind: Kind, tkind: TKind, offered: u64, config: Vec<u8>) -> DWorld {
        let mut d = VirtioDev::new(kind.device_type(), offered, kind.nqueues(), MAX_QUEUE_SIZE.with(|m| m.get()), config);
        d.legacy = tkind == TKind::MmioLegacy;
        let dev: DevRc = Rc::new(RefCell::new(d));
        let trace: Trace = Rc::new(RefCell::new(vec![]));
        let mut bus = None;
        match tkind {
            TKind::Model => {
                mmio::set_handler(None);
            }
            TKind::MmioLegacy | TKind::MmioModern => {
                let mut w = RegWorld::new(trace.clone());
                w.mmio = Some(MmioRegs::new(dev.clone(), if tkind == TKind::MmioLegacy { 1 } else { 2 }));
                mmio::set_handler(Some(Box::new(w)));
            }
            TKind::Pci => {
                let mut f = PciFunc::new(0x1af4, 0x1040 + kind.device_type() as u16);
                f.command = 0x0006;
                f.bars[4] = BarKind::Mem64 { size: 0x4000, prefetch: true };
                f.bars[5] = BarKind::Mem64Hi;
                f.set_bar_address(4, PCI_BAR_ADDR);
                let cfg_len = dev.borrow().config.len() as u32;
                let mut caps = vec![c11::good_common(), c11::good_notify(), c11::good_isr()];
                if cfg_len >= 4 {
                    caps.push(VCap { length: cfg_len, ..c11::good_device() });
                    // A second device-configuration capability behind the first one (the driver
                    // uses the first it can support): a longer window elsewhere in the BAR, which
                    // the register world does not know.
                    caps.push(VCap { length: cfg_len + 16, offset: 0x2800, idpad: 1, ..c11::good_device() });
                }
                let specs: Vec<_> = caps.iter().map(|c| c.spec()).collect();
                layout_caps(&mut f, &specs, false);
                let b = new_bus(f, DF);
                let nq = kind.nqueues();
                let layout = PciLayout {
                    common: (PCI_BAR_ADDR, 0x38),
                    notify: (PCI_BAR_ADDR + 0x3000, 0x1000),
                    isr: (PCI_BAR_ADDR + 0x1000, 0x1000),
                    devcfg: if cfg_len >= 4 { Some((PCI_BAR_ADDR + 0x2000, cfg_len as u64)) } else { None },
                    notify_mult: 4,
                    notify_off: (0..nq as u16).map(|q| (q * 3 + 1) % 7).collect(),
                };
                let mut w = RegWorld::new(trace.clone());
                w.pci = Some(PciRegs::new(dev.clone(), layout));
                mmio::set_handler(Some(Box::new(w)));
                bus = Some(b);
            }
        }
        DWorld { kind, tkind, dev, trace, bus, wrap_some: false }
    }

    pub fn mmio_transport(&self) -> MmioTransport<'static> {
        let header = NonNull::new(MMIO_DEV_BASE as *mut VirtIOHeader).unwrap();
        let size = 0x100 + self.dev.borrow().config.len();
        // SAFETY: fake pointer; every access is intercepted and nothing is dereferenced.
        unsafe { MmioTransport::new(header, size) }.expect("MMIO probe")
    }

    pub fn pci_transport(&self) -> PciTransport {
        let mut root = PciRoot::new(ModelCam { bus: self.bus.clone().unwrap() });
        PciTransport::new::<LabHal, _>(&mut root, DF).expect("PCI transport")
    }

    /// Runs the visitor with a freshly constructed transport of this world's kind.
    pub fn with_transport<V: TransportVisitor>(&self, v: V) -> V::Out {
        match self.tkind {
            TKind::Model => v.visit(ModelTransport::new(self.dev.clone()), self),
            TKind::MmioLegacy | TKind::MmioModern => {
                let t = self.mmio_transport();
                self.trace.borrow_mut().clear();
                self.dev.borrow_mut().log.clear();
                if self.wrap_some {
                    let s: SomeTransport<'static> = t.into();
                    v.visit(s, self)
                } else {
                    v.visit(t, self)
                }
            }
            TKind::Pci => {
                let t = self.pci_transport();
                self.trace.borrow_mut().clear();
                self.dev.borrow_mut().log.clear();
                hal::with(|h| h.log.clear());
                if self.wrap_some {
                    let s: SomeTransport<'static> = t.into();
                    v.visit(s, self)
                } else {
                    v.visit(t, self)
                }
            }
        }
    }
}

pub trait TransportVisitor {
    type Out;
    fn visit<T: Transport + 'static>(self, t: T, w: &DWorld) -> Self::Out;
}

pub enum AnyDriver<T: Transport> {
    Blk(VirtIOBlk<LabHal, T>),
    Console(VirtIOConsole<LabHal, T>),
    Gpu(VirtIOGpu<LabHal, T>),
    Input(VirtIOInput<LabHal, T>),
    NetRaw(VirtIONetRaw<LabHal, T, NET_QS>),
    NetBuf(VirtIONet<LabHal, T, NET_QS>),
    Rng(VirtIORng<LabHal, T>),
    Rtc(VirtIORtc<LabHal, T>),
    Socket(VirtIOSocket<LabHal, T, VSOCK_RX>),
    Sound(VirtIOSound<LabHal, T>),
    P9(VirtIO9p<LabHal, T>),
}

pub const NET_BUF_LEN: usize = 2048;

pub fn construct<T: Transport>(kind: Kind, t: T) -> Result<AnyDriver<T>> {
    Ok(match kind {
        Kind::Blk => AnyDriver::Blk(VirtIOBlk::new(t)?),
        Kind::Console => AnyDriver::Console(VirtIOConsole::new(t)?),
        Kind::Gpu => AnyDriver::Gpu(VirtIOGpu::new(t)?),
        Kind::Input => AnyDriver::Input(VirtIOInput::new(t)?),
        Kind::NetRaw => AnyDriver::NetRaw(VirtIONetRaw::new(t)?),
        Kind::NetBuf => AnyDriver::NetBuf(VirtIONet::new(t, NET_BUF_LEN)?),
        Kind::Rng => AnyDriver::Rng(VirtIORng::new(t)?),
        Kind::Rtc => AnyDriver::Rtc(VirtIORtc::new(t)?),
        Kind::Socket => AnyDriver::Socket(VirtIOSocket::new(t)?),
        Kind::Sound => AnyDriver::Sound(VirtIOSound::new(t)?),
        Kind::P9 => AnyDriver::P9(VirtIO9p::new(t)?),
    })
}
