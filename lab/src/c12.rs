//! C12: PCI bus helpers against the reference PCI function model.

use crate::pci_model::{BarKind, BusRc, CfgAccess, ModelCam, PciBusState, PciFunc, COMMAND_WRITABLE};
use std::cell::RefCell;
use std::rc::Rc;
use virtio_drivers::transport::pci::bus::{BarInfo, Cam, DeviceFunction, HeaderType, MemoryBarType, PciError, PciRoot};

pub const DF: DeviceFunction = DeviceFunction { bus: 0, device: 3, function: 1 };

pub fn new_bus(f: PciFunc, df: DeviceFunction) -> BusRc {
    let mut b = PciBusState::default();
    b.funcs.insert((df.bus, df.device, df.function), f);
    Rc::new(RefCell::new(b))
}

pub fn truth(f: &PciFunc, i: usize) -> Result<Option<BarInfo>, PciError> {
    match f.bars[i] {
        BarKind::Unimplemented => Ok(None),
        BarKind::Mem32 { size, prefetch, below_1m } => Ok(Some(BarInfo::Memory {
            address_type: if below_1m { MemoryBarType::Below1MiB } else { MemoryBarType::Width32 },
            prefetchable: prefetch,
            address: f.bar_address(i),
            size,
        })),
        BarKind::Mem64 { size, prefetch } => {
            if i >= 5 {
                Err(PciError::InvalidBarType)
            } else {
                Ok(Some(BarInfo::Memory { address_type: MemoryBarType::Width64, prefetchable: prefetch, address: f.bar_address(i), size }))
            }
        }
        BarKind::Io { size } => Ok(Some(BarInfo::IO { address: f.bar_regs[i], size })),
        BarKind::MemReserved { .. } => Err(PciError::InvalidBarType),
        BarKind::Mem64Hi => Ok(None),
    }
}

/// Checks the configuration accesses of one helper call: sizing writes only with decoding off.
pub fn check_log(log: &[CfgAccess], orig_bars: &[u32; 6], out: &mut Vec<(String, String)>) {
    for a in log {
        if a.write && (0x10..=0x24).contains(&a.off) {
            let i = ((a.off - 0x10) / 4) as usize;
            if a.value != orig_bars[i] && a.command & 3 != 0 {
                out.push(("sizing-while-decoding".into(), format!("BAR{} written with {:#x} while command = {:#06x} has address decoding enabled", i, a.value, a.command)));
            }
        }
        if a.write && a.off == 0x04 && a.value & 3 != 0 && a.bars != *orig_bars {
            out.push(("decoding-enabled-with-sizing-pattern".into(), format!("command {:#06x} (decoding on) written while BARs hold {:x?} instead of their original values {:x?}", a.value, a.bars, orig_bars)));
        }
        if a.write && !(a.off == 0x04 || (0x10..=0x24).contains(&a.off)) {
            out.push(("unrelated-config-write".into(), format!("write of {:#x} to configuration offset {:#x}", a.value, a.off)));
        }
    }
}

/// One bar_info case. Returns (outcome class, violations).
pub fn bar_info_case(kind: BarKind, slot: usize, addr: u64, command: u16) -> (String, Vec<(String, String)>) {
    let mut f = PciFunc::new(0x1af4, 0x1042);
    f.bars[slot] = kind;
    if let BarKind::Mem64 { .. } = kind {
        if slot < 5 {
            f.bars[slot + 1] = BarKind::Mem64Hi;
        }
    }
    f.set_bar_address(slot, addr);
    // A neighbour BAR that must stay untouched.
    let nb = (slot + 3) % 6;
    if f.bars[nb] == BarKind::Unimplemented {
        f.bars[nb] = BarKind::Mem32 { size: 0x1000, prefetch: false, below_1m: false };
        f.set_bar_address(nb, 0xfebd_1000);
    }
    f.command = command & COMMAND_WRITABLE;
    // Pending error bits in the status register (write-one-to-clear): probing must not touch them.
    f.status = 0xf9b0;
    let want = truth(&f, slot);
    let before = f.visible_state();
    let orig_bars = f.bar_regs;
    let bus = new_bus(f, DF);
    let mut root = PciRoot::new(ModelCam { bus: bus.clone() });
    let mut out = vec![];
    let got = crate::util::catch(|| root.bar_info(DF, slot as u8));
    let b = bus.borrow();
    let after = b.funcs[&(DF.bus, DF.device, DF.function)].visible_state();
    let class;
    match got {
        Err(p) => {
            class = "panic".to_string();
            out.push(("bar_info-panic".into(), format!("bar_info({}) on {:?} panicked: {}", slot, kind, p)));
        }
        Ok(g) => {
            class = match &g {
                Ok(None) => "none".into(),
                Ok(Some(BarInfo::IO { .. })) => "io".into(),
                Ok(Some(BarInfo::Memory { address_type, .. })) => format!("mem-{:?}", address_type),
                Err(_) => "error".into(),
            };
            if g != want {
                out.push(("bar_info-value".into(), format!("bar_info({}) on {:?} at {:#x} returned {:x?}, ground truth {:x?}", slot, kind, addr, g, want)));
            }
            // The derived views of what was reported.
            if let Ok(Some(info)) = &g {
                let two = matches!(kind, BarKind::Mem64 { .. });
                if info.takes_two_entries() != two {
                    out.push(("bar_info-value".into(), format!("takes_two_entries() = {} for {:?}", info.takes_two_entries(), kind)));
                }
                let want_mem = match info {
                    BarInfo::Memory { address, size, .. } => Some((*address, *size)),
                    BarInfo::IO { .. } => None,
                };
                if info.memory_address_size() != want_mem || matches!(kind, BarKind::Io { .. }) != want_mem.is_none() {
                    out.push(("bar_info-value".into(), format!("memory_address_size() = {:x?} for {:?} reported as {:x?}", info.memory_address_size(), kind, info)));
                }
            }
        }
    }
    if after != before {
        out.push(("config-not-restored".into(), format!("bar_info({}) on {:?} (command {:#06x}): command/BARs before {:x?}, after {:x?}", slot, kind, command, before, after)));
    }
    check_log(&b.log, &orig_bars, &mut out);
    (class, out)
}

pub fn bar_kinds(thorough: bool) -> Vec<BarKind> {
    let mut v = vec![BarKind::Unimplemented];
    for sh in 4..=31 {
        for prefetch in [false, true] {
            v.push(BarKind::Mem32 { size: 1 << sh, prefetch, below_1m: false });
        }
    }
    for sh in [4u32, 12, 16, 19] {
        v.push(BarKind::Mem32 { size: 1 << sh, prefetch: false, below_1m: true });
    }
    for sh in 4..=63 {
        if thorough || sh % 3 == 0 || sh >= 30 && sh <= 34 || sh >= 62 {
            for prefetch in [false, true] {
                v.push(BarKind::Mem64 { size: 1u64 << sh, prefetch });
            }
        }
    }
    for sh in 2..=31 {
        if thorough || sh <= 8 || sh % 4 == 0 || sh == 31 {
            v.push(BarKind::Io { size: 1 << sh });
        }
    }
    v.push(BarKind::MemReserved { size: 0x1000 });
    v
}

pub fn addresses(kind: BarKind) -> Vec<u64> {
    match kind {
        BarKind::Io { .. } => vec![0, 0xc000, 0xffff_fffc],
        BarKind::Mem64 { .. } => vec![0, 0x8_0000_0000, 0xffff_ffff_ffff_fff0],
        _ => vec![0, 0xfe00_0000, 0xffff_fff0],
    }
}

/// All 1024 combinations of the command register's defined bits.
pub fn all_commands() -> Vec<u16> {
    let bits: Vec<u16> = (0..11).filter(|b| *b != 7).map(|b| 1u16 << b).collect();
    (0..1024u16).map(|m| bits.iter().enumerate().filter(|(i, _)| m & (1 << i) != 0).map(|(_, b)| *b).sum()).collect()
}

/// bars() over an assignment of kinds to the six slots.
pub fn bars_case(assign: &[BarKind; 6], command: u16) -> Vec<(String, String)> {
    let mut f = PciFunc::new(0x1af4, 0x1042);
    f.bars = *assign;
    for i in 0..6 {
        match assign[i] {
            BarKind::Mem32 { .. } => f.set_bar_address(i, 0xfe00_0000 + (i as u64) * 0x10_0000),
            BarKind::Mem64 { .. } => f.set_bar_address(i, 0x8_0000_0000 + (i as u64) * 0x1_0000_0000),
            BarKind::Io { .. } => f.set_bar_address(i, 0xc000 + (i as u64) * 0x100),
            _ => {}
        }
    }
    f.command = command;
    f.status = 0xa830;
    let mut want: [Option<BarInfo>; 6] = Default::default();
    for i in 0..6 {
        want[i] = truth(&f, i).unwrap_or(None);
    }
    let before = f.visible_state();
    let orig = f.bar_regs;
    let bus = new_bus(f, DF);
    let mut root = PciRoot::new(ModelCam { bus: bus.clone() });
    let mut out = vec![];
    match crate::util::catch(|| root.bars(DF)) {
        Err(p) => out.push(("bars-panic".into(), p)),
        // A 64-bit type encoding in the last slot has no upper half: an error is the right answer,
        // and the configuration must be left as it was all the same.
        Ok(Err(_)) if matches!(assign[5], BarKind::Mem64 { .. }) => {}
        Ok(Err(e)) => out.push(("bars-error".into(), format!("bars() failed with {:?} on {:?}", e, assign))),
        Ok(Ok(g)) => {
            if matches!(assign[5], BarKind::Mem64 { .. }) {
                out.push(("bars-accepts-invalid".into(), format!("bars() succeeded on {:?} although slot 5 has the 64-bit type encoding (no upper half exists)", assign)));
            } else if g != want {
                out.push(("bars-value".into(), format!("bars() on {:?} returned {:x?}, ground truth {:x?}", assign, g, want)));
            }
        }
    }
    let b = bus.borrow();
    if b.funcs[&(DF.bus, DF.device, DF.function)].visible_state() != before {
        out.push(("config-not-restored".into(), format!("bars() changed command/BARs on {:?}", assign)));
    }
    check_log(&b.log, &orig, &mut out);
    out
}

pub fn bar_assignments() -> Vec<[BarKind; 6]> {
    let opts = [
        BarKind::Unimplemented,
        BarKind::Mem32 { size: 0x4000, prefetch: false, below_1m: false },
        BarKind::Mem64 { size: 0x2_0000_0000, prefetch: true },
        BarKind::Io { size: 0x40 },
    ];
    let mut out = vec![];
    fn rec(i: usize, cur: &mut [BarKind; 6], opts: &[BarKind; 4], out: &mut Vec<[BarKind; 6]>) {
        if i >= 6 {
            out.push(*cur);
            return;
        }
        for o in opts {
            match o {
                BarKind::Mem64 { .. } => {
                    if i + 1 < 6 {
                        cur[i] = *o;
                        cur[i + 1] = BarKind::Mem64Hi;
                        rec(i + 2, cur, opts, out);
                    }
                }
                _ => {
                    cur[i] = *o;
                    rec(i + 1, cur, opts, out);
                }
            }
        }
    }
    let mut cur = [BarKind::Unimplemented; 6];
    rec(0, &mut cur, &opts, &mut out);
    out
}

pub fn ref_cam_offset(cam: Cam, bus: u8, dev: u8, func: u8, reg: u8) -> u32 {
    match cam {
        Cam::MmioCam => (bus as u32) << 16 | (dev as u32) << 11 | (func as u32) << 8 | reg as u32,
        Cam::Ecam => (bus as u32) << 20 | (dev as u32) << 15 | (func as u32) << 12 | reg as u32,
    }
}

/// All 256x32x8x64 tuples for one access mechanism: inside the window, aligned, distinct, and
/// equal to the mechanism's defined encoding. Returns (evaluations, violations).
pub fn cam_sweep(cam: Cam) -> (u64, Vec<(String, String)>) {
    let size = cam.size();
    let mut seen = vec![0u64; (size as usize / 4).div_ceil(64)];
    let mut out = vec![];
    let mut n = 0u64;
    for bus in 0..=255u8 {
        for dev in 0..32u8 {
            for func in 0..8u8 {
                for r in 0..64u8 {
                    let reg = r * 4;
                    let df = DeviceFunction { bus, device: dev, function: func };
                    n += 1;
                    let o = match crate::util::catch(|| cam.cam_offset(df, reg)) {
                        Ok(o) => o,
                        Err(p) => {
                            if out.len() < 4 {
                                out.push(("cam-offset-range".into(), format!("{:?} offset for {}:{}.{} reg {:#x}: the library panicked ({}); every such tuple has an offset inside the window", cam, bus, dev, func, reg, p)));
                            }
                            continue;
                        }
                    };
                    if o >= size || o % 4 != 0 {
                        if out.len() < 4 {
                            out.push(("cam-offset-range".into(), format!("{:?} offset for {}:{}.{} reg {:#x} = {:#x} outside window {:#x} or unaligned", cam, bus, dev, func, reg, o, size)));
                        }
                        continue;
                    }
                    let w = (o / 4) as usize;
                    if seen[w / 64] & (1 << (w % 64)) != 0 {
                        if out.len() < 4 {
                            out.push(("cam-offset-collision".into(), format!("{:?} offset {:#x} for {}:{}.{} reg {:#x} already used by another tuple", cam, o, bus, dev, func, reg)));
                        }
                    }
                    seen[w / 64] |= 1 << (w % 64);
                    if o != ref_cam_offset(cam, bus, dev, func, reg) && out.len() < 4 {
                        out.push(("cam-offset-encoding".into(), format!("{:?} offset for {}:{}.{} reg {:#x} = {:#x}, the mechanism defines {:#x}", cam, bus, dev, func, reg, o, ref_cam_offset(cam, bus, dev, func, reg))));
                    }
                }
            }
        }
    }
    (n, out)
}

/// MmioCam accesses land at base + the mechanism's offset (through the MMIO interception).
pub fn mmio_cam_sweep(cam: Cam, stride: usize) -> (u64, Vec<(String, String)>) {
    use crate::regdev::{RegWorld, Region, Trace, CAM_BASE};
    use virtio_drivers::transport::pci::bus::{ConfigurationAccess, MmioCam};
    crate::hal::reset();
    let bus: BusRc = Rc::new(RefCell::new(PciBusState::default()));
    let trace: Trace = Rc::new(RefCell::new(vec![]));
    let mut w = RegWorld::new(trace.clone());
    let shift = if cam == Cam::Ecam { 12 } else { 8 };
    w.cam = Some((CAM_BASE, cam.size(), bus.clone(), shift));
    crate::mmio::set_handler(Some(Box::new(w)));
    // SAFETY: fake base, all accesses intercepted.
    let mut mc = unsafe { MmioCam::new(CAM_BASE as *mut u8, cam) };
    let mut out = vec![];
    let mut n = 0u64;
    let mut idx = 0usize;
    for b in 0..=255u8 {
        for dev in 0..32u8 {
            for func in 0..8u8 {
                for r in 0..64u8 {
                    idx += 1;
                    if idx % stride != 0 {
                        continue;
                    }
                    let reg = r * 4;
                    let df = DeviceFunction { bus: b, device: dev, function: func };
                    trace.borrow_mut().clear();
                    let _ = mc.read_word(df, reg);
                    mc.write_word(df, reg, 0x1234_0000 | idx as u32 & 0xffff);
                    n += 2;
                    let tr = trace.borrow();
                    let want = ref_cam_offset(cam, b, dev, func, reg) as u64;
                    let ok = tr.len() == 2 && tr.iter().all(|a| a.region == Region::Cam && a.off == want && a.width == 4) && !tr[0].write && tr[1].write;
                    if !ok && out.len() < 4 {
                        out.push(("mmio-cam-access".into(), format!("{:?} access for {}:{}.{} reg {:#x}: {:?}, expected a 32-bit read then write at offset {:#x}", cam, b, dev, func, reg, *tr, want)));
                    }
                }
            }
        }
    }
    // The bus model decoded every write back to the same tuple.
    crate::mmio::set_handler(None);
    (n, out)
}

/// Bus enumeration over a population of representative slots.
pub fn enumerate_case(pop: u8) -> Vec<(String, String)> {
    enumerate_case_with(pop, [0x00, 0x81, 0x02, 0x80, 0x05, 0x7f])
}

/// The same with chosen raw header-type bytes (bit 7 = multi-function, bits 0..6 = layout).
pub fn enumerate_case_with(pop: u8, header_types: [u8; 6]) -> Vec<(String, String)> {
    enumerate_case_ids(pop, header_types, None)
}

/// The same with chosen (vendor, device) ids per slot: a function is present iff its vendor id is
/// not 0xffff, whatever its device id (0x0000 and 0xffff are device ids like any other).
pub fn enumerate_case_ids(pop: u8, header_types: [u8; 6], ids: Option<[(u16, u16); 6]>) -> Vec<(String, String)> {
    let slots: [(u8, u8); 6] = [(0, 0), (0, 1), (0, 7), (1, 0), (31, 0), (31, 7)];
    let busno = 5u8;
    let mut b = PciBusState::default();
    let mut want = vec![];
    for (i, (d, f)) in slots.iter().enumerate() {
        if pop & (1 << i) != 0 {
            let (ven, dev) = ids.map(|x| x[i]).unwrap_or((0x1000 + i as u16 * 0x111, 0x2000 + i as u16 * 0x101));
            let mut pf = PciFunc::new(ven, dev);
            pf.class = 0x10 + i as u8;
            pf.subclass = 0x20 + i as u8;
            pf.prog_if = 0x30 + i as u8;
            pf.revision = 0x40 + i as u8;
            pf.header_type = header_types[i];
            want.push(((busno, *d, *f), pf.clone()));
            b.funcs.insert((busno, *d, *f), pf);
        }
    }
    // A device on another bus must not be reported.
    b.funcs.insert((busno + 1, 0, 0), PciFunc::new(0xaaaa, 0xbbbb));
    let bus: BusRc = Rc::new(RefCell::new(b));
    let root = PciRoot::new(ModelCam { bus: bus.clone() });
    let mut out = vec![];
    let got = crate::util::catch(|| root.enumerate_bus(busno).collect::<Vec<_>>());
    match got {
        Err(p) => out.push(("enumerate-panic".into(), p)),
        Ok(g) => {
            if g.len() != want.len() {
                out.push(("enumerate-count".into(), format!("population {:#08b}: {} functions reported, {} present", pop, g.len(), want.len())));
            }
            for (k, ((df, info), (wdf, wf))) in g.iter().zip(want.iter()).enumerate() {
                let ht = match wf.header_type & 0x7f {
                    0 => HeaderType::Standard,
                    1 => HeaderType::PciPciBridge,
                    2 => HeaderType::PciCardbusBridge,
                    x => HeaderType::Unrecognised(x),
                };
                let ok = (df.bus, df.device, df.function) == *wdf
                    && info.vendor_id == wf.vendor
                    && info.device_id == wf.device
                    && info.class == wf.class
                    && info.subclass == wf.subclass
                    && info.prog_if == wf.prog_if
                    && info.revision == wf.revision
                    && info.header_type == ht;
                if !ok {
                    out.push(("enumerate-decoding".into(), format!("entry {}: reported {} {:?}, present {:?} {:04x}:{:04x} class {:02x}.{:02x}.{:02x} rev {:02x} header {:?}", k, df, info, wdf, wf.vendor, wf.device, wf.class, wf.subclass, wf.prog_if, wf.revision, ht)));
                }
            }
        }
    }
    if bus.borrow().log.iter().any(|a| a.write) {
        out.push(("enumerate-writes".into(), "bus enumeration wrote to configuration space".into()));
    }
    out
}

/// A capability to be laid out in configuration space.
#[derive(Clone, Debug, PartialEq, Eq, Hash)]
pub struct CapSpec {
    pub id: u8,
    /// Bytes following the 2-byte (id, next) header; byte 0 of it is cap_len for vendor caps.
    pub body: Vec<u8>,
}

/// Lays capabilities out at 0x40.. (each 4-aligned, in list order but at shuffled offsets when
/// `reverse`), links them and sets the status bit and pointer.
pub fn layout_caps(f: &mut PciFunc, caps: &[CapSpec], reverse: bool) -> Vec<u8> {
    let mut offs = vec![];
    let mut o = 0x40usize;
    for c in caps {
        offs.push(o);
        o += (2 + c.body.len() + 3) & !3;
    }
    assert!(o <= 256, "capabilities do not fit");
    if reverse {
        // Same list order, but later capabilities at lower offsets.
        let total = o;
        let mut p = total;
        let mut ro = vec![];
        for c in caps {
            p -= (2 + c.body.len() + 3) & !3;
            ro.push(p);
        }
        offs = ro;
    }
    for (i, c) in caps.iter().enumerate() {
        let next = if i + 1 < caps.len() { offs[i + 1] as u8 } else { 0 };
        let mut bytes = vec![c.id, next];
        bytes.extend(&c.body);
        f.put_bytes(offs[i], &bytes);
    }
    if !caps.is_empty() {
        f.status |= 0x10;
        f.raw[0x34] = offs[0] as u8;
    }
    offs.iter().map(|o| *o as u8).collect()
}

pub fn capability_walk_case(caps: &[CapSpec], reverse: bool) -> Vec<(String, String)> {
    capability_walk_case_status(caps, reverse, 0)
}

/// The same with further bits set in the function's status register (DEVSEL timing, 66 MHz,
/// interrupt status, error bits): only the capabilities-list bit decides whether there is a list.
pub fn capability_walk_case_status(caps: &[CapSpec], reverse: bool, status_extra: u16) -> Vec<(String, String)> {
    capability_walk_case_full(caps, reverse, status_extra, true)
}

/// `list_bit` = false: the capabilities pointer and the chain behind it are there, but the
/// function does not advertise a capability list in its status register: there is no list.
pub fn capability_walk_case_full(caps: &[CapSpec], reverse: bool, status_extra: u16, list_bit: bool) -> Vec<(String, String)> {
    let mut f = PciFunc::new(0x1af4, 0x1042);
    f.status = status_extra & !0x10;
    let offs = layout_caps(&mut f, caps, reverse);
    if !list_bit {
        f.status &= !0x10;
    }
    let bus = new_bus(f, DF);
    bus.borrow_mut().reads_budget = Some(10_000);
    let root = PciRoot::new(ModelCam { bus: bus.clone() });
    let mut out = vec![];
    match crate::util::catch(|| root.capabilities(DF).collect::<Vec<_>>()) {
        Err(p) => out.push(("capabilities-panic".into(), p)),
        Ok(g) => {
            let want: Vec<(u8, u8, u16)> = if list_bit { caps.iter().zip(offs.iter()).map(|(c, o)| (*o, c.id, u16::from_le_bytes([c.body.first().copied().unwrap_or(0), c.body.get(1).copied().unwrap_or(0)]))).collect() } else { vec![] };
            let got: Vec<(u8, u8, u16)> = g.iter().map(|c| (c.offset, c.id, c.private_header)).collect();
            if got != want {
                out.push(("capabilities-walk".into(), format!("capability walk yielded {:x?}, the list is {:x?}", got, want)));
            }
        }
    }
    out
}
