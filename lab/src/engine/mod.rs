pub mod chooser;
pub mod dfs;
pub mod bfs;
pub mod report;

/// A property violation found in one execution.
#[derive(Clone, Debug)]
pub struct Violation {
    /// Property id, e.g. "C03".
    pub prop: &'static str,
    /// Short stable classification (used to match known findings).
    pub kind: String,
    /// Human readable details.
    pub detail: String,
}

impl Violation {
    pub fn new(prop: &'static str, kind: impl Into<String>, detail: impl Into<String>) -> Self {
        Violation { prop, kind: kind.into(), detail: detail.into() }
    }
}

#[macro_export]
macro_rules! tlog {
    ($($arg:tt)*) => {
        if $crate::engine::chooser::trace_enabled() {
            $crate::engine::chooser::trace_push(format!($($arg)*));
        }
    };
}
