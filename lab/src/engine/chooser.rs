//! The single source of nondeterminism: a replayable sequence of bounded choices.

use std::cell::RefCell;

#[derive(Clone, Copy, Debug)]
pub struct Point {
    pub arity: u32,
    pub choice: u32,
    /// Whether a non-zero choice here counts as a deviation from the default environment answer.
    pub dev: bool,
    pub label: &'static str,
}

#[derive(Default)]
pub struct Chooser {
    /// (choice, arity-or-0-if-unknown) to replay.
    pub prefix: Vec<(u32, u32)>,
    pub points: Vec<Point>,
    pub divergence: Option<String>,
    pub trace_on: bool,
    pub trace: Vec<String>,
    pub steps: u64,
    pub tags: Vec<std::borrow::Cow<'static, str>>,
    pub violations: Vec<super::Violation>,
    pub sig: crate::util::H128,
}

thread_local! {
    static CH: RefCell<Chooser> = RefCell::new(Chooser::default());
}

/// Starts a new execution on this thread with the given prefix.
pub fn begin(prefix: &[(u32, u32)], trace_on: bool) {
    CH.with(|c| {
        let mut c = c.borrow_mut();
        c.prefix.clear();
        c.prefix.extend_from_slice(prefix);
        c.points.clear();
        c.divergence = None;
        c.trace_on = trace_on;
        c.trace.clear();
        c.steps = 0;
        c.tags.clear();
        c.violations.clear();
        c.sig = crate::util::H128::new();
    })
}

/// Everything one execution produced.
pub struct ExecOut {
    pub points: Vec<Point>,
    pub divergence: Option<String>,
    pub trace: Vec<String>,
    pub tags: Vec<std::borrow::Cow<'static, str>>,
    pub violations: Vec<super::Violation>,
    pub sig: u64,
    pub steps: u64,
}

/// Ends the execution and returns what it produced.
pub fn end() -> ExecOut {
    CH.with(|c| {
        let mut c = c.borrow_mut();
        let points = std::mem::take(&mut c.points);
        let mut divergence = c.divergence.take();
        let trace = std::mem::take(&mut c.trace);
        if divergence.is_none() && points.len() < c.prefix.len() {
            divergence = Some(format!(
                "execution ended after {} choice points but the replayed prefix has {}",
                points.len(),
                c.prefix.len()
            ));
        }
        ExecOut {
            points,
            divergence,
            trace,
            tags: std::mem::take(&mut c.tags),
            violations: std::mem::take(&mut c.violations),
            sig: c.sig.finish64(),
            steps: c.steps,
        }
    })
}

fn pick(n: usize, dev: bool, label: &'static str) -> usize {
    assert!(n >= 1, "choose(0) at {}", label);
    CH.with(|c| {
        let mut c = c.borrow_mut();
        let i = c.points.len();
        let mut choice = 0u32;
        if i < c.prefix.len() {
            let (ch, ar) = c.prefix[i];
            if (ar != 0 && ar as usize != n) || ch as usize >= n {
                if c.divergence.is_none() {
                    c.divergence = Some(format!(
                        "choice point {} ({}) has arity {} but the replayed prefix recorded choice {} of arity {}",
                        i, label, n, ch, ar
                    ));
                }
                choice = 0;
            } else {
                choice = ch;
            }
        }
        c.points.push(Point { arity: n as u32, choice, dev, label });
        choice as usize
    })
}

/// A free choice (e.g. which operation comes next): every alternative is explored.
pub fn choose(n: usize, label: &'static str) -> usize {
    if n == 1 {
        return 0;
    }
    pick(n, false, label)
}

/// An environment answer where 0 is the default and anything else is a deviation (bounded).
pub fn deviate(n: usize, label: &'static str) -> usize {
    if n == 1 {
        return 0;
    }
    pick(n, true, label)
}

pub fn trace_enabled() -> bool {
    CH.with(|c| c.borrow().trace_on)
}

pub fn trace_push(s: String) {
    CH.with(|c| c.borrow_mut().trace.push(s))
}

/// Counts one step towards the per-execution horizon; returns the count.
pub fn step() -> u64 {
    CH.with(|c| {
        let mut c = c.borrow_mut();
        c.steps += 1;
        c.steps
    })
}

pub fn deviations_so_far() -> usize {
    CH.with(|c| c.borrow().points.iter().filter(|p| p.dev && p.choice != 0).count())
}

/// Records an outcome category for this execution (vacuity statistics).
pub fn tag(t: &'static str) {
    CH.with(|c| c.borrow_mut().tags.push(std::borrow::Cow::Borrowed(t)))
}

pub fn tag_dyn(t: String) {
    CH.with(|c| c.borrow_mut().tags.push(std::borrow::Cow::Owned(t)))
}

/// Records a violation found in this execution.
pub fn report(v: super::Violation) {
    CH.with(|c| {
        let mut c = c.borrow_mut();
        if c.trace_on {
            let line = format!("!! VIOLATION {} [{}] {}", v.prop, v.kind, v.detail);
            c.trace.push(line);
        }
        // Bounded: a harness that keeps going after a violation must not exhaust memory.
        if c.violations.len() < 64 {
            c.violations.push(v)
        }
    })
}

pub fn has_violation() -> bool {
    CH.with(|c| !c.borrow().violations.is_empty())
}

/// Whether a violation of the given property (any property if None) has been reported.
pub fn has_violation_of(prop: Option<&'static str>) -> bool {
    CH.with(|c| c.borrow().violations.iter().any(|v| prop.is_none() || Some(v.prop) == prop))
}

/// Folds an observation into the execution's signature.
pub fn obs(v: u64) {
    CH.with(|c| c.borrow_mut().sig.u64(v))
}

pub fn obs_bytes(v: &[u8]) {
    CH.with(|c| c.borrow_mut().sig.bytes(v))
}

pub fn obs_str(v: &str) {
    CH.with(|c| c.borrow_mut().sig.str(v))
}
