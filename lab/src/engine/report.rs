//! Evidence files, VIOLATION / KNOWN-FINDING lines, replay files and exit codes.

use super::bfs::BfsStats;
use super::dfs::DfsStats;
use super::Violation;
use crate::util::J;
use std::collections::BTreeMap;
use std::time::Instant;

pub const VERIF_DIR: &str = "/verif";

#[derive(Clone, Copy, PartialEq, Eq, Debug)]
pub enum Tier {
    Quick,
    Thorough,
}

pub struct Args {
    pub tier: Tier,
    pub replay: Option<String>,
    pub extra: Vec<String>,
}

pub fn parse_args() -> Args {
    let mut tier = Tier::Quick;
    let mut replay = None;
    let mut extra = Vec::new();
    let mut it = std::env::args().skip(1);
    while let Some(a) = it.next() {
        match a.as_str() {
            "quick" => tier = Tier::Quick,
            "thorough" => tier = Tier::Thorough,
            "--replay" => replay = it.next(),
            _ => extra.push(a),
        }
    }
    if let Ok(t) = std::env::var("VERIF_TIER") {
        if std::env::args().len() <= 1 {
            if t == "thorough" {
                tier = Tier::Thorough
            }
        }
    }
    Args { tier, replay, extra }
}

struct Found {
    v: Violation,
    part: String,
    replay: J,
    trace: Vec<String>,
}

pub struct Check {
    pub prop: &'static str,
    pub tier: Tier,
    pub level: &'static str,
    start: Instant,
    parts: Vec<J>,
    found: Vec<Found>,
    other_prop: BTreeMap<String, u64>,
    machinery: Vec<String>,
    pub evaluations: u64,
    pub states: u64,
    pub transitions: u64,
    pub distinct: u64,
    pub exhaustive: bool,
    caps: Vec<String>,
    samples: Vec<J>,
    tags: BTreeMap<String, u64>,
    pub rule: String,
    pub assumptions: Vec<String>,
    profile: &'static str,
}

pub fn profile_name() -> &'static str {
    if cfg!(debug_assertions) { "checked" } else { "release" }
}

impl Check {
    pub fn new(prop: &'static str, tier: Tier, level: &'static str) -> Self {
        crate::util::install_quiet_panic_hook();
        // Driver-level checks of functional properties: a library panic on a valid sequence is a
        // violation. C07 (clean panics allowed) handles panics itself.
        crate::util::set_panic_prop(if prop == "C07" { None } else { Some(prop) });
        // Watchdog: whatever the code under test does (for instance a wait that neither ends nor
        // passes a busy-wait hook), the check itself terminates. Running out of this time is a
        // machinery error, not a verdict.
        {
            let limit = std::time::Duration::from_secs(match tier {
                Tier::Quick => 20 * 60,
                Tier::Thorough => 10 * 3600,
            });
            let _ = std::thread::Builder::new().name("watchdog".into()).spawn(move || {
                std::thread::sleep(limit);
                eprintln!("MACHINERY-ERROR: {} {:?}: the check did not finish within {} s (watchdog); no verdict", prop, tier, limit.as_secs());
                std::process::exit(2);
            });
        }
        Check {
            prop,
            tier,
            level,
            start: Instant::now(),
            parts: vec![],
            found: vec![],
            other_prop: BTreeMap::new(),
            machinery: vec![],
            evaluations: 0,
            states: 0,
            transitions: 0,
            distinct: 0,
            exhaustive: true,
            caps: vec![],
            samples: vec![],
            tags: BTreeMap::new(),
            rule: String::new(),
            assumptions: vec![],
            profile: profile_name(),
        }
    }

    pub fn machinery_error(&mut self, e: String) {
        self.machinery.push(e);
    }

    fn take_violation(&mut self, v: &Violation, part: &str, replay: J, trace: &[String]) {
        if v.prop != self.prop {
            *self.other_prop.entry(v.prop.to_string()).or_default() += 1;
            return;
        }
        self.found.push(Found { v: v.clone(), part: part.to_string(), replay, trace: trace.to_vec() });
    }

    pub fn add_dfs(&mut self, part: &str, st: &DfsStats) {
        self.evaluations += st.executions;
        self.transitions += st.choice_points.max(st.steps);
        self.states += st.distinct_sigs as u64;
        self.distinct += st.distinct_sigs as u64;
        for (k, v) in &st.tags {
            *self.tags.entry(k.clone()).or_default() += v;
        }
        if let Some(c) = &st.capped {
            self.exhaustive = false;
            self.caps.push(format!("{}: {}", part, c));
        }
        if let Some(e) = &st.machinery_error {
            self.machinery.push(format!("{}: {}", part, e));
        }
        for s in st.samples.iter().take(1) {
            if self.samples.len() < 6 && !s.is_empty() {
                self.samples.push(J::obj().set("part", J::s(part)).set("trace", J::strs(s.iter().cloned())));
            }
        }
        for f in &st.violations {
            let replay = J::obj()
                .set("kind", J::s("dfs"))
                .set("choices", J::Arr(f.choices.iter().map(|c| J::i(c.0)).collect()))
                .set("arities", J::Arr(f.choices.iter().map(|c| J::i(c.1)).collect()));
            self.take_violation(&f.v, part, replay, &f.trace);
        }
        let mut p = J::obj()
            .set("part", J::s(part))
            .set("mode", J::s("dfs-deviation-bounded"))
            .set("profile", J::s(self.profile))
            .set("max_deviations", J::i(st.max_dev))
            .set("executions", J::i(st.executions))
            .set("choice_points", J::i(st.choice_points))
            .set("steps", J::i(st.steps))
            .set("max_depth", J::i(st.max_depth))
            .set("distinct_observation_signatures", J::i(st.distinct_sigs))
            .set("executions_by_deviations", J::Arr(st.by_deviations.iter().map(|x| J::i(*x)).collect()))
            .set("determinism_rechecks", J::i(st.recheck_runs))
            .set("violating_executions", J::i(st.violation_count))
            .set("wall_s", J::Num(st.wall));
        if let Some(c) = &st.capped {
            p.put("capped", J::s(c.clone()));
        }
        self.parts.push(p);
    }

    pub fn add_bfs(&mut self, part: &str, st: &BfsStats) {
        self.evaluations += st.transitions;
        self.transitions += st.transitions;
        self.states += st.states;
        self.distinct += st.states;
        for (k, v) in &st.tags {
            *self.tags.entry(k.clone()).or_default() += v;
        }
        if let Some(c) = &st.capped {
            self.exhaustive = false;
            self.caps.push(format!("{}: {}", part, c));
        }
        if let Some(e) = &st.machinery_error {
            self.machinery.push(format!("{}: {}", part, e));
        }
        for s in st.samples.iter().take(1) {
            if self.samples.len() < 6 && !s.is_empty() {
                self.samples.push(J::obj().set("part", J::s(part)).set("trace", J::strs(s.iter().cloned())));
            }
        }
        for f in &st.violations {
            let replay = J::obj().set("kind", J::s("bfs")).set("history", J::Arr(f.history.iter().map(|c| J::i(*c)).collect()));
            self.take_violation(&f.v, part, replay, &f.trace);
        }
        let mut p = J::obj()
            .set("part", J::s(part))
            .set("mode", J::s("bfs-exact-state-dedup"))
            .set("profile", J::s(self.profile))
            .set("depth_bound", J::i(st.max_depth))
            .set("depth_completed", J::i(st.depth_completed))
            .set("fixpoint_reached", J::Bool(st.fixpoint))
            .set("states", J::i(st.states))
            .set("transitions", J::i(st.transitions))
            .set("levels_new_states_transitions", J::Arr(st.levels.iter().map(|(a, b)| J::Arr(vec![J::i(*a), J::i(*b)])).collect()))
            .set("frontier_hash", J::s(format!("{:016x}", st.frontier_hash)))
            .set("violating_transitions", J::i(st.violation_count))
            .set("wall_s", J::Num(st.wall));
        if let Some(c) = &st.capped {
            p.put("capped", J::s(c.clone()));
        }
        self.parts.push(p);
    }

    /// A flat enumeration (sweep) of a finite input space.
    pub fn add_sweep(&mut self, part: &str, evaluations: u64, distinct: u64, exhaustive: bool, extra: J) {
        self.evaluations += evaluations;
        self.distinct += distinct;
        self.states += distinct;
        self.transitions += evaluations;
        if !exhaustive {
            self.exhaustive = false;
        }
        let mut p = J::obj()
            .set("part", J::s(part))
            .set("mode", J::s("exhaustive-sweep"))
            .set("profile", J::s(self.profile))
            .set("evaluations", J::i(evaluations))
            .set("distinct_outcomes", J::i(distinct));
        if let J::Obj(o) = extra {
            for (k, v) in o {
                p.put(&k, v);
            }
        }
        self.parts.push(p);
    }

    pub fn add_violation(&mut self, v: Violation, part: &str, replay: J, trace: Vec<String>) {
        self.take_violation(&v, part, replay, &trace);
    }

    pub fn add_tags(&mut self, tags: &BTreeMap<String, u64>) {
        for (k, v) in tags {
            *self.tags.entry(k.clone()).or_default() += v;
        }
    }

    pub fn add_sample(&mut self, s: J) {
        if self.samples.len() < 8 {
            self.samples.push(s);
        }
    }

    pub fn elapsed(&self) -> f64 {
        self.start.elapsed().as_secs_f64()
    }

    /// Writes evidence, prints verdict lines and exits with the contract's exit code.
    pub fn finish(mut self) -> ! {
        let tier = if self.tier == Tier::Quick { "quick" } else { "thorough" };
        let seed: i128 = std::env::var("VERIF_SEED").ok().and_then(|s| s.parse().ok()).unwrap_or(0);
        let known = load_known(self.prop);
        let mut new_violations = 0;
        let mut known_hits: BTreeMap<String, u64> = BTreeMap::new();
        let mut printed = 0;
        let _ = std::fs::create_dir_all(format!("{}/replays", VERIF_DIR));
        // Deduplicate by (part, kind) keeping the first (shortest) instance.
        let mut seen_kinds: BTreeMap<(String, String), ()> = BTreeMap::new();
        let found = std::mem::take(&mut self.found);
        let mut violation_summaries = vec![];
        for f in &found {
            let k = known.iter().find(|k| f.v.kind.contains(&k.kind_contains) && f.part.contains(&k.part_contains));
            if let Some(k) = k {
                *known_hits.entry(k.description.clone()).or_default() += 1;
                continue;
            }
            new_violations += 1;
            if seen_kinds.insert((f.part.clone(), f.v.kind.clone()), ()).is_some() {
                continue;
            }
            if printed < 10 {
                let mut h = crate::util::H128::new();
                h.str(&f.part);
                h.str(&f.v.kind);
                h.str(&f.replay.render());
                let path = format!("{}/replays/{}-{:012x}.json", VERIF_DIR, self.prop, h.finish64() & 0xffff_ffff_ffff);
                let doc = J::obj()
                    .set("property", J::s(self.prop))
                    .set("profile", J::s(self.profile))
                    .set("part", J::s(f.part.clone()))
                    .set("violation_kind", J::s(f.v.kind.clone()))
                    .set("detail", J::s(f.v.detail.clone()))
                    .set("replay", f.replay.clone())
                    .set("trace", J::strs(f.trace.iter().cloned()));
                let _ = std::fs::write(&path, doc.render());
                println!("VIOLATION property={} replay={}", self.prop, path);
                println!("  part={} kind={} detail={}", f.part, f.v.kind, f.v.detail);
                violation_summaries.push(J::obj().set("part", J::s(f.part.clone())).set("kind", J::s(f.v.kind.clone())).set("detail", J::s(f.v.detail.clone())).set("replay", J::s(path)));
                printed += 1;
            }
        }
        for (d, n) in &known_hits {
            println!("KNOWN-FINDING: property={} {} ({} executions)", self.prop, d, n);
        }
        let wall = self.start.elapsed().as_secs_f64();
        let distinct_nontrivial = self.distinct.max(self.tags.len() as u64);
        let mut cov = J::obj()
            .set("evaluations", J::i(self.evaluations))
            .set("distinct_nontrivial", J::i(distinct_nontrivial))
            .set("rule", J::s(self.rule.clone()))
            .set("states", J::i(self.states))
            .set("transitions", J::i(self.transitions))
            .set("traces_validated_against_impl", J::i(self.evaluations))
            .set("exhaustive", J::Bool(self.exhaustive && self.machinery.is_empty()))
            .set("profile", J::s(self.profile))
            .set("outcome_counts", J::Obj(self.tags.iter().map(|(k, v)| (k.clone(), J::i(*v))).collect()))
            .set("parts", J::Arr(self.parts.clone()))
            .set("samples", J::Arr(if self.samples.is_empty() { vec![J::s("(no sample recorded)")] } else { self.samples.clone() }));
        if !self.caps.is_empty() {
            cov.put("caps_hit", J::strs(self.caps.iter().cloned()));
        }
        if !self.other_prop.is_empty() {
            cov.put("violations_of_other_properties_seen", J::Obj(self.other_prop.iter().map(|(k, v)| (k.clone(), J::i(*v))).collect()));
        }
        if !known_hits.is_empty() {
            cov.put("known_findings_hit", J::Obj(known_hits.iter().map(|(k, v)| (k.clone(), J::i(*v))).collect()));
        }
        if !violation_summaries.is_empty() {
            cov.put("violations", J::Arr(violation_summaries));
        }
        if !self.machinery.is_empty() {
            cov.put("machinery_errors", J::strs(self.machinery.iter().cloned()));
        }
        let ev = J::obj()
            .set("property_id", J::s(self.prop))
            .set("tier", J::s(tier))
            .set("seed", J::Int(seed))
            .set("level", J::s(self.level))
            .set("coverage", cov)
            .set("assumptions", J::strs(self.assumptions.iter().cloned()))
            .set("wall_s", J::Num(wall))
            .set("violations", J::i(new_violations));
        // Evidence for the two profiles is merged by the `check` script; each run writes its own file.
        let path = std::env::var("VLAB_EVIDENCE_OUT").unwrap_or_else(|_| format!("{}/evidence/{}.json", VERIF_DIR, self.prop));
        let _ = std::fs::create_dir_all(format!("{}/evidence", VERIF_DIR));
        if let Err(e) = std::fs::write(&path, ev.render()) {
            eprintln!("cannot write evidence {}: {}", path, e);
            std::process::exit(2);
        }
        println!(
            "{} {} [{}]: evaluations={} states={} transitions={} distinct={} exhaustive={} wall={:.1}s violations={} known={}",
            self.prop,
            tier,
            self.profile,
            self.evaluations,
            self.states,
            self.transitions,
            distinct_nontrivial,
            self.exhaustive,
            wall,
            new_violations,
            known_hits.values().sum::<u64>()
        );
        for m in &self.machinery {
            eprintln!("MACHINERY-ERROR: {}", m);
        }
        if new_violations > 0 {
            std::process::exit(1);
        }
        if !self.machinery.is_empty() {
            std::process::exit(2);
        }
        std::process::exit(0);
    }
}

pub struct Known {
    pub kind_contains: String,
    pub part_contains: String,
    pub description: String,
}

/// Minimal reader for /verif/known_findings.json: a JSON array of flat objects with string fields
/// `property`, `status` ("known" or "fixed"), `kind_contains`, `part_contains`, `description`.
pub fn load_known(prop: &str) -> Vec<Known> {
    let mut out = vec![];
    let Ok(s) = std::fs::read_to_string(format!("{}/known_findings.json", VERIF_DIR)) else {
        return out;
    };
    for obj in split_objects(&s) {
        let get = |k: &str| json_str_field(&obj, k).unwrap_or_default();
        if get("property") == prop && get("status") == "known" {
            out.push(Known { kind_contains: get("kind_contains"), part_contains: get("part_contains"), description: get("description") });
        }
    }
    out
}

fn split_objects(s: &str) -> Vec<String> {
    let mut out = vec![];
    let mut depth = 0;
    let mut cur = String::new();
    let mut in_str = false;
    let mut esc = false;
    for c in s.chars() {
        if in_str {
            cur.push(c);
            if esc {
                esc = false;
            } else if c == '\\' {
                esc = true;
            } else if c == '"' {
                in_str = false;
            }
            continue;
        }
        match c {
            '"' => {
                in_str = true;
                if depth > 0 {
                    cur.push(c)
                }
            }
            '{' => {
                depth += 1;
                cur.push(c);
            }
            '}' => {
                depth -= 1;
                cur.push(c);
                if depth == 0 {
                    out.push(std::mem::take(&mut cur));
                }
            }
            _ => {
                if depth > 0 {
                    cur.push(c)
                }
            }
        }
    }
    out
}

pub fn json_str_field(obj: &str, key: &str) -> Option<String> {
    let pat = format!("\"{}\"", key);
    let i = obj.find(&pat)?;
    let rest = &obj[i + pat.len()..];
    let rest = rest.trim_start().strip_prefix(':')?.trim_start();
    let rest = rest.strip_prefix('"')?;
    let mut out = String::new();
    let mut esc = false;
    for c in rest.chars() {
        if esc {
            out.push(match c {
                'n' => '\n',
                't' => '\t',
                c => c,
            });
            esc = false;
        } else if c == '\\' {
            esc = true;
        } else if c == '"' {
            return Some(out);
        } else {
            out.push(c);
        }
    }
    None
}

pub fn json_int_array_field(obj: &str, key: &str) -> Option<Vec<u64>> {
    let pat = format!("\"{}\"", key);
    let i = obj.find(&pat)?;
    let rest = &obj[i + pat.len()..];
    let rest = rest.trim_start().strip_prefix(':')?.trim_start();
    let rest = rest.strip_prefix('[')?;
    let end = rest.find(']')?;
    let mut v = vec![];
    for t in rest[..end].split(',') {
        let t = t.trim();
        if t.is_empty() {
            continue;
        }
        v.push(t.parse().ok()?);
    }
    Some(v)
}

/// A replay document read back from disk.
pub struct ReplayDoc {
    pub part: String,
    pub kind: String,
    pub choices: Vec<(u32, u32)>,
    pub history: Vec<u16>,
    pub raw: String,
}

pub fn load_replay(path: &str) -> Result<ReplayDoc, String> {
    let s = std::fs::read_to_string(path).map_err(|e| format!("{}: {}", path, e))?;
    let part = json_str_field(&s, "part").ok_or("replay: no part")?;
    let kind = json_str_field(&s, "kind").ok_or("replay: no kind")?;
    let ch = json_int_array_field(&s, "choices").unwrap_or_default();
    let ar = json_int_array_field(&s, "arities").unwrap_or_default();
    let choices = ch.iter().enumerate().map(|(i, c)| (*c as u32, ar.get(i).copied().unwrap_or(0) as u32)).collect();
    let history = json_int_array_field(&s, "history").unwrap_or_default().into_iter().map(|x| x as u16).collect();
    Ok(ReplayDoc { part, kind, choices, history, raw: s })
}
