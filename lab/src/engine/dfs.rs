//! Deviation-bounded depth-first exploration of choice sequences (CHESS-style iterative bounding),
//! parallel over a shared LIFO work list. Every execution runs to completion.

use super::chooser::{self, ExecOut};
use super::Violation;
use std::collections::{BTreeMap, HashSet};
use std::sync::atomic::{AtomicBool, AtomicU64, Ordering};
use std::sync::{Condvar, Mutex};
use std::time::{Duration, Instant};

#[derive(Clone)]
pub struct DfsConfig {
    pub name: String,
    pub max_dev: usize,
    pub threads: usize,
    pub wall_cap: Duration,
    pub exec_cap: u64,
    pub stack_mb: usize,
    /// Number of sample traces to keep.
    pub samples: usize,
}

impl DfsConfig {
    pub fn new(name: &str, max_dev: usize) -> Self {
        DfsConfig {
            name: name.to_string(),
            max_dev,
            threads: std::thread::available_parallelism().map(|n| n.get()).unwrap_or(8).min(16),
            wall_cap: Duration::from_secs(3600),
            exec_cap: u64::MAX,
            stack_mb: 64,
            samples: 3,
        }
    }
}

#[derive(Clone, Debug)]
pub struct FoundViolation {
    pub v: Violation,
    pub choices: Vec<(u32, u32)>,
    pub deviations: usize,
    pub trace: Vec<String>,
}

#[derive(Default, Debug)]
pub struct DfsStats {
    pub name: String,
    pub executions: u64,
    pub choice_points: u64,
    pub steps: u64,
    pub max_depth: usize,
    pub distinct_sigs: usize,
    pub tags: BTreeMap<String, u64>,
    pub by_deviations: Vec<u64>,
    pub violations: Vec<FoundViolation>,
    pub violation_count: u64,
    pub capped: Option<String>,
    pub machinery_error: Option<String>,
    pub samples: Vec<Vec<String>>,
    pub recheck_runs: u64,
    pub wall: f64,
    pub max_dev: usize,
}

struct Shared {
    work: Mutex<(Vec<Vec<(u32, u32)>>, usize)>, // (stack, active workers)
    cv: Condvar,
    stop: AtomicBool,
    hungry: AtomicBool,
    execs: AtomicU64,
}

struct Local {
    executions: u64,
    choice_points: u64,
    steps: u64,
    max_depth: usize,
    sigs: HashSet<u64>,
    tags: BTreeMap<String, u64>,
    by_dev: Vec<u64>,
    violations: Vec<FoundViolation>,
    violation_count: u64,
    machinery_error: Option<String>,
    samples: Vec<Vec<String>>,
    recheck: u64,
}

/// Runs one execution of `f` with the given prefix.
pub fn run_one(f: &(dyn Fn() + Sync), prefix: &[(u32, u32)], trace: bool) -> (ExecOut, Option<String>) {
    chooser::begin(prefix, trace);
    crate::crash::set_current(prefix);
    let r = crate::util::catch(|| f());
    crate::crash::clear_current();
    let mut escaped = r.err();
    // A panic raised inside the library under test (or the lab's livelock detector firing inside
    // a library busy-wait) that the harness did not expect is a verdict about the library when the
    // check says so; any other escaped panic is a harness bug.
    if let (Some(p), Some(prop)) = (&escaped, crate::util::panic_prop()) {
        if crate::util::is_driver_panic(p) {
            chooser::report(crate::engine::Violation::new(prop, "driver-panic", format!("the library panicked on a valid call sequence: {}", p)));
            escaped = None;
        } else if p.contains("LAB-LIVELOCK") {
            chooser::report(crate::engine::Violation::new(prop, "livelock", format!("the library keeps waiting although the device has answered: {}", p)));
            escaped = None;
        }
    }
    let out = chooser::end();
    (out, escaped)
}

pub fn explore(cfg: &DfsConfig, f: &(dyn Fn() + Sync)) -> DfsStats {
    let start = Instant::now();
    let shared = Shared {
        work: Mutex::new((vec![Vec::new()], 0)),
        cv: Condvar::new(),
        stop: AtomicBool::new(false),
        hungry: AtomicBool::new(true),
        execs: AtomicU64::new(0),
    };
    let capped: Mutex<Option<String>> = Mutex::new(None);
    let locals: Vec<Local> = std::thread::scope(|s| {
        let mut hs = Vec::new();
        for _ in 0..cfg.threads.max(1) {
            let shared = &shared;
            let capped = &capped;
            let cfg = cfg.clone();
            let h = std::thread::Builder::new()
                .stack_size(cfg.stack_mb << 20)
                .spawn_scoped(s, move || worker(&cfg, f, shared, capped, start))
                .unwrap();
            hs.push(h);
        }
        hs.into_iter().map(|h| h.join().expect("worker thread died")).collect()
    });
    let mut st = DfsStats { name: cfg.name.clone(), max_dev: cfg.max_dev, ..Default::default() };
    let mut sigs = HashSet::new();
    st.by_deviations = vec![0; cfg.max_dev + 1];
    for l in locals {
        st.executions += l.executions;
        st.choice_points += l.choice_points;
        st.steps += l.steps;
        st.max_depth = st.max_depth.max(l.max_depth);
        sigs.extend(l.sigs);
        for (k, v) in l.tags {
            *st.tags.entry(k).or_default() += v;
        }
        for (i, v) in l.by_dev.iter().enumerate() {
            if i < st.by_deviations.len() {
                st.by_deviations[i] += v;
            }
        }
        st.violations.extend(l.violations);
        st.violation_count += l.violation_count;
        if st.machinery_error.is_none() {
            st.machinery_error = l.machinery_error;
        }
        for s in l.samples {
            if st.samples.len() < cfg.samples {
                st.samples.push(s);
            }
        }
        st.recheck_runs += l.recheck;
    }
    st.distinct_sigs = sigs.len();
    st.capped = capped.into_inner().unwrap();
    // Report violations with the fewest deviations first, then shortest.
    st.violations.sort_by(|a, b| (a.deviations, a.choices.len(), &a.choices).cmp(&(b.deviations, b.choices.len(), &b.choices)));
    st.wall = start.elapsed().as_secs_f64();
    st
}

fn worker(
    cfg: &DfsConfig,
    f: &(dyn Fn() + Sync),
    shared: &Shared,
    capped: &Mutex<Option<String>>,
    start: Instant,
) -> Local {
    let mut l = Local {
        executions: 0,
        choice_points: 0,
        steps: 0,
        max_depth: 0,
        sigs: HashSet::new(),
        tags: BTreeMap::new(),
        by_dev: vec![0; cfg.max_dev + 1],
        violations: Vec::new(),
        violation_count: 0,
        machinery_error: None,
        samples: Vec::new(),
        recheck: 0,
    };
    let mut local: Vec<Vec<(u32, u32)>> = Vec::new();
    loop {
        // Fetch work: local stack first, then the shared one.
        let prefix = if let Some(p) = local.pop() {
            if shared.stop.load(Ordering::Relaxed) {
                let mut g = shared.work.lock().unwrap();
                g.1 -= 1;
                shared.cv.notify_all();
                return l;
            }
            p
        } else {
            let mut g = shared.work.lock().unwrap();
            loop {
                if shared.stop.load(Ordering::Relaxed) {
                    return l;
                }
                if let Some(p) = g.0.pop() {
                    g.1 += 1;
                    shared.hungry.store(g.0.len() < cfg.threads, Ordering::Relaxed);
                    break p;
                }
                if g.1 == 0 {
                    shared.cv.notify_all();
                    return l;
                }
                shared.hungry.store(true, Ordering::Relaxed);
                g = shared.cv.wait(g).unwrap();
            }
        };
        let n = shared.execs.fetch_add(1, Ordering::Relaxed);
        if n >= cfg.exec_cap || (n % 64 == 0 && start.elapsed() > cfg.wall_cap) {
            let mut c = capped.lock().unwrap();
            if c.is_none() {
                *c = Some(if n >= cfg.exec_cap {
                    format!("execution cap {} reached", cfg.exec_cap)
                } else {
                    format!("wall-clock cap {:?} reached", cfg.wall_cap)
                });
            }
            shared.stop.store(true, Ordering::Relaxed);
            let mut g = shared.work.lock().unwrap();
            g.1 -= 1;
            shared.cv.notify_all();
            return l;
        }
        let want_trace = l.samples.len() < cfg.samples && (l.executions % 1009 == 0);
        let (out, panic) = run_one(f, &prefix, want_trace);
        l.executions += 1;
        l.choice_points += out.points.len() as u64;
        l.steps += out.steps;
        l.max_depth = l.max_depth.max(out.points.len());
        l.sigs.insert(out.sig);
        for t in &out.tags {
            *l.tags.entry(t.to_string()).or_default() += 1;
        }
        let devs = out.points.iter().filter(|p| p.dev && p.choice != 0).count();
        if devs < l.by_dev.len() {
            l.by_dev[devs] += 1;
        }
        if want_trace {
            l.samples.push(out.trace.clone());
        }
        let choices: Vec<(u32, u32)> = out.points.iter().map(|p| (p.choice, p.arity)).collect();
        let mut fatal = None;
        if let Some(d) = &out.divergence {
            fatal = Some(format!("nondeterminism not owned: {}", d));
        }
        if let Some(p) = &panic {
            // A panic that escaped the harness is a harness bug, never a verdict.
            fatal = Some(format!("harness panic escaped: {} (choices {:?})", p, choices.iter().map(|c| c.0).collect::<Vec<_>>()));
        }
        // Determinism self-check: periodically re-run and compare.
        if fatal.is_none() && l.executions % 97 == 0 {
            let (o2, p2) = run_one(f, &choices, false);
            l.recheck += 1;
            if o2.sig != out.sig || o2.points.len() != out.points.len() || p2.is_some() || o2.divergence.is_some() {
                fatal = Some(format!("re-execution of the same choices differed (choices {:?})", choices.iter().map(|c| c.0).collect::<Vec<_>>()));
            }
        }
        if !out.violations.is_empty() && fatal.is_none() {
            l.violation_count += 1;
            if l.violations.len() < 64 {
                // Replay twice with tracing: must reproduce the same violation.
                let (o2, _) = run_one(f, &choices, true);
                let (o3, _) = run_one(f, &choices, true);
                let same = |o: &ExecOut| o.violations.first().map(|v| (v.prop, v.kind.clone())) == out.violations.first().map(|v| (v.prop, v.kind.clone()));
                if !same(&o2) || !same(&o3) {
                    fatal = Some(format!("violation did not reproduce on replay (choices {:?})", choices.iter().map(|c| c.0).collect::<Vec<_>>()));
                } else {
                    for v in &out.violations {
                        l.violations.push(FoundViolation { v: v.clone(), choices: choices.clone(), deviations: devs, trace: o2.trace.clone() });
                    }
                }
            }
        }
        if let Some(e) = fatal {
            l.machinery_error = Some(e);
            shared.stop.store(true, Ordering::Relaxed);
            let mut g = shared.work.lock().unwrap();
            g.1 -= 1;
            shared.cv.notify_all();
            return l;
        }
        // Children: alternatives at every point beyond the prefix.
        let mut children: Vec<Vec<(u32, u32)>> = Vec::new();
        let mut devs_before = out.points[..prefix.len().min(out.points.len())].iter().filter(|p| p.dev && p.choice != 0).count();
        for i in prefix.len()..out.points.len() {
            let p = out.points[i];
            let cost = devs_before + if p.dev { 1 } else { 0 };
            if cost <= cfg.max_dev {
                for alt in 1..p.arity {
                    let mut c = choices[..i].to_vec();
                    c.push((alt, p.arity));
                    children.push(c);
                }
            }
            if p.dev && p.choice != 0 {
                devs_before += 1;
            }
        }
        // Push in reverse so that simpler alternatives are explored first (LIFO).
        for c in children.into_iter().rev() {
            local.push(c);
        }
        if local.is_empty() {
            let mut g = shared.work.lock().unwrap();
            g.1 -= 1;
            shared.cv.notify_all();
        } else if local.len() > 1 && shared.hungry.load(Ordering::Relaxed) {
            // Donate the bottom half (the largest subtrees) to idle workers.
            let k = local.len() / 2;
            let mut g = shared.work.lock().unwrap();
            for p in local.drain(..k) {
                g.0.push(p);
            }
            shared.hungry.store(g.0.len() < cfg.threads, Ordering::Relaxed);
            shared.cv.notify_all();
        }
    }
}
