//! Level-synchronous breadth-first search with exact state de-duplication. States hold live
//! objects and raw pointers and cannot be cloned, so a frontier entry is the action history that
//! reaches the state, and expansion re-executes it from the initial state.

use super::chooser;
use super::Violation;
use std::collections::{BTreeMap, HashSet};
use std::sync::atomic::{AtomicBool, AtomicUsize, Ordering};
use std::sync::Mutex;
use std::time::{Duration, Instant};

pub struct BfsStep {
    /// Canonical key of the state reached.
    pub key: u128,
    /// Actions enabled in the state reached.
    pub enabled: Vec<u16>,
}

pub trait BfsModel: Sync {
    /// Executes `history` from the initial state, checking every oracle on the last step.
    /// Violations, tags and the trace go through the execution context (`chooser`).
    fn run(&self, history: &[u16]) -> BfsStep;
    fn describe(&self, action: u16) -> String;
}

#[derive(Clone)]
pub struct BfsConfig {
    pub name: String,
    pub max_depth: usize,
    pub threads: usize,
    pub wall_cap: Duration,
    pub state_cap: usize,
    pub stack_mb: usize,
    /// Only violations of this property stop expansion of a state (others are still recorded).
    pub focus: Option<&'static str>,
}

impl BfsConfig {
    pub fn new(name: &str, max_depth: usize) -> Self {
        BfsConfig {
            name: name.to_string(),
            max_depth,
            threads: std::thread::available_parallelism().map(|n| n.get()).unwrap_or(8).min(16),
            wall_cap: Duration::from_secs(3600),
            state_cap: 40_000_000,
            stack_mb: 64,
            focus: None,
        }
    }
}

#[derive(Clone, Debug)]
pub struct BfsViolation {
    pub v: Violation,
    pub history: Vec<u16>,
    pub trace: Vec<String>,
}

#[derive(Default, Debug)]
pub struct BfsStats {
    pub name: String,
    pub states: u64,
    pub transitions: u64,
    pub levels: Vec<(u64, u64)>, // (new states, transitions) per depth
    pub depth_completed: usize,
    pub max_depth: usize,
    pub tags: BTreeMap<String, u64>,
    pub violations: Vec<BfsViolation>,
    pub violation_count: u64,
    pub capped: Option<String>,
    pub machinery_error: Option<String>,
    pub frontier_hash: u64,
    pub samples: Vec<Vec<String>>,
    pub wall: f64,
    pub fixpoint: bool,
}

struct Entry {
    hist: Vec<u16>,
    enabled: Vec<u16>,
}

struct Cand {
    key: u128,
    hist: Vec<u16>,
    enabled: Vec<u16>,
}

pub fn explore(cfg: &BfsConfig, m: &dyn BfsModel) -> BfsStats {
    let start = Instant::now();
    let mut st = BfsStats { name: cfg.name.clone(), max_depth: cfg.max_depth, ..Default::default() };
    // Initial state.
    chooser::begin(&[], true);
    let r0 = crate::util::catch(|| m.run(&[]));
    let out0 = chooser::end();
    let s0 = match r0 {
        Ok(s) => s,
        Err(p) => {
            st.machinery_error = Some(format!("initial state panicked: {}", p));
            return st;
        }
    };
    if !out0.violations.is_empty() {
        st.violation_count += 1;
        for v in out0.violations {
            st.violations.push(BfsViolation { v, history: vec![], trace: out0.trace.clone() });
        }
    }
    let mut seen: HashSet<u128> = HashSet::new();
    seen.insert(s0.key);
    st.states = 1;
    let mut frontier = vec![Entry { hist: vec![], enabled: s0.enabled }];
    let stop = AtomicBool::new(false);
    let overflow = AtomicBool::new(false);
    for depth in 0..cfg.max_depth {
        if frontier.is_empty() {
            st.fixpoint = true;
            break;
        }
        let next_idx = AtomicUsize::new(0);
        let cand_count = AtomicUsize::new(0);
        let results: Mutex<Vec<(Vec<Cand>, u64, BTreeMap<String, u64>, Vec<BfsViolation>, u64, Option<String>, Vec<Vec<String>>)>> = Mutex::new(Vec::new());
        let frontier_ref = &frontier;
        let seen_ref = &seen;
        let want_samples = st.samples.len() < 3;
        std::thread::scope(|s| {
            for t in 0..cfg.threads.max(1) {
                let next_idx = &next_idx;
                let results = &results;
                let stop = &stop;
                let overflow = &overflow;
                let cand_count = &cand_count;
                let cand_cap = cfg.state_cap;
                let deadline = start + cfg.wall_cap;
                let focus = cfg.focus;
                std::thread::Builder::new()
                    .stack_size(cfg.stack_mb << 20)
                    .spawn_scoped(s, move || {
                        let mut cands: Vec<Cand> = Vec::new();
                        let mut local_seen: HashSet<u128> = HashSet::new();
                        let mut trans = 0u64;
                        let mut tags: BTreeMap<String, u64> = BTreeMap::new();
                        let mut viols: Vec<BfsViolation> = Vec::new();
                        let mut vcount = 0u64;
                        let mut err = None;
                        let mut samples = Vec::new();
                        'outer: loop {
                            let i = next_idx.fetch_add(16, Ordering::Relaxed);
                            if i >= frontier_ref.len() || stop.load(Ordering::Relaxed) {
                                break;
                            }
                            for e in &frontier_ref[i..(i + 16).min(frontier_ref.len())] {
                                let mut h = e.hist.clone();
                                h.push(0);
                                for &a in &e.enabled {
                                    *h.last_mut().unwrap() = a;
                                    let want_trace = want_samples && t == 0 && samples.len() < 2 && trans % 257 == 0;
                                    chooser::begin(&[], want_trace);
                                    let r = crate::util::catch(|| m.run(&h));
                                    let out = chooser::end();
                                    trans += 1;
                                    for tg in &out.tags {
                                        *tags.entry(tg.to_string()).or_default() += 1;
                                    }
                                    if want_trace {
                                        samples.push(out.trace.clone());
                                    }
                                    let step = match r {
                                        Ok(s) => s,
                                        Err(p) => {
                                            err = Some(format!("harness panic escaped: {} (history {:?})", p, h));
                                            stop.store(true, Ordering::Relaxed);
                                            break 'outer;
                                        }
                                    };
                                    if !out.violations.is_empty() {
                                        vcount += 1;
                                        if viols.len() < 32 {
                                            // Re-run twice with tracing; must reproduce.
                                            chooser::begin(&[], true);
                                            let _ = crate::util::catch(|| m.run(&h));
                                            let o2 = chooser::end();
                                            chooser::begin(&[], true);
                                            let _ = crate::util::catch(|| m.run(&h));
                                            let o3 = chooser::end();
                                            let k = |o: &chooser::ExecOut| o.violations.first().map(|v| (v.prop, v.kind.clone()));
                                            if k(&o2) != k(&out) || k(&o3) != k(&out) {
                                                err = Some(format!("violation did not reproduce (history {:?})", h));
                                                stop.store(true, Ordering::Relaxed);
                                                break 'outer;
                                            }
                                            for v in &out.violations {
                                                viols.push(BfsViolation { v: v.clone(), history: h.clone(), trace: o2.trace.clone() });
                                            }
                                        }
                                        // Do not expand beyond a state violating the property in focus.
                                        if focus.is_none() || out.violations.iter().any(|v| Some(v.prop) == focus) {
                                            continue;
                                        }
                                    }
                                    if !seen_ref.contains(&step.key) && local_seen.insert(step.key) {
                                        cands.push(Cand { key: step.key, hist: h.clone(), enabled: step.enabled });
                                        // Memory and time are bounded inside the level as well.
                                        let n = cand_count.fetch_add(1, Ordering::Relaxed);
                                        if n > cand_cap || (n % 4096 == 0 && Instant::now() > deadline) {
                                            overflow.store(true, Ordering::Relaxed);
                                            stop.store(true, Ordering::Relaxed);
                                            break 'outer;
                                        }
                                    }
                                }
                            }
                        }
                        results.lock().unwrap().push((cands, trans, tags, viols, vcount, err, samples));
                    })
                    .unwrap();
            }
        });
        let mut all: Vec<Cand> = Vec::new();
        let mut level_trans = 0;
        for (c, t, tags, v, vc, e, smp) in results.into_inner().unwrap() {
            all.extend(c);
            level_trans += t;
            for (k, n) in tags {
                *st.tags.entry(k).or_default() += n;
            }
            st.violations.extend(v);
            st.violation_count += vc;
            if st.machinery_error.is_none() {
                st.machinery_error = e;
            }
            for s in smp {
                if st.samples.len() < 3 {
                    st.samples.push(s);
                }
            }
        }
        st.transitions += level_trans;
        if st.machinery_error.is_some() {
            break;
        }
        if overflow.load(Ordering::Relaxed) {
            st.capped = Some(format!("state cap {} or wall-clock cap {:?} reached while expanding depth {}; depth {} was completed", cfg.state_cap, cfg.wall_cap, depth + 1, depth));
            break;
        }
        // Deterministic merge: smallest history wins per key.
        all.sort_by(|a, b| (a.key, &a.hist).cmp(&(b.key, &b.hist)));
        all.dedup_by(|b, a| a.key == b.key);
        let mut fh = crate::util::H128::new();
        fh.u64(st.frontier_hash);
        for c in &all {
            fh.u64(c.key as u64);
            fh.u64((c.key >> 64) as u64);
            seen.insert(c.key);
        }
        st.frontier_hash = fh.finish64();
        st.states += all.len() as u64;
        st.levels.push((all.len() as u64, level_trans));
        st.depth_completed = depth + 1;
        frontier = all.into_iter().map(|c| Entry { hist: c.hist, enabled: c.enabled }).collect();
        if start.elapsed() > cfg.wall_cap && depth + 1 < cfg.max_depth {
            st.capped = Some(format!("wall-clock cap {:?} reached after completing depth {}", cfg.wall_cap, depth + 1));
            break;
        }
        if seen.len() > cfg.state_cap && depth + 1 < cfg.max_depth {
            st.capped = Some(format!("state cap {} reached after completing depth {}", cfg.state_cap, depth + 1));
            break;
        }
    }
    if frontier.is_empty() {
        st.fixpoint = true;
    }
    st.violations.sort_by(|a, b| (a.history.len(), &a.history).cmp(&(b.history.len(), &b.history)));
    st.wall = start.elapsed().as_secs_f64();
    st
}
