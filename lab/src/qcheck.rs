//! Shared driver for the queue-core checks (C01, C03, C04 and the history part of C05).

use crate::engine::bfs::{self, BfsConfig, BfsModel};
use crate::engine::chooser;
use crate::engine::report::{Check, ReplayDoc, Tier};
use crate::qcore::{QCfg, QModel};
use std::time::Duration;

pub fn model_for(n: usize, cfg: QCfg) -> Option<Box<dyn BfsModel>> {
    Some(match n {
        1 => Box::new(QModel::<1> { cfg }),
        2 => Box::new(QModel::<2> { cfg }),
        4 => Box::new(QModel::<4> { cfg }),
        8 => Box::new(QModel::<8> { cfg }),
        16 => Box::new(QModel::<16> { cfg }),
        _ => return None,
    })
}

pub fn label(n: usize, cfg: &QCfg) -> String {
    match n {
        1 => cfg.label::<1>(),
        2 => cfg.label::<2>(),
        4 => cfg.label::<4>(),
        8 => cfg.label::<8>(),
        _ => cfg.label::<16>(),
    }
}

pub struct Plan {
    pub n: usize,
    pub depth: usize,
    pub cfgs: Vec<QCfg>,
}

pub fn all_flag_cfgs(offsets: &[u16], notify_ops: bool, legacy_too: bool) -> Vec<QCfg> {
    let mut v = vec![];
    for &off in offsets {
        for bits in 0..8u8 {
            let c = QCfg { indirect: bits & 1 != 0, event_idx: bits & 2 != 0, ap: bits & 4 != 0, legacy: false, start_off: off, notify_ops, abstract_idx: false, trace: false, reduced: false, preroll: 0, wait_pop: false, oom: false, bad_args: false, drop_op: false };
            v.push(c);
        }
        if legacy_too {
            v.push(QCfg { indirect: false, event_idx: false, ap: false, legacy: true, start_off: off, notify_ops, abstract_idx: false, trace: false, reduced: false, preroll: 0, wait_pop: false, oom: false, bad_args: false, drop_op: false });
            v.push(QCfg { indirect: true, event_idx: true, ap: false, legacy: true, start_off: off, notify_ops, abstract_idx: false, trace: false, reduced: false, preroll: 0, wait_pop: false, oom: false, bad_args: false, drop_op: false });
        }
    }
    v
}

pub fn run_plans(check: &mut Check, plans: &[Plan], wall_budget: Duration) {
    let start = std::time::Instant::now();
    let total: usize = plans.iter().map(|p| p.cfgs.len()).sum();
    let mut done = 0usize;
    for p in plans {
        for cfg in &p.cfgs {
            let part = label(p.n, cfg);
            let m = model_for(p.n, *cfg).expect("unsupported N");
            let mut bc = BfsConfig::new(&part, p.depth);
            // Each part may use up to four equal shares of what is left of the budget (most parts
            // need far less than one share, the store-traced ones more).
            let left = wall_budget.saturating_sub(start.elapsed());
            bc.wall_cap = (left / (total - done).max(1) as u32 * 4).min(left).max(Duration::from_secs(2));
            bc.state_cap = 4_000_000;
            done += 1;
            bc.focus = Some(check.prop);
            let st = bfs::explore(&bc, m.as_ref());
            check.add_bfs(&part, &st);
        }
    }
}

/// Replays a BFS history with full tracing and prints it.
pub fn replay(doc: &ReplayDoc) -> i32 {
    let Some((n, cfg)) = QCfg::parse(&doc.part) else {
        eprintln!("cannot parse part {}", doc.part);
        return 2;
    };
    let Some(m) = model_for(n, cfg) else { return 2 };
    crate::util::install_quiet_panic_hook();
    chooser::begin(&[], true);
    let r = crate::util::catch(|| m.run(&doc.history));
    let out = chooser::end();
    println!("replay of {} history {:?}", doc.part, doc.history);
    for (i, a) in doc.history.iter().enumerate() {
        println!("  action {}: {}", i, m.describe(*a));
    }
    for l in &out.trace {
        println!("{}", l);
    }
    if let Err(p) = r {
        println!("harness panic: {}", p);
        return 2;
    }
    if out.violations.is_empty() {
        println!("no violation on replay");
        0
    } else {
        for v in &out.violations {
            println!("VIOLATION property={} kind={} detail={}", v.prop, v.kind, v.detail);
        }
        1
    }
}

pub fn standard_assumptions() -> Vec<String> {
    vec![
        "sequentially consistent observation of queue memory (x86 host); hardware reordering is out of scope".into(),
        "state de-duplication renames platform-chosen device addresses by owner; sound because the queue code treats them as opaque values".into(),
        "queue sizes above 16 are not explored for history properties (layout is covered by C06)".into(),
    ]
}

pub fn tier_plans(tier: Tier, notify_ops: bool) -> Vec<Plan> {
    let wrap_offs = |d: usize| -> Vec<u16> {
        let mut v = vec![0u16];
        // Start so that both indices wrap inside the explored window.
        v.push(0u16.wrapping_sub((d / 2).max(1) as u16));
        v
    };
    match tier {
        Tier::Quick => vec![
            Plan { n: 1, depth: if notify_ops { 10 } else { 13 }, cfgs: all_flag_cfgs(&[0, 65533], notify_ops, true) },
            Plan { n: 2, depth: if notify_ops { 7 } else { 9 }, cfgs: all_flag_cfgs(&[0, 65533], notify_ops, true) },
            Plan { n: 4, depth: if notify_ops { 4 } else { 5 }, cfgs: all_flag_cfgs(&[0, 65534], notify_ops, false) },
            // Deeper histories over a reduced set of shapes (indirect and direct, no access_platform).
            Plan { n: 4, depth: if notify_ops { 5 } else { 7 }, cfgs: all_flag_cfgs(&[0], notify_ops, false).into_iter().filter(|c| !c.ap).map(|mut c| { c.reduced = true; c }).collect() },
            // From non-initial states: the queue has been filled and drained once (free list in
            // descending order, resp. drained in reverse completion order).
            Plan { n: 4, depth: 4, cfgs: all_flag_cfgs(&[0], notify_ops, false).into_iter().filter(|c| !c.ap).flat_map(|c| [1u8, 2].map(|p| { let mut c = c; c.preroll = p; c })).collect() },
            Plan { n: 8, depth: 3, cfgs: all_flag_cfgs(&[65530], notify_ops, false).into_iter().filter(|c| !c.ap).map(|mut c| { c.preroll = 1; c.reduced = true; c }).collect() },
            // With the blocking helper in the alphabet (also while earlier completions wait).
            Plan { n: 4, depth: 5, cfgs: all_flag_cfgs(&[0], false, false).into_iter().filter(|c| !c.ap).map(|mut c| { c.reduced = true; c.wait_pop = true; c }).collect() },
            Plan { n: 2, depth: 6, cfgs: all_flag_cfgs(&[65533], false, true).into_iter().filter(|c| !c.ap).map(|mut c| { c.wait_pop = true; c }).collect() },
            // Indirect queues with submissions during which the table allocation fails.
            Plan { n: 4, depth: 4, cfgs: all_flag_cfgs(&[0], false, false).into_iter().filter(|c| !c.ap && c.indirect).map(|mut c| { c.oom = true; c }).collect() },
            Plan { n: 4, depth: 5, cfgs: all_flag_cfgs(&[65534], false, false).into_iter().filter(|c| !c.ap && c.indirect).map(|mut c| { c.oom = true; c.reduced = true; c }).collect() },
            // Submissions that break the "no empty buffer" precondition: a refusal (instead of
            // the panic) must be as free of side effects as any other.
            Plan { n: 4, depth: 5, cfgs: all_flag_cfgs(&[0], false, false).into_iter().filter(|c| !c.ap && !c.event_idx).map(|mut c| { c.bad_args = true; c.reduced = true; c }).collect() },
        ],
        Tier::Thorough => vec![
            Plan { n: 1, depth: 16, cfgs: all_flag_cfgs(&[0, 65535, 65534, 65532, 65530, 65526], notify_ops, true) },
            Plan { n: 2, depth: 11, cfgs: all_flag_cfgs(&[0, 65535, 65533, 65531, 65528], notify_ops, true) },
            Plan { n: 4, depth: 6, cfgs: all_flag_cfgs(&[0, 65535, 65532], notify_ops, true) },
            Plan { n: 4, depth: 9, cfgs: all_flag_cfgs(&[0, 65533], notify_ops, false).into_iter().filter(|c| !c.ap).map(|mut c| { c.reduced = true; c }).collect() },
            Plan { n: 8, depth: 5, cfgs: all_flag_cfgs(&[0, 65533], notify_ops, false).into_iter().filter(|c| !c.ap).collect() },
            Plan { n: 8, depth: 7, cfgs: all_flag_cfgs(&[0], notify_ops, false).into_iter().filter(|c| !c.ap).map(|mut c| { c.reduced = true; c }).collect() },
            Plan { n: 16, depth: 4, cfgs: all_flag_cfgs(&[0, 65534], notify_ops, false).into_iter().filter(|c| !c.ap).collect() },
            Plan { n: 16, depth: 6, cfgs: all_flag_cfgs(&[0], notify_ops, false).into_iter().filter(|c| !c.ap).map(|mut c| { c.reduced = true; c }).collect() },
            Plan { n: 4, depth: 6, cfgs: all_flag_cfgs(&[0, 65533], notify_ops, true).into_iter().filter(|c| !c.ap).flat_map(|c| [1u8, 2].map(|p| { let mut c = c; c.preroll = p; c })).collect() },
            Plan { n: 8, depth: 5, cfgs: all_flag_cfgs(&[0, 65530], notify_ops, false).into_iter().filter(|c| !c.ap).flat_map(|c| [1u8, 2].map(|p| { let mut c = c; c.preroll = p; c.reduced = true; c })).collect() },
            Plan { n: 16, depth: 4, cfgs: all_flag_cfgs(&[65520], notify_ops, false).into_iter().filter(|c| !c.ap).map(|mut c| { c.preroll = 1; c.reduced = true; c }).collect() },
            Plan { n: 4, depth: 7, cfgs: all_flag_cfgs(&[0, 65533], false, true).into_iter().filter(|c| !c.ap).map(|mut c| { c.reduced = true; c.wait_pop = true; c }).collect() },
            Plan { n: 2, depth: 9, cfgs: all_flag_cfgs(&[0, 65533], false, true).into_iter().filter(|c| !c.ap).map(|mut c| { c.wait_pop = true; c }).collect() },
            Plan { n: 8, depth: 5, cfgs: all_flag_cfgs(&[0], false, false).into_iter().filter(|c| !c.ap).map(|mut c| { c.reduced = true; c.wait_pop = true; c }).collect() },
            Plan { n: 4, depth: 6, cfgs: all_flag_cfgs(&[0, 65533], false, true).into_iter().filter(|c| !c.ap && c.indirect).map(|mut c| { c.oom = true; c }).collect() },
            Plan { n: 8, depth: 5, cfgs: all_flag_cfgs(&[0], false, false).into_iter().filter(|c| !c.ap && c.indirect).map(|mut c| { c.oom = true; c.reduced = true; c }).collect() },
            Plan { n: 4, depth: 7, cfgs: all_flag_cfgs(&[0, 65533], false, false).into_iter().filter(|c| !c.ap).map(|mut c| { c.bad_args = true; c.reduced = true; c }).collect() },
        ],
    }
}

/// Linear (non-branching) histories with every step checked, for queue sizes beyond the BFS range
/// and for runs longer than 65536 submissions. Violations are attributed by property as usual.
pub fn run_linear(check: &mut Check, tier: Tier) {
    use crate::engine::chooser;
    use crate::qcore::{self, QCfg};
    use crate::util::J;
    fn one<const N: usize>(check: &mut Check, cfg: QCfg, cycles: usize) {
        let part = format!("linear-run:N={},indirect={},event_idx={},legacy={},off={},cycles={}", N, cfg.indirect as u8, cfg.event_idx as u8, cfg.legacy as u8, cfg.start_off, cycles);
        chooser::begin(&[], false);
        let steps = crate::util::catch(|| qcore::linear_run::<N>(cfg, cycles));
        let out = chooser::end();
        let subs = out.tags.iter().filter(|t| t.as_ref() == "add:ok").count() as u64;
        match steps {
            Ok(steps) => check.add_sweep(&part, steps, 1, true, J::obj().set("successful_submissions", J::i(subs)).set("index_wraps", J::i((subs + cfg.start_off as u64) / 65536))),
            Err(p) => check.machinery_error(format!("{}: harness panic: {}", part, p)),
        }
        let mut seen = std::collections::HashSet::new();
        for v in out.violations {
            if seen.insert((v.prop, v.kind.clone())) {
                check.add_violation(v, &part, J::obj().set("kind", J::s("linear")).set("note", J::s("deterministic linear history: re-run the check to reproduce")), vec![]);
            }
        }
    }
    let base = QCfg { indirect: false, event_idx: false, ap: false, legacy: false, start_off: 0, notify_ops: false, abstract_idx: false, trace: false, reduced: false, preroll: 0, wait_pop: false, oom: false, bad_args: false, drop_op: false };
    let ind = QCfg { indirect: true, event_idx: true, ..base };
    let long = if tier == Tier::Quick { 24_000 } else { 120_000 };
    let big = if tier == Tier::Quick { 150 } else { 1500 };
    one::<4>(check, base, long);
    one::<4>(check, ind, long);
    one::<32>(check, QCfg { start_off: 65500, ..base }, big * 4);
    one::<32>(check, QCfg { start_off: 65500, legacy: true, ..ind }, big * 4);
    one::<256>(check, QCfg { start_off: 65000, ..ind }, big);
    one::<256>(check, QCfg { legacy: true, ..base }, big);
    one::<1024>(check, QCfg { start_off: 64000, ..base }, big);
    one::<1024>(check, ind, big);
}
