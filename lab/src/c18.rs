//! C18: socket connection state follows the protocol and connections are isolated.

use crate::cosim;
use crate::drivers::{DWorld, Kind, TKind, TransportVisitor, F_EVENT_IDX, F_INDIRECT, F_VERSION_1, VSOCK_RX};
use crate::engine::chooser::{choose, obs, report, tag};
use crate::engine::Violation;
use crate::hal::{self, LabHal};
use crate::mmio;
use crate::tlog;
use crate::vsock_ref::*;
use virtio_drivers::device::socket::{DisconnectReason, SocketError, VirtIOSocket, VsockAddr, VsockConnectionManager, VsockEventType};
use virtio_drivers::transport::Transport;
use virtio_drivers::Error;

fn viol(kind: &str, d: String) {
    report(Violation::new("C18", kind, d));
}

pub const GUEST_CID: u64 = 0x0000_0001_0000_0003;
/// Peers differing from the first in exactly one field each: port only, cid only.
pub const PEERS3: [VsockAddr; 3] = [VsockAddr { cid: 2, port: 80 }, VsockAddr { cid: 2, port: 81 }, VsockAddr { cid: 5, port: 80 }];
/// Local ports; alphabets 0..3 use the first one or two, the listening-table alphabet (4) all.
pub const LPORTS: [u32; 4] = [1, 2, 3, 4];
pub const CAP: u32 = 4;
pub const PEER_BUF: u32 = 16;

#[derive(Clone, Debug)]
struct MConn {
    peer: VsockAddr,
    lport: u32,
    established: bool,
    shutdown_pending: bool,
    buffered: Vec<u8>,
    /// Peer credit as the driver knows it.
    k_buf_alloc: u32,
    k_fwd: u32,
    d_tx: u32,
    d_read: u32,
    credit_req_pending: bool,
}

#[derive(Clone, Debug, Default)]
struct PeerSide {
    rx_from_driver: u32,
    tx_to_driver: u32,
    stream_pos: u64,
    seen_d_fwd: u32,
}

struct Model {
    conns: Vec<MConn>,
    listening: Vec<u32>,
    /// Peer-side state per (peer, lport) pair, kept for ever (the peer's own view).
    peers: Vec<((VsockAddr, u32), PeerSide)>,
}

impl Model {
    fn find(&self, peer: VsockAddr, lport: u32) -> Option<usize> {
        self.conns.iter().position(|c| c.peer == peer && c.lport == lport)
    }
    fn pside(&mut self, peer: VsockAddr, lport: u32) -> &mut PeerSide {
        if let Some(i) = self.peers.iter().position(|p| p.0 == (peer, lport)) {
            return &mut self.peers[i].1;
        }
        self.peers.push(((peer, lport), PeerSide::default()));
        &mut self.peers.last_mut().unwrap().1
    }
    fn new_conn(peer: VsockAddr, lport: u32) -> MConn {
        MConn { peer, lport, established: false, shutdown_pending: false, buffered: vec![], k_buf_alloc: 0, k_fwd: 0, d_tx: 0, d_read: 0, credit_req_pending: false }
    }
}

fn cbyte(peer: VsockAddr, lport: u32, pos: u64) -> u8 {
    ((peer.cid * 31 + lport as u64 * 7 + pos * 3) % 251) as u8 + 1
}

/// Expected packet emitted by the driver: (op, peer, lport, payload length, flags).
type Exp = (u16, VsockAddr, u32, usize, u32);

struct V {
    depth: usize,
    level: u8,
}

impl TransportVisitor for V {
    type Out = ();
    fn visit<T: Transport + 'static>(self, t: T, w: &DWorld) {
        let dev = make_device(w);
        cosim::install(&dev.co);
        let sock = match VirtIOSocket::<LabHal, T, VSOCK_RX>::new(t) {
            Ok(s) => s,
            Err(e) => {
                viol("construction", format!("{:?}", e));
                cosim::uninstall();
                return;
            }
        };
        let mut cm = VsockConnectionManager::new_with_capacity(sock, CAP);
        #[allow(non_snake_case)]
        // In the life-cycle alphabet and with peers that differ in their cid only, the device
        // reports used lengths that include 6 bytes of padding behind every packet.
        PAD_USED.with(|p| p.set(if self.level == 5 || self.level == 3 { 6 } else { 0 }));
        let PEERS: [VsockAddr; 2] = if self.level == 3 { [PEERS3[0], PEERS3[2]] } else { [PEERS3[0], PEERS3[1]] };
        let mut m = Model { conns: vec![], listening: vec![], peers: vec![] };
        let mut tx_seen = 0usize;
        // Menu construction.
        let mut menu: Vec<(u8, usize, usize, usize)> = vec![];
        // Local operations: (kind, peer, lport, arg)
        let npeers = if self.level >= 1 { 2 } else { 1 };
        let nports = if self.level >= 1 { 2 } else { 1 };
        // Alphabet 4: the listening table. Three ports can be listened on and unlistened in any
        // order; connection requests arrive for those and for a port never listened on.
        let table = self.level == 4;
        // Alphabet 5: the life cycle of one connection to greater depth (connect/listen, the
        // peer's request, response, data, shutdown and reset in any order, reads and sends).
        let life = self.level == 5;
        if life {
            // (Established through connect + RESPONSE; the listening side is alphabet 4.)
            menu.push((2, 0, 0, 0)); // connect
            menu.push((3, 0, 0, 0)); // send
            menu.push((4, 0, 0, 0)); // recv
            menu.push((4, 0, 0, 2)); // recv into a buffer of exactly one packet's length
            menu.push((5, 0, 0, 0)); // shutdown
            menu.push((6, 0, 0, 0)); // force_close
            for oi in [1usize, 2, 3, 4, 9, 10] {
                menu.push((9, 0, 0, oi)); // RESPONSE, RST, SHUTDOWN, RW, SHUTDOWN with one hint only
            }
        }
        if !life {
            for lp in 0..if table { 3 } else { nports } {
                menu.push((0, 0, lp, 0)); // listen
            }
            for lp in 0..if table { 3 } else { 1 } {
                menu.push((1, 0, lp, 0)); // unlisten
            }
        }
        if table {
            for lp in 0..4 {
                menu.push((9, 0, lp, 0)); // REQUEST from the first peer
            }
        }
        let table = table || life;
        for p in 0..if table { 0 } else { npeers } {
            for lp in 0..nports {
                menu.push((2, p, lp, 0)); // connect
            }
            menu.push((3, p, 0, 0)); // send
            menu.push((4, p, 0, 0)); // recv
            if p == 0 {
                menu.push((4, p, 0, 1)); // recv into an empty buffer
                menu.push((4, p, 0, 2)); // recv into a buffer of exactly one packet's length
            }
            menu.push((6, p, 0, 0)); // force_close
        }
        if !table {
            menu.push((5, 0, 0, 0)); // shutdown(A,1)
            menu.push((7, 0, 0, 0)); // update_credit(A,1)
            menu.push((8, 0, 0, 0)); // poll (nothing pending)
        }
        // Peer packets: (9, peer, lport, op index)
        let ops: [u16; 9] = [OP_REQUEST, OP_RESPONSE, OP_RST, OP_SHUTDOWN, OP_RW, OP_CREDIT_UPDATE, OP_CREDIT_REQUEST, 0, 9];
        for p in 0..if table { 0 } else { npeers } {
            for lp in 0..nports {
                for oi in 0..ops.len() {
                    menu.push((9, p, lp, oi));
                }
                if p == 0 && lp == 0 {
                    // A completion whose used length is larger than the receive buffer: no
                    // packet, an error, and the buffer goes back like any other.
                    menu.push((9, p, lp, 11));
                }
            }
        }
        if !table {
            menu.push((10, 0, 0, 0)); // REQUEST for a foreign cid
            menu.push((10, 0, 0, 4)); // RW for a foreign cid
        }
        for step in 0..self.depth {
            let (kind, pi, lpi, arg) = menu[choose(menu.len(), "vsock state-machine event")];
            let peer = PEERS[pi];
            let lport = LPORTS[lpi];
            let mut exp: Vec<Exp> = vec![];
            match kind {
                0 => {
                    cm.listen(lport);
                    if !m.listening.contains(&lport) {
                        m.listening.push(lport);
                    }
                    tag("listen");
                }
                1 => {
                    cm.unlisten(lport);
                    m.listening.retain(|p| *p != lport);
                    tag("unlisten");
                }
                2 => {
                    let r = cm.connect(peer, lport);
                    tag("connect");
                    if m.find(peer, lport).is_some() {
                        if r != Err(Error::SocketDeviceError(SocketError::ConnectionExists)) {
                            viol("connect-duplicate", format!("connect to an existing connection -> {:?}, expected ConnectionExists", r));
                        }
                    } else {
                        if r != Ok(()) {
                            viol("connect", format!("connect -> {:?}", r));
                        }
                        m.conns.push(Model::new_conn(peer, lport));
                        exp.push((OP_REQUEST, peer, lport, 0, 0));
                    }
                }
                3 => {
                    let r = cm.send(peer, lport, &[0xAA, 0xBB]);
                    tag("send");
                    match m.find(peer, lport) {
                        None => {
                            if r != Err(Error::SocketDeviceError(SocketError::NotConnected)) {
                                viol("unknown-connection", format!("send on an unknown connection -> {:?}, expected NotConnected", r));
                            }
                        }
                        Some(i) => {
                            let c = &mut m.conns[i];
                            if c.shutdown_pending {
                                if r != Err(Error::SocketDeviceError(SocketError::PeerSocketShutdown)) {
                                    viol("send-after-shutdown", format!("send after the peer shut down -> {:?}", r));
                                }
                            } else {
                                let free = c.k_buf_alloc.saturating_sub(c.d_tx.wrapping_sub(c.k_fwd));
                                if free >= 2 {
                                    if r != Ok(()) {
                                        viol("send", format!("send with {} bytes of credit -> {:?}", free, r));
                                    }
                                    c.d_tx += 2;
                                    exp.push((OP_RW, peer, lport, 2, 0));
                                } else {
                                    if r != Err(Error::SocketDeviceError(SocketError::InsufficientBufferSpaceInPeer)) {
                                        viol("send", format!("send with {} bytes of credit -> {:?}", free, r));
                                    }
                                    if !c.credit_req_pending {
                                        exp.push((OP_CREDIT_REQUEST, peer, lport, 0, 0));
                                    }
                                    c.credit_req_pending = true;
                                }
                            }
                        }
                    }
                }
                4 => {
                    let mut buf3 = [0u8; 3];
                    let cap = match arg {
                        1 => 0,
                        2 => 2,
                        _ => 3,
                    };
                    let buf = &mut buf3[..cap];
                    let r = cm.recv(peer, lport, buf);
                    tag("recv");
                    match m.find(peer, lport) {
                        None => {
                            if r != Err(Error::SocketDeviceError(SocketError::NotConnected)) {
                                viol("unknown-connection", format!("recv on an unknown connection -> {:?}, expected NotConnected", r));
                            }
                        }
                        Some(i) => {
                            let k = m.conns[i].buffered.len().min(cap);
                            let want: Vec<u8> = m.conns[i].buffered.drain(..k).collect();
                            m.conns[i].d_read += k as u32;
                            if r != Ok(k) || buf[..k] != want[..] {
                                viol("recv-data", format!("recv -> {:?} {:?}, expected {} bytes {:?}", r, &buf[..], k, want));
                            }
                            if m.conns[i].shutdown_pending && m.conns[i].buffered.is_empty() {
                                exp.push((OP_RST, peer, lport, 0, 0));
                                m.conns.remove(i);
                            }
                        }
                    }
                }
                5 => {
                    let r = cm.shutdown(peer, lport);
                    tag("shutdown");
                    match m.find(peer, lport) {
                        None => {
                            if r != Err(Error::SocketDeviceError(SocketError::NotConnected)) {
                                viol("unknown-connection", format!("shutdown on an unknown connection -> {:?}", r));
                            }
                        }
                        Some(_) => {
                            if r != Ok(()) {
                                viol("shutdown", format!("{:?}", r));
                            }
                            exp.push((OP_SHUTDOWN, peer, lport, 0, 3));
                        }
                    }
                }
                6 => {
                    let r = cm.force_close(peer, lport);
                    tag("force_close");
                    match m.find(peer, lport) {
                        None => {
                            if r != Err(Error::SocketDeviceError(SocketError::NotConnected)) {
                                viol("unknown-connection", format!("force_close on an unknown connection -> {:?}", r));
                            }
                        }
                        Some(i) => {
                            if r != Ok(()) {
                                viol("force_close", format!("{:?}", r));
                            }
                            exp.push((OP_RST, peer, lport, 0, 0));
                            m.conns.remove(i);
                        }
                    }
                }
                7 => {
                    let r = cm.update_credit(peer, lport);
                    tag("update_credit");
                    match m.find(peer, lport) {
                        None => {
                            if r != Err(Error::SocketDeviceError(SocketError::NotConnected)) {
                                viol("unknown-connection", format!("update_credit on an unknown connection -> {:?}", r));
                            }
                        }
                        Some(i) => {
                            if m.conns[i].shutdown_pending {
                                if r != Err(Error::SocketDeviceError(SocketError::PeerSocketShutdown)) {
                                    viol("update-credit-after-shutdown", format!("{:?}", r));
                                }
                            } else {
                                if r != Ok(()) {
                                    viol("update_credit", format!("{:?}", r));
                                }
                                exp.push((OP_CREDIT_UPDATE, peer, lport, 0, 0));
                            }
                        }
                    }
                }
                8 => {
                    let r = cm.poll();
                    tag("poll:empty");
                    if r != Ok(None) {
                        viol("poll", format!("poll with nothing delivered -> {:?}", r));
                    }
                }
                _ => {
                    // A peer packet arrives and is polled.
                    let foreign = kind == 10;
                    // arg 9 / 10: a SHUTDOWN whose hints name only one direction (receive resp.
                    // send): still the peer's shutdown of this connection.
                    let overstated = arg == 11;
                    let (op, shut_flags) = match arg {
                        9 => (OP_SHUTDOWN, 1u32),
                        10 => (OP_SHUTDOWN, 2),
                        11 => (0, 3),
                        _ => (ops[arg], 3),
                    };
                    let dst_cid = if foreign { GUEST_CID + 1 } else { GUEST_CID };
                    let mut payload: Vec<u8> = vec![];
                    let (p_rx, p_tx, p_pos, seen_d_fwd) = {
                        let ps = m.pside(peer, lport);
                        (ps.rx_from_driver, ps.tx_to_driver, ps.stream_pos, ps.seen_d_fwd)
                    };
                    if op == OP_RW {
                        // Honour the credit the driver advertised on this connection.
                        let conn = m.find(peer, lport);
                        let room_model = conn.map(|i| CAP as usize - m.conns[i].buffered.len()).unwrap_or(CAP as usize);
                        let credit_peer = CAP.saturating_sub(p_tx.wrapping_sub(seen_d_fwd));
                        if room_model < 2 || credit_peer < 2 {
                            tag("peer:rw-not-allowed");
                            continue;
                        }
                        payload = vec![cbyte(peer, lport, p_pos), cbyte(peer, lport, p_pos + 1)];
                    }
                    let h = Hdr { src_cid: peer.cid, dst_cid, src_port: peer.port, dst_port: lport, len: payload.len() as u32, typ: 1, op, flags: if op == OP_SHUTDOWN { shut_flags } else { 0 }, buf_alloc: PEER_BUF, fwd_cnt: p_rx };
                    let delivered = if overstated { dev.deliver_raw(0, &h.encode(), VSOCK_RX as u32 + 1) } else { dev.deliver(0, &h, &payload) };
                    if delivered.is_none() {
                        viol("no-receive-buffer", "no receive buffer posted for an incoming packet".into());
                        break;
                    }
                    if op == OP_RW && !foreign {
                        let ps = m.pside(peer, lport);
                        ps.tx_to_driver += 2;
                        ps.stream_pos += 2;
                    }
                    let r = cm.poll();
                    tlog!("step {}: packet op {} from {:?} to cid {:#x} port {} -> {:?}", step, op, peer, dst_cid, lport, r);
                    tag("peer-packet");
                    let ci = if foreign { None } else { m.find(peer, lport) };
                    // Invalid / unknown operations are rejected before any connection lookup.
                    if overstated {
                        if r.is_ok() {
                            viol("overstated-length-accepted", format!("a completion with a used length of {} for a {}-byte receive buffer -> {:?}, expected an error", VSOCK_RX + 1, VSOCK_RX, r));
                        }
                    } else if op == 0 || op == 9 {
                        let want = if op == 0 { SocketError::InvalidOperation } else { SocketError::UnknownOperation(9) };
                        if r != Err(Error::SocketDeviceError(want)) {
                            viol("invalid-op", format!("packet with op {} -> {:?}", op, r));
                        }
                    } else if op == OP_REQUEST && !foreign {
                        if m.listening.contains(&lport) {
                            let i = match ci {
                                Some(i) => i,
                                None => {
                                    m.conns.push(Model::new_conn(peer, lport));
                                    m.conns.len() - 1
                                }
                            };
                            let c = &mut m.conns[i];
                            c.k_buf_alloc = PEER_BUF;
                            c.k_fwd = p_rx;
                            c.established = true;
                            exp.push((OP_RESPONSE, peer, lport, 0, 0));
                            match &r {
                                Ok(Some(ev)) if ev.event_type == VsockEventType::ConnectionRequest && ev.source == peer && ev.destination.port == lport => {}
                                other => viol("request-not-reported", format!("REQUEST to listening port {} -> {:?}", lport, other)),
                            }
                        } else {
                            exp.push((OP_RST, peer, lport, 0, 0));
                            if let Some(i) = ci {
                                m.conns.remove(i);
                            }
                            if r != Ok(None) {
                                viol("request-reported", format!("REQUEST to non-listening port {} -> {:?}, must be reset and not reported", lport, r));
                            }
                        }
                    } else {
                        match ci {
                            None => {
                                if r != Ok(None) {
                                    viol("unknown-connection-event", format!("packet op {} matching no connection -> {:?}, expected no event", op, r));
                                }
                            }
                            Some(i) => {
                                m.conns[i].k_buf_alloc = PEER_BUF;
                                m.conns[i].k_fwd = p_rx;
                                let want_ev = match op {
                                    OP_RESPONSE => {
                                        m.conns[i].established = true;
                                        Some(VsockEventType::Connected)
                                    }
                                    OP_RST | OP_SHUTDOWN => {
                                        let reason = if op == OP_RST { DisconnectReason::Reset } else { DisconnectReason::Shutdown };
                                        if m.conns[i].buffered.is_empty() {
                                            if op == OP_SHUTDOWN {
                                                exp.push((OP_RST, peer, lport, 0, 0));
                                            }
                                            m.conns.remove(i);
                                        } else {
                                            m.conns[i].shutdown_pending = true;
                                        }
                                        Some(VsockEventType::Disconnected { reason })
                                    }
                                    OP_RW => {
                                        m.conns[i].buffered.extend(&payload);
                                        Some(VsockEventType::Received { length: 2 })
                                    }
                                    OP_CREDIT_UPDATE => {
                                        m.conns[i].credit_req_pending = false;
                                        Some(VsockEventType::CreditUpdate)
                                    }
                                    _ => {
                                        exp.push((OP_CREDIT_UPDATE, peer, lport, 0, 0));
                                        None
                                    }
                                };
                                match (&r, want_ev) {
                                    (Ok(Some(ev)), Some(w)) if ev.event_type == w && ev.source == peer && ev.destination.port == lport => {}
                                    (Ok(None), None) => {}
                                    (r, w) => viol("event-mismatch", format!("packet op {} on connection {:?}:{} -> {:?}, expected event {:?}", op, peer, lport, r, w)),
                                }
                            }
                        }
                    }
                    // Whatever the outcome, the receive buffer goes back to the device.
                    let posted = dev.posted();
                    if posted != 8 {
                        viol("receive-buffer-not-returned", format!("{} receive buffers posted after polling a packet with op {} (outcome {:?}); the queue size is 8", posted, op, r.as_ref().map(|_| ()).map_err(|e| *e)));
                    }
                }
            }
            // Packets emitted.
            let new: Vec<(Hdr, Vec<u8>)> = dev.tx.borrow()[tx_seen..].to_vec();
            tx_seen += new.len();
            let got: Vec<Exp> = new.iter().map(|(h, p)| (h.op, VsockAddr { cid: h.dst_cid, port: h.dst_port }, h.src_port, p.len(), h.flags)).collect();
            if got != exp {
                viol("packets-emitted", format!("step emitted {:?}, expected {:?}", got, exp));
            }
            for (h, _p) in &new {
                if h.src_cid != GUEST_CID || h.typ != 1 || h.buf_alloc != CAP {
                    viol("header-fields", format!("{:?}", h));
                }
                let peer = VsockAddr { cid: h.dst_cid, port: h.dst_port };
                if h.op == OP_RW {
                    m.pside(peer, h.src_port).rx_from_driver += h.len;
                }
                m.pside(peer, h.src_port).seen_d_fwd = h.fwd_cnt;
            }
            for e in dev.malformed.borrow_mut().drain(..) {
                viol("packet-malformed", e);
            }
            for e in dev.co.borrow_mut().errors.drain(..) {
                viol("chain-malformed", e);
            }
            // Isolation: every (peer, port) pair agrees with the model.
            let mut sig = 0u64;
            for p in PEERS {
                for lp in LPORTS {
                    let est = cm.is_connection_established(p, lp);
                    let avail = cm.recv_buffer_available_bytes(p, lp);
                    match m.find(p, lp) {
                        None => {
                            if est.is_ok() || avail.is_ok() {
                                viol("phantom-connection", format!("connection {:?}:{} exists in the driver (established {:?}, buffered {:?}) but not in the reference model", p, lp, est, avail));
                            }
                            sig = sig * 7;
                        }
                        Some(i) => {
                            if est != Ok(m.conns[i].established) || avail != Ok(m.conns[i].buffered.len()) {
                                viol("connection-state", format!("connection {:?}:{}: driver says established {:?}, buffered {:?}; model says {} and {}", p, lp, est, avail, m.conns[i].established, m.conns[i].buffered.len()));
                            }
                            sig = sig * 7 + 1 + m.conns[i].established as u64 + 2 * m.conns[i].buffered.len() as u64;
                        }
                    }
                    if cm.is_local_port_used(lp) != (m.listening.contains(&lp) || m.conns.iter().any(|c| c.lport == lp)) {
                        viol("port-used", format!("is_local_port_used({}) disagrees with the model", lp));
                    }
                }
            }
            obs(sig);
            if crate::engine::chooser::has_violation() {
                break;
            }
        }
        drop(cm);
        PAD_USED.with(|p| p.set(0));
        cosim::uninstall();
    }
}

pub fn run(tkind: TKind, depth: usize, level: u8) {
    hal::reset();
    let feats = [F_VERSION_1, F_VERSION_1 | F_INDIRECT | F_EVENT_IDX];
    let offered = feats[choose(if level >= 2 { 2 } else { 1 }, "offered features")];
    let mut cfg = vec![0u8; 8];
    cfg.copy_from_slice(&GUEST_CID.to_le_bytes());
    let w = DWorld::new(Kind::Socket, tkind, offered, cfg);
    w.with_transport(V { depth, level });
    mmio::set_handler(None);
}
