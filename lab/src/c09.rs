//! C09: teardown and failed construction free each resource once, after quiescing.

use crate::alloc_watch;
use crate::cosim::{self, Action, CoDevice, CoRc};
use crate::dev::DevRc;
use crate::drivers::{construct, AnyDriver, DWorld, Kind, TKind, TransportVisitor, F_VERSION_1};
use crate::hal::{self, HalEvent};
use crate::mmio;
use virtio_drivers::transport::Transport;
use virtio_drivers::{Error, PAGE_SIZE};

#[derive(Clone, Debug)]
pub struct Case {
    pub kind: Kind,
    pub tkind: TKind,
    pub offered: u64,
    /// Make the k-th dma_alloc (0-based) fail.
    pub fail_at: Option<usize>,
    /// Truncate the configuration space to this many bytes.
    pub config_len: Option<usize>,
    /// Replace the configuration space.
    pub config: Option<Vec<u8>>,
    /// Number of usage-script steps to run before dropping (fault-free runs).
    pub usage: usize,
    /// GPU only: the k-th command (0-based, both queues) is answered with an error and has no
    /// effect on the device.
    pub gpu_err_at: Option<usize>,
    /// A previous owner left the device running (status 0xf) and the device's reset is slow: the
    /// first status reads after the reset write still return the old value.
    pub left_running: bool,
}

pub struct Out {
    pub class: String,
    pub viols: Vec<(String, String)>,
    pub dma_calls: usize,
    pub gpu_cmds: usize,
}

thread_local! {
    static GPU_CMDS: std::cell::Cell<usize> = const { std::cell::Cell::new(0) };
    static GPU_ERRS: std::cell::Cell<usize> = const { std::cell::Cell::new(0) };
    /// Backing regions that were attached when a driver operation last returned success: what a
    /// successful operation established stays allocated while attached, whatever the device
    /// answers to later commands.
    static ESTABLISHED: std::cell::RefCell<Vec<(u32, u64, u32)>> = const { std::cell::RefCell::new(Vec::new()) };
    static GD: std::cell::RefCell<Option<GpuRc>> = const { std::cell::RefCell::new(None) };
}

/// Records the outcome of one GPU driver operation.
fn gpu_op_done(ok: bool) {
    let att = GD.with(|g| g.borrow().as_ref().map(|g| g.borrow().attached())).unwrap_or_default();
    ESTABLISHED.with(|e| {
        let mut e = e.borrow_mut();
        if ok {
            *e = att;
        } else {
            e.retain(|x| att.contains(x));
        }
    });
}

type GpuRc = std::rc::Rc<std::cell::RefCell<crate::c20::GpuDev>>;

fn install_dealloc_hook(dev: &DevRc, gpu: Option<GpuRc>) {
    let dev = dev.clone();
    hal::with(|h| {
        h.dealloc_hook = Some(Box::new(move |paddr, pages| {
            let Ok(d) = dev.try_borrow() else { return None };
            let end = paddr + (pages * PAGE_SIZE) as u64;
            // Driver-owned memory which the (fault-free) device still has attached to one of its
            // resources is posted to the device just like a buffer on a queue.
            if let Some(g) = gpu.as_ref().and_then(|g| g.try_borrow().ok()) {
                if d.status & crate::dev::ST_DRIVER_OK != 0 {
                    // After a device error, only what an earlier successful operation established
                    // is held against the driver (memory attached by the very operation that then
                    // failed is outside the properties: "in the absence of device errors").
                    let errs = GPU_ERRS.with(|c| c.get());
                    let est = ESTABLISHED.with(|e| e.borrow().clone());
                    for (id, a, l) in g.attached().into_iter().filter(|x| errs == 0 || est.contains(x)) {
                        if a < end && paddr < a + l as u64 {
                            return Some(("dma-freed-while-attached".to_string(), format!("DMA region {:#x} (+{} pages) returned to the platform while the live device still has it attached as backing of resource {:#x}", paddr, pages, id)));
                        }
                    }
                }
            }
            for (qi, q) in d.queues.iter().enumerate() {
                if !d.live_on(qi) {
                    continue;
                }
                for (name, a) in [("descriptor", q.a.desc), ("driver", q.a.driver), ("device", q.a.device)] {
                    if a >= paddr && a < end {
                        return Some(("queue-memory-freed-while-live".to_string(), format!("DMA region {:#x} (+{} pages) holding the {} area of queue {} returned to the platform while the device is live on that queue (DRIVER_OK set, no reset, queue enabled)", paddr, pages, name, qi)));
                    }
                }
            }
            None
        }));
    });
}

struct V<'a> {
    case: &'a Case,
    co: CoRc,
}

pub struct VOut {
    class: String,
    viols: Vec<(String, String)>,
}

impl TransportVisitor for V<'_> {
    type Out = VOut;
    fn visit<T: Transport + 'static>(self, t: T, w: &DWorld) -> VOut {
        let mut viols = vec![];
        let kind = w.kind;
        let r = crate::util::catch(|| construct(kind, t));
        let class;
        match r {
            Err(p) => {
                class = "panic".to_string();
                viols.push(("construction-panic".to_string(), format!("construction panicked instead of returning an error: {}", p)));
            }
            Ok(Err(e)) => {
                class = format!("err:{:?}", e);
                if self.case.fail_at.is_some() && e != Error::DmaError {
                    viols.push(("wrong-error".to_string(), format!("a failing DMA allocation surfaced as {:?}, expected DmaError", e)));
                }
            }
            Ok(Ok(mut d)) => {
                class = "ok".to_string();
                // Caller-owned buffers live here so that they survive a panic in the script.
                let mut held_bufs = Keep::default();
                if let Err(p) = crate::util::catch(|| usage(&mut d, &self.co, self.case.usage, &mut held_bufs)) {
                    viols.push(("usage-panic".to_string(), format!("usage script panicked: {}", p)));
                }
                if let Err(p) = crate::util::catch(|| drop(d)) {
                    viols.push(("drop-panic".to_string(), format!("dropping the driver panicked: {}", p)));
                }
                drop(held_bufs);
            }
        }
        VOut { class, viols }
    }
}

/// Caller-owned things that must outlive the driver.
#[derive(Default)]
pub struct Keep {
    bufs: Vec<Box<[u8]>>,
    rx: Vec<virtio_drivers::device::net::RxBuffer>,
    blk: Vec<(Box<virtio_drivers::device::blk::BlkReq>, Box<virtio_drivers::device::blk::BlkResp>)>,
    tokens: Vec<u16>,
}

/// A short usage history per driver; leaves requests outstanding and receive queues stocked.
fn usage<T: Transport>(d: &mut AnyDriver<T>, co: &CoRc, steps: usize, keep: &mut Keep) {
    for step in 0..steps {
        match d {
            AnyDriver::Blk(b) => match step {
                0 => {
                    // The device raises DEVICE_NEEDS_RESET while a blocking request is outstanding
                    // and answers it (with an error) a little later: the call may only return when
                    // the device is done with the request's buffers (they live in the call's frame).
                    co.borrow_mut().responder = Box::new(|_, _, _| Action::Hold);
                    {
                        let c2 = co.clone();
                        let mut n = 0u32;
                        mmio::set_spin_handler(Some(Box::new(move |_site| {
                            n += 1;
                            let mut c = c2.borrow_mut();
                            match n {
                                1 => c.dev.borrow_mut().status |= 0x40,
                                3 => {
                                    if c.held_count(0) > 0 {
                                        let mut resp = vec![0u8; 512];
                                        resp.push(1);
                                        c.complete_held(0, 0, &resp, 513);
                                    }
                                }
                                x if x > 12 => panic!("LAB-LIVELOCK: blocking read keeps waiting although the device has answered"),
                                _ => {}
                            }
                        })));
                    }
                    let mut buf = [0u8; 512];
                    let r = b.read_blocks(1, &mut buf);
                    let still = co.borrow_mut().held_count(0);
                    if still > 0 {
                        hal::with(|h| h.fault("returned-while-posted", format!("read_blocks returned {:?} while the device still holds {} request(s) whose header, data and status buffers belong to that call (DRIVER_OK set, queue enabled, no reset)", r, still)));
                        // Let the device finish so that the history can go on.
                        let mut resp = vec![0u8; 512];
                        resp.push(1);
                        co.borrow_mut().complete_held(0, 0, &resp, 513);
                    }
                    co.borrow().dev.borrow_mut().status &= !0x40;
                    co.borrow_mut().responder = cosim::zero_responder(crate::drivers::Kind::Blk);
                    cosim::install(co);
                }
                1 => {
                    let mut buf = [0u8; 512];
                    let _ = b.read_blocks(1, &mut buf);
                }
                2 => {
                    // A non-blocking request which the device never completes.
                    co.borrow_mut().responder = Box::new(|_, _, _| Action::Hold);
                    let mut req = Box::new(virtio_drivers::device::blk::BlkReq::default());
                    let mut resp = Box::new(virtio_drivers::device::blk::BlkResp::default());
                    let mut buf = vec![0u8; 512].into_boxed_slice();
                    // SAFETY: the buffers are kept alive until after the driver is dropped.
                    let _ = unsafe { b.read_blocks_nb(0, &mut req, &mut buf, &mut resp) };
                    keep.bufs.push(buf);
                    keep.blk.push((req, resp));
                }
                _ => {
                    // Served again: a blocking request behind the outstanding one.
                    let kind = crate::drivers::Kind::Blk;
                    co.borrow_mut().responder = cosim::zero_responder(kind);
                    let _ = b.flush();
                }
            },
            AnyDriver::Console(c) => match step {
                0 => {
                    let _ = c.recv(true);
                }
                1 => {
                    co.borrow_mut().complete_held(0, 0, b"hi", 2);
                    let _ = c.recv(true);
                }
                _ => {
                    let _ = c.send(b'x');
                }
            },
            AnyDriver::Input(i) => match step {
                0 => {
                    co.borrow_mut().complete_held(0, 3, &[1, 0, 2, 0, 3, 0, 0, 0], 8);
                    let _ = i.pop_pending_event();
                }
                _ => {
                    let _ = i.pop_pending_event();
                }
            },
            AnyDriver::NetRaw(n) => match step {
                0 => {
                    let _ = n.send(&[1, 2, 3]);
                }
                1 => {
                    let mut buf = vec![0u8; 2048].into_boxed_slice();
                    // SAFETY: kept alive until after the driver is dropped.
                    let _ = unsafe { n.receive_begin(&mut buf) };
                    keep.bufs.push(buf);
                }
                _ => {
                    co.borrow_mut().responder = Box::new(|_, _, _| Action::Hold);
                    let buf = vec![0u8; 64].into_boxed_slice();
                    // SAFETY: kept alive until after the driver is dropped.
                    let _ = unsafe { n.transmit_begin(&buf) };
                    keep.bufs.push(buf);
                }
            },
            AnyDriver::NetBuf(n) => match step {
                0 => {
                    // Two frames arrive; the caller holds both buffers.
                    let mut frame = vec![0u8; 12];
                    frame.extend_from_slice(&[9, 9, 9]);
                    co.borrow_mut().complete_held(0, 1, &frame, frame.len() as u32);
                    co.borrow_mut().complete_held(0, 1, &frame, frame.len() as u32);
                    for _ in 0..2 {
                        if let Ok(rx) = n.receive() {
                            keep.rx.push(rx);
                        }
                    }
                }
                1 => {
                    // Recycled oldest first (they come back under each other's tokens).
                    while !keep.rx.is_empty() {
                        let rx = keep.rx.remove(0);
                        let _ = n.recycle_rx_buffer(rx);
                    }
                }
                3 => {
                    // Every posted buffer is used once more and received.
                    let mut frame = vec![0u8; 12];
                    frame.extend_from_slice(&[7, 7]);
                    loop {
                        let more = {
                            let mut c = co.borrow_mut();
                            c.service(0);
                            c.held.get(&0).map(|h| !h.is_empty()).unwrap_or(false)
                        };
                        if !more {
                            break;
                        }
                        co.borrow_mut().complete_held(0, 0, &frame, frame.len() as u32);
                    }
                    for _ in 0..crate::drivers::NET_QS {
                        if let Ok(rx) = n.receive() {
                            keep.rx.push(rx);
                        }
                    }
                }
                5 => {
                    // All buffers but one go back; the device then completes one of them with
                    // fewer bytes than a packet header (receive fails) while the caller still
                    // holds the last one.
                    while keep.rx.len() > 1 {
                        let rx = keep.rx.remove(0);
                        let _ = n.recycle_rx_buffer(rx);
                    }
                    co.borrow_mut().complete_held(0, 0, &[1, 2, 3], 3);
                    let _ = n.receive();
                }
                6 => {
                    // The held buffer goes back after the runt: whatever recycle answers, a
                    // buffer that has been posted must not be freed.
                    while !keep.rx.is_empty() {
                        let rx = keep.rx.remove(0);
                        let _ = n.recycle_rx_buffer(rx);
                    }
                }
                _ => {
                    let tx = n.new_tx_buffer(8);
                    let _ = n.send(tx);
                }
            },
            AnyDriver::Rng(r) => {
                let mut b = [0u8; 4];
                let _ = r.request_entropy(&mut b);
            }
            AnyDriver::Rtc(r) => {
                let _ = r.num_clocks();
            }
            AnyDriver::Socket(s) => match step {
                0 => {
                    let _ = s.poll(|_, _| Ok(None));
                }
                _ => {
                    use virtio_drivers::device::socket::{ConnectionInfo, VsockAddr};
                    let ci = ConnectionInfo::new(VsockAddr { cid: 2, port: 80 }, 1234);
                    let _ = s.connect(&ci);
                }
            },
            AnyDriver::Sound(s) => match step {
                0 => {
                    let _ = s.latest_notification();
                    // A blocking transfer of three periods to a device that looks at its transmit
                    // queue only while the driver busy-waits: the call may return only when the
                    // device is done with every period (their status and stream-id buffers live
                    // in the call's frame).
                    use virtio_drivers::device::sound::{PcmFeatures, PcmFormat, PcmRate};
                    let _ = s.output_streams();
                    let _ = s.pcm_set_params(0, 8, 4, PcmFeatures::empty(), 1, PcmFormat::U8, PcmRate::Rate8000);
                    let _ = s.pcm_prepare(0);
                    let _ = s.pcm_start(0);
                    co.borrow_mut().responder = Box::new(|q, chain, req| {
                        if q == 2 || q == 1 || q == 3 {
                            Action::Hold
                        } else {
                            let data = cosim::honest_response(Kind::Sound, q, req, chain.writable_len());
                            let n = data.len() as u32;
                            Action::Complete(data, n)
                        }
                    });
                    {
                        let c2 = co.clone();
                        let mut n = 0u32;
                        mmio::set_spin_handler(Some(Box::new(move |_site| {
                            n += 1;
                            let mut c = c2.borrow_mut();
                            if n % 2 == 0 && c.held_count(2) > 0 {
                                let mut done = [0u8; 8];
                                done[0..4].copy_from_slice(&0x8000u32.to_le_bytes());
                                c.complete_held(2, 0, &done, 8);
                            }
                            if n > 60 {
                                panic!("LAB-LIVELOCK: pcm_xfer keeps waiting although the device has answered");
                            }
                        })));
                    }
                    let r = s.pcm_xfer(0, &[1, 2, 3, 4, 5, 6, 7, 8, 9, 10, 11, 12]);
                    let still = co.borrow_mut().held_count(2);
                    if still > 0 {
                        hal::with(|h| h.fault("returned-while-posted", format!("pcm_xfer returned {:?} while the device still holds {} period(s) of that call on the transmit queue (DRIVER_OK set, queue enabled, no reset)", r, still)));
                        while co.borrow_mut().held_count(2) > 0 {
                            let mut done = [0u8; 8];
                            done[0..4].copy_from_slice(&0x8000u32.to_le_bytes());
                            co.borrow_mut().complete_held(2, 0, &done, 8);
                        }
                    }
                    let _ = s.pcm_stop(0);
                    co.borrow_mut().responder = cosim::honest_responder(Kind::Sound);
                    cosim::install(co);
                }
                1 => {
                    use virtio_drivers::device::sound::{PcmFeatures, PcmFormat, PcmRate};
                    let _ = s.output_streams();
                    let _ = s.pcm_set_params(0, 8, 4, PcmFeatures::empty(), 1, PcmFormat::U8, PcmRate::Rate8000);
                    // A non-blocking transfer which the device does not complete: its buffers are
                    // owned by the driver and stay posted.
                    // (Requests on the other queues are answered as before.)
                    co.borrow_mut().responder = Box::new(|q, chain, req| {
                        if q == 2 {
                            Action::Hold
                        } else if q == 1 || q == 3 {
                            Action::Hold
                        } else {
                            let data = cosim::honest_response(Kind::Sound, q, req, chain.writable_len());
                            let n = data.len() as u32;
                            Action::Complete(data, n)
                        }
                    });
                    if let Ok(tok) = s.pcm_xfer_nb(0, &[1, 2, 3, 4]) {
                        keep.tokens.push(tok);
                    }
                }
                3 => {
                    // Control operations on the stream while its transfers are still in flight:
                    // nothing that is posted on the transmit queue may be freed by them.
                    let _ = s.pcm_stop(0);
                    let _ = s.pcm_release(0);
                    let _ = s.pcm_prepare(0);
                }
                _ => {
                    // Polling it early must not release anything.
                    if let Some(tok) = keep.tokens.last().copied() {
                        let _ = s.pcm_xfer_ok(tok);
                    }
                    if let Ok(tok2) = s.pcm_xfer_nb(0, &[5, 6, 7, 8]) {
                        keep.tokens.push(tok2);
                    }
                }
            },
            AnyDriver::Gpu(g) => match step {
                // Operations that allocate DMA memory after construction.
                0 => {
                    gpu_op_done(g.setup_framebuffer().is_ok());
                }
                1 => {
                    gpu_op_done(g.setup_cursor(&vec![0u8; 64 * 64 * 4], 1, 2, 3, 4).is_ok());
                }
                2 => {
                    gpu_op_done(g.change_resolution(33, 32).is_ok());
                    gpu_op_done(g.flush().is_ok());
                }
                // The same operations again: what they replace must not be released while the
                // device still uses it.
                3 => {
                    gpu_op_done(g.setup_cursor(&vec![0x55u8; 64 * 64 * 4], 5, 6, 7, 8).is_ok());
                }
                4 => {
                    gpu_op_done(g.change_resolution(16, 8).is_ok());
                }
                _ => {
                    gpu_op_done(g.setup_framebuffer().is_ok());
                }
            },
            AnyDriver::P9(p) => {
                let mut resp = [0u8; 16];
                let _ = p.request(&[7, 0, 0, 0, 100, 0, 0], &mut resp);
            }
        }
    }
}

pub fn run_case(case: &Case) -> Out {
    hal::reset();
    hal::with(|h| h.fail_dma_at = case.fail_at);
    let mut cfg = case.config.clone().unwrap_or_else(|| case.kind.default_config());
    if let Some(l) = case.config_len {
        cfg.truncate(l);
    }
    let w = DWorld::new(case.kind, case.tkind, case.offered, cfg);
    if case.left_running {
        let mut d = w.dev.borrow_mut();
        d.status_quirk = 2;
        d.status = 0xf;
    }
    GPU_CMDS.with(|c| c.set(0));
    GPU_ERRS.with(|c| c.set(0));
    ESTABLISHED.with(|e| e.borrow_mut().clear());
    let err_at = case.gpu_err_at;
    let gd: GpuRc = std::rc::Rc::new(std::cell::RefCell::new(crate::c20::GpuDev { display: (40, 30), ..Default::default() }));
    GD.with(|g| *g.borrow_mut() = if case.kind == Kind::Gpu { Some(gd.clone()) } else { None });
    install_dealloc_hook(&w.dev, if case.kind == Kind::Gpu { Some(gd.clone()) } else { None });
    let co = if case.kind == Kind::Gpu {
        // The GPU needs meaningful answers for its allocating operations.
        CoDevice::new(
            w.dev.clone(),
            Box::new(move |q, chain, readable| {
                let mut g = gd.borrow_mut();
                let mut errs = vec![];
                let cmd = crate::c20::decode_gpu(readable, &mut errs);
                let k = GPU_CMDS.with(|c| {
                    let k = c.get();
                    c.set(k + 1);
                    k
                });
                let inject = if err_at == Some(k) {
                    GPU_ERRS.with(|c| c.set(c.get() + 1));
                    Some(crate::c20::RESP_ERR_UNSPEC)
                } else {
                    None
                };
                let resp = g.exec(q, &cmd, inject);
                g.log.clear();
                let n = resp.len().min(chain.writable_len());
                Action::Complete(resp[..n].to_vec(), n as u32)
            }),
        )
    } else {
        CoDevice::new(w.dev.clone(), cosim::honest_responder(case.kind))
    };
    co.borrow_mut().spin_horizon = 16;
    cosim::install(&co);
    alloc_watch::arm(&w.dev);
    let r = w.with_transport(V { case, co: co.clone() });
    let hits = alloc_watch::disarm();
    cosim::uninstall();
    mmio::set_handler(None);
    GD.with(|g| *g.borrow_mut() = None);
    let mut viols = r.viols;
    for h in hits {
        viols.push(("buffer-freed-while-posted".to_string(), h));
    }
    let (live, faults, calls, allocs, deallocs) = hal::with(|h| {
        (
            h.live_dma().map(|e| format!("{:#x}+{}p", e.paddr, e.pages)).collect::<Vec<_>>(),
            std::mem::take(&mut h.faults),
            h.dma_calls,
            h.log.iter().filter(|e| matches!(e, HalEvent::DmaAlloc { failed: false, .. })).count(),
            h.log.iter().filter(|e| matches!(e, HalEvent::DmaDealloc { .. })).count(),
        )
    });
    if !live.is_empty() {
        viols.push(("dma-leak".to_string(), format!("DMA regions never returned: {:?}", live)));
    }
    if allocs != deallocs {
        viols.push(("dealloc-count".to_string(), format!("{} dma_dealloc calls for {} successful allocations", deallocs, allocs)));
    }
    for (k, d) in faults {
        if k.starts_with("dma") || k.starts_with("queue-memory") || k == "returned-while-posted" {
            viols.push((k, d));
        }
    }
    if w.dev.borrow().status != 0 {
        viols.push(("device-not-reset".to_string(), format!("device status {:#x} after everything was dropped", w.dev.borrow().status)));
    }
    if case.fail_at.map(|k| k < calls).unwrap_or(false) && r.class == "ok" && case.usage == 0 {
        viols.push(("failure-ignored".to_string(), "a DMA allocation failed but construction reported success".to_string()));
    }
    Out { class: r.class, viols, dma_calls: calls, gpu_cmds: GPU_CMDS.with(|c| c.get()) }
}

pub fn base_case(kind: Kind, tkind: TKind) -> Case {
    Case { kind, tkind, offered: F_VERSION_1 | kind.device_specific_supported(), fail_at: None, config_len: None, config: None, usage: 0, gpu_err_at: None, left_running: false }
}
