//! C13: configuration-space bounds and torn multi-field reads.

use crate::dev::DevRc;
use crate::drivers::{construct, AnyDriver, DWorld, Kind, TKind, TransportVisitor};
use crate::engine::chooser::{deviate, obs, report, tag};
use crate::engine::Violation;
use crate::hal;
use crate::mmio;
use crate::regdev::{RegAccess, RegWorld, Region};
use crate::tlog;
use std::cell::RefCell;
use std::rc::Rc;
use virtio_drivers::transport::Transport;
use virtio_drivers::Error;
use zerocopy::{FromBytes, Immutable, IntoBytes};

// ------------------------------------------------------------------------------------------
// (a) bounds

pub struct BoundsOut {
    pub evals: u64,
    pub ok: u64,
    pub refused: u64,
    pub viols: Vec<(String, String)>,
}

fn one_access<T: Transport, V: FromBytes + IntoBytes + Immutable + Copy + PartialEq + core::fmt::Debug>(t: &mut T, w: &DWorld, window: Option<usize>, offset: usize, write: bool, val: V, out: &mut BoundsOut) {
    let size = core::mem::size_of::<V>();
    w.trace.borrow_mut().clear();
    let cfg_before = w.dev.borrow().config.clone();
    let r: Result<Result<Option<V>, Error>, String> = crate::util::catch(|| if write { t.write_config_space::<V>(offset, val).map(|_| None) } else { t.read_config_space::<V>(offset).map(Some) });
    let tr: Vec<RegAccess> = w.trace.borrow().clone();
    out.evals += 1;
    let inside = match window {
        Some(wl) => (offset as u128) + (size as u128) <= wl as u128,
        None => false,
    };
    let ctx = format!("{} of {} bytes at offset {:#x} with a {}-byte window on {}", if write { "write" } else { "read" }, size, offset, window.map(|x| x as i64).unwrap_or(-1), w.tkind.name());
    let cfg_region = if w.tkind == TKind::Pci { Region::PciDevCfg } else { Region::MmioConfig };
    match r {
        Err(p) => out.viols.push(("config-access-panic".into(), format!("{}: panicked: {}", ctx, p))),
        Ok(Ok(v)) => {
            out.ok += 1;
            if !inside {
                out.viols.push(("config-access-out-of-window".into(), format!("{}: succeeded although it does not lie wholly inside the window", ctx)));
            }
            // Exactly those bytes.
            let mut covered = vec![0u8; size];
            for a in &tr {
                if a.region != cfg_region || a.write != write {
                    out.viols.push(("config-access-stray".into(), format!("{}: performed {:?}", ctx, a)));
                    continue;
                }
                for i in 0..a.width as usize {
                    let b = a.off as usize + i;
                    if b < offset || b >= offset + size {
                        out.viols.push(("config-access-extra-bytes".into(), format!("{}: touched byte {:#x} outside the requested range", ctx, b)));
                    } else {
                        covered[b - offset] += 1;
                    }
                }
            }
            if inside && covered.iter().any(|c| *c != 1) {
                out.viols.push(("config-access-coverage".into(), format!("{}: bytes touched {:?} (each must be touched exactly once)", ctx, covered)));
            }
            if inside {
                if let Some(v) = v {
                    if v.as_bytes() != &cfg_before[offset..offset + size] {
                        out.viols.push(("config-read-value".into(), format!("{}: returned {:?}, device holds {:?}", ctx, v.as_bytes(), &cfg_before[offset..offset + size])));
                    }
                } else if w.dev.borrow().config[offset..offset + size] != *val.as_bytes() {
                    out.viols.push(("config-write-value".into(), format!("{}: device now holds {:?}, wrote {:?}", ctx, &w.dev.borrow().config[offset..offset + size], val.as_bytes())));
                }
            }
        }
        Ok(Err(e)) => {
            out.refused += 1;
            let want = if window.is_none() { Error::ConfigSpaceMissing } else { Error::ConfigSpaceTooSmall };
            if inside {
                out.viols.push(("config-access-refused".into(), format!("{}: failed with {:?} although it lies wholly inside the window", ctx, e)));
            } else if e != want {
                out.viols.push(("config-access-wrong-error".into(), format!("{}: failed with {:?}, expected {:?}", ctx, e, want)));
            }
            if !tr.is_empty() {
                out.viols.push(("config-access-after-refusal".into(), format!("{}: refused but performed {:?}", ctx, tr)));
            }
        }
    }
}

fn offsets(align: usize, window: usize) -> Vec<usize> {
    let mut v: Vec<usize> = (0..=window + 8).filter(|o| o % align == 0).collect();
    for k in 0..=16usize {
        let o = usize::MAX - k;
        if o % align == 0 {
            v.push(o);
        }
    }
    for o in [usize::MAX / 2 + 1, (usize::MAX / 2 + 1) - 4, 1usize << 32, (1usize << 32) - 4] {
        if o % align == 0 {
            v.push(o);
        }
    }
    v
}

struct BoundsVisitor {
    window: Option<usize>,
}

impl TransportVisitor for BoundsVisitor {
    type Out = BoundsOut;
    fn visit<T: Transport + 'static>(self, mut t: T, w: &DWorld) -> BoundsOut {
        let mut out = BoundsOut { evals: 0, ok: 0, refused: 0, viols: vec![] };
        let wl = self.window.unwrap_or(0);
        macro_rules! ty {
            ($t:ty, $align:expr, $val:expr) => {
                for o in offsets($align, wl) {
                    for write in [false, true] {
                        one_access::<T, $t>(&mut t, w, self.window, o, write, $val, &mut out);
                    }
                }
            };
        }
        ty!(u8, 1, 0xA1u8);
        ty!(u16, 2, 0xB2B1u16);
        ty!(u32, 4, 0xC4C3_C2C1u32);
        ty!([u8; 3], 1, [1u8, 2, 3]);
        ty!([u8; 6], 1, [1u8, 2, 3, 4, 5, 6]);
        ty!([u32; 2], 4, [0x1111_1111u32, 0x2222_2222]);
        ty!([u32; 3], 4, [0x1111_1111u32, 0x2222_2222, 0x3333_3333]);
        std::mem::forget(t);
        out
    }
}

/// Bounds sweep for one transport kind and one window size (None = no device-config capability).
pub fn bounds_case(tkind: TKind, window: Option<usize>) -> BoundsOut {
    hal::reset();
    let cfg: Vec<u8> = (0..window.unwrap_or(0)).map(|i| 0x40u8.wrapping_add(i as u8)).collect();
    let w = DWorld::new(Kind::Blk, tkind, 0, cfg);
    // The effective window of the PCI transport is a whole number of 32-bit words.
    let eff = match (tkind, window) {
        (TKind::Pci, Some(x)) => Some(x / 4 * 4),
        (_, x) => x,
    };
    let r = w.with_transport(BoundsVisitor { window: eff });
    mmio::set_handler(None);
    r
}

// ------------------------------------------------------------------------------------------
// (b) torn reads

/// Two sequences over the generations such that every (a, b) pair is new while each component
/// returns to an earlier value: a = 0,1,0,2,0,3,... and b = 0,1,2,1,3,1,... A reader that
/// validates a multi-field value by re-reading one of its parts (instead of the generation) is
/// fooled by two or three updates.
pub fn seq_a(g: u32) -> u32 {
    if g % 2 == 0 { 0 } else { (g + 1) / 2 }
}
pub fn seq_b(g: u32) -> u32 {
    if g == 0 { 0 } else if g % 2 == 1 { 1 } else { g / 2 + 1 }
}

pub fn config_for(kind: Kind, g: u32) -> Vec<u8> {
    let (a, b) = (seq_a(g), seq_b(g));
    match kind {
        Kind::Blk => {
            let mut c = Kind::Blk.default_config();
            // The upper half is zero in every other generation (a disk below 2^32 sectors): a
            // resize crosses the 2^32 boundary in both directions.
            c[0..4].copy_from_slice(&(0x1111_0000u32 + b).to_le_bytes());
            c[4..8].copy_from_slice(&(if a == 0 { 0 } else { 0x2222_0000u32 + a }).to_le_bytes());
            c
        }
        Kind::Socket => {
            let mut c = vec![0u8; 8];
            c[0..4].copy_from_slice(&(0x100 + a).to_le_bytes());
            c[4..8].copy_from_slice(&(0x200 + b).to_le_bytes());
            c
        }
        Kind::Console => {
            let mut c = Kind::Console.default_config();
            c[0..2].copy_from_slice(&(80u16 + a as u16).to_le_bytes());
            c[2..4].copy_from_slice(&(24u16 + b as u16).to_le_bytes());
            c
        }
        Kind::NetRaw => {
            let mut c = Kind::NetRaw.default_config();
            let (a8, b8) = (a as u8, b as u8);
            c[0..6].copy_from_slice(&[0x52, a8, b8.wrapping_add(0x10), a8.wrapping_add(0x20), b8.wrapping_add(0x30), a8.wrapping_add(0x40)]);
            c
        }
        Kind::P9 => {
            let mut c = vec![0u8; 8];
            let len = 3 + (a % 3) as usize;
            c[0..2].copy_from_slice(&(len as u16).to_le_bytes());
            for i in 0..len {
                c[2 + i] = b'a' + b as u8;
            }
            // Some tags end in a NUL byte (a host padding a fixed-size field): the tag is what
            // the length field says, padding included.
            if b % 3 == 2 {
                c[2 + len - 1] = 0;
            }
            c
        }
        _ => kind.default_config(),
    }
}

/// The value a driver should report under generation g, rendered as a string.
pub fn value_for(kind: Kind, g: u32) -> String {
    let c = config_for(kind, g);
    match kind {
        Kind::Blk | Kind::Socket => format!("{:#x}", u64::from_le_bytes(c[0..8].try_into().unwrap())),
        Kind::Console => format!("{}x{}", u16::from_le_bytes([c[0], c[1]]), u16::from_le_bytes([c[2], c[3]])),
        Kind::NetRaw => format!("{:02x?}", &c[0..6]),
        Kind::P9 => {
            let len = u16::from_le_bytes([c[0], c[1]]) as usize;
            String::from_utf8_lossy(&c[2..2 + len]).to_string()
        }
        _ => String::new(),
    }
}

pub const MAX_UPDATES: u32 = 3;
/// Bound on device updates per multi-field read (3 in the quick tier, 6 in the thorough tier).
pub static MAX_UPDATES_RT: std::sync::atomic::AtomicU32 = std::sync::atomic::AtomicU32::new(MAX_UPDATES);

struct TearVisitor;

impl TransportVisitor for TearVisitor {
    type Out = Option<String>;
    fn visit<T: Transport + 'static>(self, t: T, w: &DWorld) -> Option<String> {
        let r = crate::util::catch(|| construct(w.kind, t));
        match r {
            Err(p) => {
                report(Violation::new("C13", "construction-panic", format!("{} on {}: {}", w.kind.name(), w.tkind.name(), p)));
                None
            }
            Ok(Err(e)) => {
                // A torn tag length may legitimately surface as an error from the closure only if
                // it was consistent; any error here is unexpected for honest single generations.
                Some(format!("Err({:?})", e))
            }
            Ok(Ok(d)) => {
                let v = match &d {
                    AnyDriver::Blk(b) => format!("{:#x}", b.capacity()),
                    AnyDriver::Socket(s) => format!("{:#x}", s.guest_cid()),
                    AnyDriver::Console(c) => match c.size() {
                        Ok(Some(s)) => format!("{}x{}", s.columns, s.rows),
                        other => format!("{:?}", other),
                    },
                    AnyDriver::NetRaw(n) => format!("{:02x?}", n.mac_address()),
                    AnyDriver::P9(p) => p.mount_tag().to_string(),
                    _ => String::new(),
                };
                drop(d);
                Some(v)
            }
        }
    }
}

/// One execution: construct the driver while the device may update its configuration before any
/// individual register read (at most MAX_UPDATES times).
pub fn run_tear(kind: Kind, tkind: TKind) {
    run_tear_as("C13", "torn-config-read", kind, tkind)
}

/// The same schedule exploration reported under another property whose text names the value
/// (C14: block capacity equals the device's configuration; C20: the mount tag equals what the
/// device reported).
pub fn run_tear_as(prop: &'static str, vkind: &'static str, kind: Kind, tkind: TKind) {
    hal::reset();
    let offered = crate::drivers::F_VERSION_1 | if kind == Kind::Console { 1 } else { 0 } | if kind == Kind::NetRaw { 1 << 5 } else { 0 };
    let w = DWorld::new(kind, tkind, offered, config_for(kind, 0));
    let updates = Rc::new(RefCell::new(0u32));
    {
        let u = updates.clone();
        let hook: Box<dyn FnMut(&DevRc, bool)> = Box::new(move |dev: &DevRc, _is_gen: bool| {
            let mut n = u.borrow_mut();
            if *n < MAX_UPDATES_RT.load(std::sync::atomic::Ordering::Relaxed) && deviate(2, "device updates its configuration before this read") == 1 {
                *n += 1;
                let mut d = dev.borrow_mut();
                d.config_gen += 1;
                let g = d.config_gen;
                d.config = config_for(kind, g);
            }
        });
        mmio::with_handler(|h| {
            if let Some(rw) = h.as_any().downcast_mut::<RegWorld>() {
                if let Some(m) = rw.mmio.as_mut() {
                    m.before_config_read = Some(hook);
                } else if let Some(p) = rw.pci.as_mut() {
                    p.before_config_read = Some(hook);
                }
            }
        });
    }
    let got = w.with_transport(TearVisitor);
    mmio::set_handler(None);
    let n = *updates.borrow();
    let Some(got) = got else { return };
    let valid: Vec<String> = (0..=n).map(|g| value_for(kind, g)).collect();
    tlog!("{} on {}: {} updates, driver reports {}, single-generation values {:?}", kind.name(), tkind.name(), n, got, valid);
    obs(n as u64);
    crate::engine::chooser::obs_str(&got);
    if n > 0 {
        tag("tear:with-updates");
    } else {
        tag("tear:no-update");
    }
    if !valid.contains(&got) {
        report(Violation::new(prop, vkind, format!("{} on {}: driver reports {} which is not the value of any single configuration generation {:?}", kind.name(), tkind.name(), got, valid)));
    }
}
