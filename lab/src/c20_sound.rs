//! C20 (part 2): the sound driver against a reference virtio-snd device (spec 5.14.6).

use crate::cosim::{self, Action, CoDevice, CoRc};
use crate::drivers::{DWorld, Kind, TKind, TransportVisitor, F_EVENT_IDX, F_INDIRECT, F_VERSION_1};
use crate::engine::chooser::{choose, deviate, obs, report, tag};
use crate::engine::Violation;
use crate::hal::{self, LabHal};
use crate::mmio;
use crate::tlog;
use std::cell::RefCell;
use std::rc::Rc;
use virtio_drivers::device::sound::{PcmFeatures, PcmFormat, PcmRate, VirtIOSound};
use virtio_drivers::transport::Transport;
use virtio_drivers::Error;

fn viol(kind: &str, d: String) {
    report(Violation::new("C20", kind, d));
}

fn u32at(b: &[u8], o: usize) -> u32 {
    if b.len() < o + 4 {
        return 0xdead_beef;
    }
    u32::from_le_bytes(b[o..o + 4].try_into().unwrap())
}

pub const S_OK: u32 = 0x8000;
pub const S_BAD_MSG: u32 = 0x8001;
pub const S_NOT_SUPP: u32 = 0x8002;
pub const S_IO_ERR: u32 = 0x8003;

#[derive(Clone, Debug, PartialEq, Eq)]
pub enum Ctl {
    JackInfo { start: u32, count: u32, size: u32 },
    JackRemap { jack: u32, association: u32, sequence: u32 },
    PcmInfo { start: u32, count: u32, size: u32 },
    SetParams { stream: u32, buffer: u32, period: u32, features: u32, channels: u8, format: u8, rate: u8, pad: u8 },
    Prepare(u32),
    Release(u32),
    Start(u32),
    Stop(u32),
    ChmapInfo { start: u32, count: u32, size: u32 },
    Unknown(u32, usize),
}

pub fn decode_ctl(b: &[u8]) -> Ctl {
    let code = u32at(b, 0);
    match (code, b.len()) {
        (1, 16) => Ctl::JackInfo { start: u32at(b, 4), count: u32at(b, 8), size: u32at(b, 12) },
        (2, 16) => Ctl::JackRemap { jack: u32at(b, 4), association: u32at(b, 8), sequence: u32at(b, 12) },
        (0x100, 16) => Ctl::PcmInfo { start: u32at(b, 4), count: u32at(b, 8), size: u32at(b, 12) },
        (0x101, 24) => Ctl::SetParams { stream: u32at(b, 4), buffer: u32at(b, 8), period: u32at(b, 12), features: u32at(b, 16), channels: b[20], format: b[21], rate: b[22], pad: b[23] },
        (0x102, 8) => Ctl::Prepare(u32at(b, 4)),
        (0x103, 8) => Ctl::Release(u32at(b, 4)),
        (0x104, 8) => Ctl::Start(u32at(b, 4)),
        (0x105, 8) => Ctl::Stop(u32at(b, 4)),
        (0x200, 16) => Ctl::ChmapInfo { start: u32at(b, 4), count: u32at(b, 8), size: u32at(b, 12) },
        (c, l) => Ctl::Unknown(c, l),
    }
}

pub const JACKS: u32 = 1;
pub const STREAMS: u32 = 2;
pub const CHMAPS: u32 = 1;

pub fn pcm_info_bytes(stream: u32) -> Vec<u8> {
    let mut v = (0x10u32 + stream).to_le_bytes().to_vec();
    // (Each mask also has a bit the driver crate has no name for - a later revision of the
    // specification, a vendor extension: what is reported is what the device said.)
    v.extend((1u32 << 2 | stream | 1 << 9).to_le_bytes()); // features
    v.extend((0x60u64 + stream as u64 | 1 << 40).to_le_bytes()); // formats
    v.extend((0xC0u64 << stream | 1 << 30).to_le_bytes()); // rates
    v.push(stream as u8); // direction: stream 0 output, stream 1 input
    v.push(1 + stream as u8);
    v.push(2 + 2 * stream as u8);
    v.extend([0u8; 5]);
    v
}

pub struct SndDev {
    pub ctl: Vec<(Ctl, u32)>,
    /// Transfers seen on the TX queue: (stream id, data, chain head).
    pub xfers: Vec<(u32, Vec<u8>, u16)>,
    pub errs: Vec<String>,
    pub params_set: [bool; 2],
    pub xfer_before_params: u32,
    pub max_outstanding: usize,
}

struct V {
    depth: usize,
    /// Only the PCM data path (deeper histories).
    pcm_only: bool,
}

const PARAMS: [(u32, u32); 3] = [(8, 4), (3, 3), (6, 2)];

impl TransportVisitor for V {
    type Out = ();
    fn visit<T: Transport + 'static>(self, t: T, w: &DWorld) {
        let sd = Rc::new(RefCell::new(SndDev { ctl: vec![], xfers: vec![], errs: vec![], params_set: [false; 2], xfer_before_params: 0, max_outstanding: 0 }));
        // Device behaviour knobs.
        let ctl_status = Rc::new(RefCell::new(S_OK));
        let tx_mode: Rc<RefCell<(bool, u32)>> = Rc::new(RefCell::new((false, S_OK))); // (hold, status)
        let co: CoRc = {
            let sd = sd.clone();
            let ctl_status = ctl_status.clone();
            let tx_mode = tx_mode.clone();
            CoDevice::new(
                w.dev.clone(),
                Box::new(move |q, chain, readable| {
                    let mut s = sd.borrow_mut();
                    match q {
                        0 => {
                            let c = decode_ctl(readable);
                            if chain.writable_len() < 4 {
                                s.errs.push("control request without room for a response header".into());
                            }
                            let st = *ctl_status.borrow();
                            let mut resp = st.to_le_bytes().to_vec();
                            if st == S_OK {
                                match &c {
                                    Ctl::JackInfo { start, count, .. } => {
                                        for j in *start..start + count {
                                            resp.extend((0x20 + j).to_le_bytes());
                                            resp.extend(1u32.to_le_bytes()); // REMAP supported
                                            resp.extend((0x1111_0000 + j).to_le_bytes());
                                            resp.extend((0x2222_0000 + j).to_le_bytes());
                                            resp.push(1);
                                            resp.extend([0u8; 7]);
                                        }
                                    }
                                    Ctl::PcmInfo { start, count, .. } => {
                                        for j in *start..start + count {
                                            resp.extend(pcm_info_bytes(j));
                                        }
                                    }
                                    Ctl::ChmapInfo { start, count, .. } => {
                                        for j in *start..start + count {
                                            resp.extend((0x30 + j).to_le_bytes());
                                            resp.push(0);
                                            resp.push(2);
                                            let mut pos = [0u8; 18];
                                            pos[0] = 3;
                                            pos[1] = 4;
                                            resp.extend(pos);
                                        }
                                    }
                                    Ctl::SetParams { stream, .. } => {
                                        if (*stream as usize) < 2 {
                                            s.params_set[*stream as usize] = true;
                                        }
                                    }
                                    _ => {}
                                }
                            }
                            s.ctl.push((c, st));
                            let n = resp.len().min(chain.writable_len());
                            Action::Complete(resp[..n].to_vec(), n as u32)
                        }
                        2 => {
                            if readable.len() < 4 {
                                s.errs.push(format!("PCM transfer of {} readable bytes has no stream id", readable.len()));
                                return Action::Complete(vec![], 0);
                            }
                            if chain.writable_len() != 8 {
                                s.errs.push(format!("PCM transfer has {} writable bytes, the status structure is 8", chain.writable_len()));
                            }
                            let stream = u32at(readable, 0);
                            if (stream as usize) < 2 && !s.params_set[stream as usize] {
                                s.xfer_before_params += 1;
                            }
                            s.xfers.push((stream, readable[4..].to_vec(), chain.head));
                            let (hold, st) = *tx_mode.borrow();
                            if hold {
                                Action::Hold
                            } else {
                                let mut r = st.to_le_bytes().to_vec();
                                r.extend(0u32.to_le_bytes());
                                Action::Complete(r, 8)
                            }
                        }
                        _ => Action::Hold,
                    }
                }),
            )
        };
        co.borrow_mut().spin_horizon = 80;
        cosim::install(&co);
        let mut snd = match VirtIOSound::<LabHal, T>::new(t) {
            Ok(s) => s,
            Err(e) => {
                viol("construction", format!("{:?}", e));
                cosim::uninstall();
                return;
            }
        };
        if (snd.jacks(), snd.streams(), snd.chmaps()) != (JACKS, STREAMS, CHMAPS) {
            viol("config-values", format!("jacks/streams/chmaps = {:?}", (snd.jacks(), snd.streams(), snd.chmaps())));
        }
        // First use triggers the information queries.
        let r = snd.output_streams();
        {
            let s = sd.borrow();
            let want = vec![Ctl::JackInfo { start: 0, count: JACKS, size: 24 }, Ctl::PcmInfo { start: 0, count: STREAMS, size: 32 }, Ctl::ChmapInfo { start: 0, count: CHMAPS, size: 24 }];
            let got: Vec<Ctl> = s.ctl.iter().map(|c| c.0.clone()).collect();
            if got != want {
                viol("info-queries", format!("set-up issued {:?}, expected {:?}", got, want));
            }
        }
        if r != Ok(vec![0]) || snd.input_streams() != Ok(vec![1]) {
            viol("stream-directions", format!("output_streams() = {:?}, the device reports stream 0 as output and 1 as input", r));
        }
        for st in 0..2u32 {
            let f = snd.features_supported(st).map(|x| x.bits());
            let fm = snd.formats_supported(st).map(|x| x.bits());
            let ra = snd.rates_supported(st).map(|x| x.bits());
            let ch = snd.channel_range_supported(st);
            if f != Ok(1 << 2 | st | 1 << 9) || fm != Ok(0x60 + st as u64 | 1 << 40) || ra != Ok(0xC0u64 << st | 1 << 30) || ch != Ok((1 + st as u8)..=(2 + 2 * st as u8)) {
                viol("stream-capabilities", format!("stream {}: features {:?} formats {:?} rates {:?} channels {:?} differ from what the device reported", st, f, fm, ra, ch));
            }
        }
        if snd.rates_supported(2) != Err(Error::InvalidParam) {
            viol("stream-capabilities", "rates_supported(2) with 2 streams must be InvalidParam".into());
        }
        let mut period: [Option<u32>; 2] = [None, None];
        let mut nb: Vec<(u16, Vec<u8>, Option<u32>)> = vec![]; // token, frames, device status once completed
        let mut used_order: Vec<u16> = vec![];
        let statuses = [S_OK, S_BAD_MSG, S_NOT_SUPP, S_IO_ERR];
        if self.pcm_only {
            // The transfer alphabet starts with the parameters of stream 0 already set (period 4),
            // so that "transfer, completion, consumption, smaller period, transfer" fits the depth.
            let (buf, per) = PARAMS[0];
            if snd.pcm_set_params(0, buf, per, PcmFeatures::from_bits_retain(4), 2, PcmFormat::S16, PcmRate::Rate44100).is_ok() {
                period[0] = Some(per);
            }
        }
        for step in 0..self.depth {
            let ctl_before = sd.borrow().ctl.len();
            let x_before = sd.borrow().xfers.len();
            co.borrow_mut().spins = 0;
            let held = co.borrow_mut().held_count(2);
            let mut menu: Vec<(u8, usize, usize)> = vec![];
            if self.pcm_only {
                menu.push((0, 0, 0));
                menu.push((0, 0, 2));
            } else {
                for s in 0..2 {
                    for p in 0..PARAMS.len() {
                        menu.push((0, s, p));
                    }
                    menu.push((1, s, 0)); // invalid params
                    for k in 0..4 {
                        menu.push((2, s, k)); // prepare/release/start/stop
                    }
                }
            }
            if nb.is_empty() {
                // (The 40-period transfer only as the first operation of the transfer alphabet.)
                for l in (0..6).filter(|l| (!self.pcm_only || *l >= 2) && (*l < 5 || (self.pcm_only && step == 0))) {
                    menu.push((3, 0, l)); // blocking transfer on stream 0
                }
            }
            if nb.len() < 3 {
                menu.push((4, 0, 0));
            }
            for j in 0..held {
                menu.push((5, j, 0));
            }
            if used_order.is_empty() && !nb.is_empty() {
                menu.push((9, 0, 0)); // poll a transfer the device has not completed yet
            }
            if !used_order.is_empty() {
                menu.push((6, 0, 0));
                if nb.len() > 1 {
                    menu.push((7, 0, 0));
                }
            }
            if !self.pcm_only {
                menu.push((8, 0, 0));
            }
            let (op, a, b) = menu[choose(menu.len(), "sound operation")];
            match op {
                0 => {
                    let (buf, per) = PARAMS[b];
                    let st = statuses[deviate(4, "control status")];
                    *ctl_status.borrow_mut() = st;
                    let r = snd.pcm_set_params(a as u32, buf, per, PcmFeatures::from_bits_retain(4), 2, PcmFormat::S16, PcmRate::Rate44100);
                    tag("snd:set_params");
                    tlog!("step {}: set_params(stream {}, {}, {}) status {:#x} -> {:?}", step, a, buf, per, st, r);
                    let want = Ctl::SetParams { stream: a as u32, buffer: buf, period: per, features: 4, channels: 2, format: 5, rate: 6, pad: 0 };
                    let s = sd.borrow();
                    if s.ctl[ctl_before..].iter().map(|c| &c.0).collect::<Vec<_>>() != vec![&want] {
                        viol("set-params-encoding", format!("device decoded {:?}, expected {:?}", &s.ctl[ctl_before..], want));
                    }
                    if (st == S_OK) != r.is_ok() {
                        viol("status-check", format!("pcm_set_params with device status {:#x} -> {:?}", st, r));
                    }
                    if st == S_OK {
                        period[a] = Some(per);
                    }
                }
                1 => {
                    let (buf, per) = [(4u32, 0u32), (4, 8), (7, 3)][step % 3];
                    let r = snd.pcm_set_params(a as u32, buf, per, PcmFeatures::empty(), 1, PcmFormat::U8, PcmRate::Rate8000);
                    tag("snd:set_params-invalid");
                    if r != Err(Error::InvalidParam) || sd.borrow().ctl.len() != ctl_before {
                        viol("set-params-validation", format!("pcm_set_params(buffer {}, period {}) -> {:?} and {} requests", buf, per, r, sd.borrow().ctl.len() - ctl_before));
                    }
                }
                2 => {
                    let st = statuses[deviate(4, "control status")];
                    *ctl_status.borrow_mut() = st;
                    let (r, want) = match b {
                        0 => (snd.pcm_prepare(a as u32), Ctl::Prepare(a as u32)),
                        1 => (snd.pcm_release(a as u32), Ctl::Release(a as u32)),
                        2 => (snd.pcm_start(a as u32), Ctl::Start(a as u32)),
                        _ => (snd.pcm_stop(a as u32), Ctl::Stop(a as u32)),
                    };
                    tag("snd:stream-command");
                    let s = sd.borrow();
                    if s.ctl[ctl_before..].iter().map(|c| &c.0).collect::<Vec<_>>() != vec![&want] {
                        viol("command-encoding", format!("device decoded {:?}, expected {:?}", &s.ctl[ctl_before..], want));
                    }
                    if (st == S_OK) != r.is_ok() {
                        viol("status-check", format!("{:?} with device status {:#x} -> {:?}", want, st, r));
                    }
                }
                3 => {
                    // Blocking transfer; the device serves in order at a chosen pace.
                    let per = period[0];
                    let p = per.unwrap_or(4) as usize;
                    // (The last one: 40 periods and a bit, more than the transmit queue holds.)
                    let len = [0usize, p - 1 + (p == 1) as usize, p, 2 * p + 1, p + 1, 40 * p + 1][b];
                    let frames: Vec<u8> = (0..len).map(|i| (step as u8) << 4 | (i as u8 & 15)).collect();
                    let fail_at = deviate(4, "PCM status of one period (default: all OK)");
                    // Device pace: serves each period when notified; or only while the driver
                    // busy-waits, so that several periods are in the queue at once, oldest first
                    // or newest first (a device may use buffers in any order).
                    let pace = deviate(3, "device pace (default: serves when notified)");
                    *tx_mode.borrow_mut() = (pace != 0, S_OK);
                    let bad = if fail_at == 0 { None } else { Some(fail_at - 1) };
                    // Status injection: the k-th period of this transfer gets IO_ERR.
                    {
                        let sd2 = sd.clone();
                        let txm = tx_mode.clone();
                        let base = x_before;
                        let co2 = co.clone();
                        crate::dev::set_notify_handler(Some(Box::new(move |q| {
                            if q == 2 {
                                if let Some(k) = bad {
                                    let seen = sd2.borrow().xfers.len() - base;
                                    *txm.borrow_mut() = (pace != 0, if seen == k { S_IO_ERR } else { S_OK });
                                }
                            }
                            let mut c = co2.borrow_mut();
                            c.notifies += 1;
                            c.service(q);
                        })));
                    }
                    if pace != 0 {
                        let sd2 = sd.clone();
                        let co2 = co.clone();
                        let base = x_before;
                        crate::mmio::set_spin_handler(Some(Box::new(move |site| {
                            let mut c = co2.borrow_mut();
                            c.spins += 1;
                            c.service_all();
                            if c.spins % 2 == 0 {
                                let pick = c.held.get(&2).and_then(|h| if h.is_empty() { None } else { Some(if pace == 2 { h.len() - 1 } else { 0 }) });
                                if let Some(i) = pick {
                                    let head = c.held.get(&2).unwrap()[i].head;
                                    // Which period of this transfer is it?
                                    let k = sd2.borrow().xfers[base..].iter().rposition(|x| x.2 == head);
                                    let st = if k.is_some() && k == bad { S_IO_ERR } else { S_OK };
                                    let mut r = st.to_le_bytes().to_vec();
                                    r.extend(0u32.to_le_bytes());
                                    c.complete_held(2, i, &r, 8);
                                }
                            }
                            if c.spins > c.spin_horizon {
                                if c.livelock.is_none() {
                                    c.livelock = Some(format!("busy-wait site {} exceeded {} iterations", site, c.spin_horizon));
                                }
                                panic!("LAB-LIVELOCK: busy-wait site {} exceeded the horizon", site);
                            }
                        })));
                    }
                    // (The spin count runs over the whole call: one wait per period at the late paces.)
                    co.borrow_mut().spin_horizon = 80 + 4 * (len / p.max(1) + 1) as u64;
                    let r = crate::util::catch(|| snd.pcm_xfer(0, &frames));
                    co.borrow_mut().spin_horizon = 80;
                    cosim::install(&co);
                    if co.borrow_mut().held_count(2) != 0 && nb.is_empty() {
                        // Not a C20 clause by itself, but everything below assumes an empty queue.
                        tag("snd:pcm_xfer-left-buffers-queued");
                        while co.borrow_mut().held_count(2) != 0 {
                            let mut r = S_OK.to_le_bytes().to_vec();
                            r.extend(0u32.to_le_bytes());
                            co.borrow_mut().complete_held(2, 0, &r, 8);
                        }
                    }
                    tag("snd:pcm_xfer");
                    tlog!("step {}: pcm_xfer(0, {} bytes) period {:?} fail {:?} pace {} -> {:?}", step, len, per, bad, pace, r);
                    let s = sd.borrow();
                    let new = &s.xfers[x_before..];
                    match per {
                        None => {
                            if !matches!(r, Ok(Err(Error::IoError))) || !new.is_empty() {
                                viol("transfer-before-params", format!("pcm_xfer before pcm_set_params -> {:?} and {} transfers reached the device", r, new.len()));
                            }
                        }
                        Some(_) => {
                            let nper = len.div_ceil(p);
                            let errored = bad.map(|k| k < nper).unwrap_or(false);
                            match &r {
                                Ok(Ok(())) if !errored => {}
                                Ok(Err(Error::IoError)) if errored => {}
                                other => viol("status-check", format!("pcm_xfer of {} periods with failing period {:?} -> {:?}", nper, bad, other)),
                            }
                            if !errored {
                                let cat: Vec<u8> = new.iter().flat_map(|x| x.1.clone()).collect();
                                if cat != frames {
                                    viol("pcm-data", format!("the device received {} bytes in {} transfers; the caller's {} frames bytes must arrive exactly once, in order", cat.len(), new.len(), frames.len()));
                                }
                            }
                            for x in new {
                                if x.0 != 0 {
                                    viol("pcm-stream-id", format!("transfer tagged with stream {} instead of 0", x.0));
                                }
                                if x.1.len() > p || x.1.is_empty() {
                                    viol("pcm-chunk-size", format!("transfer of {} bytes with a period of {}", x.1.len(), p));
                                }
                            }
                        }
                    }
                }
                4 => {
                    let per = period[0];
                    let p = per.unwrap_or(4) as usize;
                    let frames: Vec<u8> = (0..p).map(|i| 0xA0 ^ (step as u8) << 3 ^ i as u8).collect();
                    *tx_mode.borrow_mut() = (true, S_OK);
                    let r = crate::util::catch(|| snd.pcm_xfer_nb(0, &frames));
                    co.borrow_mut().service(2);
                    tag("snd:pcm_xfer_nb");
                    let s = sd.borrow();
                    let new = &s.xfers[x_before..];
                    match (per, r) {
                        (None, Ok(Err(Error::IoError))) if new.is_empty() => {}
                        (Some(_), Ok(Ok(tok))) => {
                            if new.len() != 1 || new[0].0 != 0 || new[0].1 != frames {
                                viol("pcm-data", format!("pcm_xfer_nb: device saw {:?}", new));
                            }
                            if nb.iter().any(|n| n.0 == tok) {
                                viol("token-reuse", format!("token {} returned twice", tok));
                            }
                            nb.push((tok, frames.clone(), None));
                        }
                        (p_, r_) => viol("pcm_xfer_nb", format!("period {:?} -> {:?}", p_, r_)),
                    }
                }
                5 => {
                    let st = statuses[deviate(4, "PCM transfer status")];
                    let chain = co.borrow().held.get(&2).and_then(|h| h.get(a).cloned());
                    if let Some(chain) = chain {
                        let mut r = st.to_le_bytes().to_vec();
                        r.extend(0u32.to_le_bytes());
                        co.borrow_mut().complete_held(2, a, &r, 8);
                        if let Some(n) = nb.iter_mut().find(|n| n.0 == chain.head) {
                            n.2 = Some(st);
                        }
                        used_order.push(chain.head);
                        tag("dev:pcm-complete");
                    }
                }
                6 => {
                    let tok = used_order.remove(0);
                    let i = nb.iter().position(|n| n.0 == tok).unwrap();
                    let (_, _, st) = nb.remove(i);
                    let r = crate::util::catch(|| snd.pcm_xfer_ok(tok));
                    tag("snd:pcm_xfer_ok");
                    tlog!("step {}: pcm_xfer_ok({}) device status {:?} -> {:?}", step, tok, st, r);
                    match (st, &r) {
                        (Some(S_OK), Ok(Ok(()))) => {}
                        (Some(s_), Ok(Err(_))) if s_ != S_OK => {}
                        (s_, r_) => viol("status-check", format!("pcm_xfer_ok({}) -> {:?} although the device reported status {:#x?} for that transfer", tok, r_, s_)),
                    }
                }
                9 => {
                    let tok = nb[0].0;
                    let r = crate::util::catch(|| snd.pcm_xfer_ok(tok));
                    tag("snd:pcm_xfer_ok-early");
                    if !matches!(r, Ok(Err(Error::NotReady))) {
                        viol("early-poll", format!("pcm_xfer_ok({}) before the device completed anything -> {:?}, expected NotReady", tok, r));
                    }
                }
                7 => {
                    // A token which is outstanding but not next in the used ring.
                    let front = used_order[0];
                    if let Some(other) = nb.iter().map(|n| n.0).find(|t| *t != front) {
                        let r = crate::util::catch(|| snd.pcm_xfer_ok(other));
                        tag("snd:pcm_xfer_ok-wrong");
                        if !matches!(r, Ok(Err(Error::WrongToken))) {
                            viol("wrong-token", format!("pcm_xfer_ok({}) while the next completion is {} -> {:?}", other, front, r));
                        }
                    }
                }
                _ => {
                    let st = statuses[deviate(4, "control status")];
                    *ctl_status.borrow_mut() = st;
                    let r = snd.jack_remap(0, 0x11, 0x22);
                    tag("snd:jack_remap");
                    let s = sd.borrow();
                    let want = Ctl::JackRemap { jack: 0, association: 0x11, sequence: 0x22 };
                    if s.ctl[ctl_before..].iter().map(|c| &c.0).collect::<Vec<_>>() != vec![&want] {
                        viol("command-encoding", format!("device decoded {:?}, expected {:?}", &s.ctl[ctl_before..], want));
                    }
                    if (st == S_OK) != r.is_ok() {
                        viol("status-check", format!("jack_remap with device status {:#x} -> {:?}", st, r));
                    }
                }
            }
            *ctl_status.borrow_mut() = S_OK;
            {
                let mut s = sd.borrow_mut();
                if s.xfer_before_params != 0 {
                    viol("transfer-before-params", "a PCM transfer reached the device before the stream's parameters were set".into());
                }
                for e in s.errs.drain(..) {
                    viol("request-malformed", e);
                }
            }
            let out = co.borrow_mut().held_count(2);
            if out > 32 {
                viol("capacity", format!("{} transfers outstanding", out));
            }
            for e in co.borrow_mut().errors.drain(..) {
                viol("chain-malformed", e);
            }
            if let Some(l) = co.borrow_mut().livelock.take() {
                viol("livelock", l);
            }
            obs((sd.borrow().ctl.len() as u64) << 16 | sd.borrow().xfers.len() as u64);
            if crate::engine::chooser::has_violation() {
                break;
            }
        }
        drop(snd);
        cosim::uninstall();
    }
}

pub fn run_sound(tkind: TKind, depth: usize, pcm_only: bool) {
    hal::reset();
    let feats = [F_VERSION_1, F_VERSION_1 | F_INDIRECT | F_EVENT_IDX];
    let offered = feats[choose(feats.len(), "offered features")];
    let w = DWorld::new(Kind::Sound, tkind, offered, Kind::Sound.default_config());
    w.with_transport(V { depth, pcm_only });
    mmio::set_handler(None);
}

// ------------------------------------------------------------------------------------------
// A device with many streams (more than fit one plausible batch of an information query): the
// capabilities returned for every stream id equal what the device reported for that id.

fn many_info_bytes(id: u32) -> Vec<u8> {
    let mut v = (0x10u32 + id).to_le_bytes().to_vec();
    v.extend((id % 4).to_le_bytes()); // features
    v.extend((0x20u64 + id as u64).to_le_bytes()); // formats
    v.extend((1u64 << (id % 14)).to_le_bytes()); // rates
    v.push((id % 3 == 0) as u8); // direction: every third stream is an input
    v.push(1 + (id % 2) as u8);
    v.push(2 + (id % 5) as u8);
    v.extend([0u8; 5]);
    v
}

/// One execution per stream count.
pub fn run_many_streams(tkind: TKind, streams: u32) -> Vec<(String, String)> {
    struct VM {
        streams: u32,
    }
    impl TransportVisitor for VM {
        type Out = Vec<(String, String)>;
        fn visit<T: Transport + 'static>(self, t: T, w: &DWorld) -> Self::Out {
            let mut out = vec![];
            let co: CoRc = CoDevice::new(
                w.dev.clone(),
                Box::new(move |q, chain, readable| {
                    if q != 0 {
                        return Action::Hold;
                    }
                    let mut resp = S_OK.to_le_bytes().to_vec();
                    match decode_ctl(readable) {
                        Ctl::PcmInfo { start, count, .. } => {
                            for j in start..start.saturating_add(count) {
                                resp.extend(many_info_bytes(j));
                            }
                        }
                        _ => resp.resize(chain.writable_len(), 0),
                    }
                    resp.truncate(chain.writable_len());
                    let n = resp.len() as u32;
                    Action::Complete(resp, n)
                }),
            );
            co.borrow_mut().spin_horizon = 16;
            cosim::install(&co);
            let mut snd = match VirtIOSound::<LabHal, T>::new(t) {
                Ok(s) => s,
                Err(e) => {
                    cosim::uninstall();
                    return vec![("construction".into(), format!("{:?}", e))];
                }
            };
            let want_in: Vec<u32> = (0..self.streams).filter(|i| i % 3 == 0).collect();
            let want_out: Vec<u32> = (0..self.streams).filter(|i| i % 3 != 0).collect();
            let (o, i) = (snd.output_streams(), snd.input_streams());
            if o != Ok(want_out) || i != Ok(want_in) {
                out.push(("stream-directions".into(), format!("{} streams: output_streams() = {:?}, input_streams() = {:?}; the device reports every third stream (0, 3, ...) as an input", self.streams, o, i)));
            }
            for id in 0..self.streams {
                let f = snd.features_supported(id).map(|x| x.bits());
                let fm = snd.formats_supported(id).map(|x| x.bits());
                let ra = snd.rates_supported(id).map(|x| x.bits());
                let ch = snd.channel_range_supported(id);
                if f != Ok(id % 4) || fm != Ok(0x20 + id as u64) || ra != Ok(1u64 << (id % 14)) || ch != Ok((1 + (id % 2) as u8)..=(2 + (id % 5) as u8)) {
                    out.push(("stream-capabilities".into(), format!("stream {} of {}: features {:?} formats {:?} rates {:?} channels {:?} differ from what the device reported for that stream", id, self.streams, f, fm, ra, ch)));
                    break;
                }
            }
            drop(snd);
            for e in co.borrow_mut().errors.drain(..) {
                out.push(("chain-malformed".into(), e));
            }
            cosim::uninstall();
            out
        }
    }
    hal::reset();
    let mut cfg = vec![0u8; 12];
    cfg[4..8].copy_from_slice(&streams.to_le_bytes());
    let w = DWorld::new(Kind::Sound, tkind, F_VERSION_1, cfg);
    let r = w.with_transport(VM { streams });
    mmio::set_handler(None);
    r
}
