//! C08: the initialisation handshake of every driver on every transport for every projected
//! offered-feature set, and the use of optional mechanisms only when negotiated.

use crate::cosim::{self, CoDevice};
use crate::dev::{TEvent, ST_ACK, ST_DRIVER, ST_DRIVER_OK, ST_FEATURES_OK};
use crate::drivers::{construct, AnyDriver, DWorld, Kind, TKind, TransportVisitor, F_EVENT_IDX, F_INDIRECT, F_VERSION_1};
use crate::hal;
use crate::mmio;
use virtio_drivers::transport::Transport;
use virtio_drivers::Error;

pub struct Out {
    pub viols: Vec<(String, String)>,
    pub class: String,
}

struct V {
    offered: u64,
}

fn push(v: &mut Vec<(String, String)>, k: &str, d: String) {
    v.push((k.to_string(), d));
}

/// Checks the ordered device-side log of one construction.
pub fn check_handshake(kind: Kind, offered: u64, log: &[TEvent], ok: bool, out: &mut Vec<(String, String)>) -> u64 {
    let statuses: Vec<(usize, u32)> = log.iter().enumerate().filter_map(|(i, e)| if let TEvent::SetStatus(s) = e { Some((i, *s)) } else { None }).collect();
    let s3 = ST_ACK | ST_DRIVER;
    let s11 = s3 | ST_FEATURES_OK;
    let s15 = s11 | ST_DRIVER_OK;
    let pos = |s: u32| statuses.iter().find(|x| x.1 == s).map(|x| x.0);
    if statuses.first().map(|x| x.1) != Some(0) {
        push(out, "no-reset-first", format!("{}: first status write is {:?}, expected 0 (reset)", kind.name(), statuses.first()));
    }
    if log.iter().position(|e| matches!(e, TEvent::SetStatus(_))) != log.iter().position(|e| !matches!(e, TEvent::GetStatus)) {
        push(out, "access-before-reset", format!("{}: device accessed before the reset: {:?}", kind.name(), log.first()));
    }
    let want: Vec<u32> = if ok { vec![0, s3, s11, s15] } else { vec![0, s3, s11] };
    let got: Vec<u32> = statuses.iter().map(|x| x.1).collect();
    // A failed construction may stop anywhere after FEATURES_OK; the device is then reset by drop.
    let got_trim: Vec<u32> = if ok { got.clone() } else { got.iter().copied().take(3).collect() };
    if got_trim != want && ok {
        push(out, "status-sequence", format!("{}: status writes {:?}, expected {:?}", kind.name(), got, want));
    }
    let i_feat_r = log.iter().position(|e| matches!(e, TEvent::ReadFeatures));
    let i_feat_w = log.iter().position(|e| matches!(e, TEvent::WriteFeatures(_)));
    let (i3, i11, i15) = (pos(s3), pos(s11), pos(s15));
    let mut accepted = 0u64;
    match (i3, i_feat_r, i_feat_w, i11) {
        (Some(a), Some(r), Some(w), Some(f)) => {
            if !(a < r && r < w && w < f) {
                push(out, "handshake-order", format!("{}: expected ACKNOWLEDGE|DRIVER < read features < write features < FEATURES_OK, got positions {} {} {} {}", kind.name(), a, r, w, f));
            }
        }
        x => push(out, "handshake-missing-step", format!("{}: handshake steps missing: {:?}", kind.name(), x)),
    }
    for e in log {
        if let TEvent::WriteFeatures(f) = e {
            accepted = *f;
            let allowed = offered & kind.supported();
            if f & !allowed != 0 {
                push(out, "accepts-unoffered-or-unsupported", format!("{}: accepted features {:#x} outside offered {:#x} & supported {:#x}", kind.name(), f, offered, kind.supported()));
            }
            if offered & F_VERSION_1 != 0 && f & F_VERSION_1 == 0 {
                push(out, "version-1-not-accepted", format!("{}: VERSION_1 offered but not accepted ({:#x})", kind.name(), f));
            }
        }
    }
    for (i, e) in log.iter().enumerate() {
        match e {
            TEvent::QueueSet { q, .. } => {
                if i11.map(|f| i < f).unwrap_or(true) || i15.map(|d| i > d).unwrap_or(false) {
                    push(out, "queue-set-outside-window", format!("{}: queue {} configured at log position {} outside FEATURES_OK ({:?}) .. DRIVER_OK ({:?})", kind.name(), q, i, i11, i15));
                }
            }
            TEvent::Notify(q) => {
                if i15.map(|d| i < d).unwrap_or(true) {
                    push(out, "notify-before-driver-ok", format!("{}: queue {} notified before DRIVER_OK was set", kind.name(), q));
                }
            }
            _ => {}
        }
    }
    if ok {
        let set: Vec<u16> = log.iter().filter_map(|e| if let TEvent::QueueSet { q, .. } = e { Some(*q) } else { None }).collect();
        let want: Vec<u16> = kind.driver_queues().iter().map(|x| x.0).collect();
        let mut a = set.clone();
        a.sort();
        let mut b = want.clone();
        b.sort();
        if a != b {
            push(out, "queues-configured", format!("{}: configured queues {:?}, expected {:?}", kind.name(), set, want));
        }
    }
    accepted
}

impl TransportVisitor for V {
    type Out = Out;
    fn visit<T: Transport + 'static>(self, t: T, w: &DWorld) -> Out {
        let mut viols = vec![];
        let kind = w.kind;
        // An honest device (success answers): otherwise drivers whose success value is not zero
        // (sound, GPU) would never get past their first request and their other queues stay unused.
        let co = CoDevice::new(w.dev.clone(), cosim::honest_responder(kind));
        co.borrow_mut().spin_horizon = 16;
        cosim::install(&co);
        let r = crate::util::catch(|| construct(kind, t));
        let log: Vec<TEvent> = w.dev.borrow().log.clone();
        let class;
        match r {
            Err(p) => {
                class = "panic".to_string();
                push(&mut viols, "construction-panic", format!("{} on {} offered {:#x}: {}", kind.name(), w.tkind.name(), self.offered, p));
            }
            Ok(Err(e)) => {
                class = format!("err:{:?}", e);
                check_handshake(kind, self.offered, &log, false, &mut viols);
                push(&mut viols, "construction-error", format!("{} on {} offered {:#x}: construction failed with {:?} on an honest device", kind.name(), w.tkind.name(), self.offered, e));
            }
            Ok(Ok(mut d)) => {
                let accepted = check_handshake(kind, self.offered, &log, true, &mut viols);
                class = format!("ok:ind={},ev={},v1={}", (accepted & F_INDIRECT != 0) as u8, (accepted & F_EVENT_IDX != 0) as u8, (accepted & F_VERSION_1 != 0) as u8);
                // Post-initialisation script.
                let served_before = co.borrow().served.len();
                let cfg_log_before = w.dev.borrow().log.len();
                let r = crate::util::catch(|| post_init(&mut d, accepted, &mut viols, &co, kind));
                if let Err(p) = r {
                    push(&mut viols, "post-init-panic", format!("{} on {}: {}", kind.name(), w.tkind.name(), p));
                }
                let _ = (served_before, cfg_log_before);
                let c = co.borrow();
                for e in &c.errors {
                    let k = if e.contains("INDIRECT") { "indirect-without-negotiation" } else { "chain-malformed" };
                    push(&mut viols, k, format!("{} on {} offered {:#x}: {}", kind.name(), w.tkind.name(), self.offered, e));
                }
                for s in &c.served {
                    if s.chain.indirect.is_some() && accepted & F_INDIRECT == 0 {
                        push(&mut viols, "indirect-without-negotiation", format!("{}: indirect chain on queue {} without INDIRECT_DESC", kind.name(), s.q));
                    }
                }
                // used_event must stay untouched unless EVENT_IDX was negotiated.
                if accepted & F_EVENT_IDX == 0 {
                    for (q, rq) in c.queues.iter() {
                        if let Ok(ue) = rq.used_event() {
                            if ue != 0 {
                                push(&mut viols, "used-event-without-negotiation", format!("{}: queue {} used_event = {} although EVENT_IDX was not negotiated", kind.name(), q, ue));
                            }
                        }
                    }
                }
                // Device-specific gating.
                device_specific(kind, accepted, &c.served, &w.dev.borrow().log, &mut viols);
                drop(c);
                drop(d);
            }
        }
        cosim::uninstall();
        Out { viols, class }
    }
}

fn post_init<T: Transport>(d: &mut AnyDriver<T>, accepted: u64, v: &mut Vec<(String, String)>, co: &crate::cosim::CoRc, kind: Kind) {
    match d {
        AnyDriver::Blk(b) => {
            let _ = b.flush();
            let mut buf = [0u8; 512];
            let _ = b.read_blocks(0, &mut buf);
            if b.readonly() != (accepted & (1 << 5) != 0) {
                push(v, "blk-readonly", format!("readonly() = {} with accepted features {:#x}", b.readonly(), accepted));
            }
            // The interrupt switch after completions have been consumed (the queue's position is
            // no longer 0): without EVENT_IDX it may only touch the flags word.
            b.disable_interrupts();
            b.enable_interrupts();
            // A nearly full queue: the device holds non-blocking requests (3 buffers each on the
            // 16-descriptor queue) until the driver refuses one. Whatever fits, no chain may use
            // an indirect table unless INDIRECT_DESC was negotiated.
            co.borrow_mut().responder = Box::new(|_, _, _| crate::cosim::Action::Hold);
            let mut pool: Vec<(Box<virtio_drivers::device::blk::BlkReq>, Box<[u8]>, Box<virtio_drivers::device::blk::BlkResp>)> = vec![];
            for _ in 0..17 {
                pool.push((Box::default(), vec![0u8; 512].into_boxed_slice(), Box::default()));
            }
            let mut accepted_nb = 0;
            for (req, data, resp) in pool.iter_mut() {
                // SAFETY: the buffers live in `pool` until the driver has been dropped by the caller
                // (the pool is leaked below).
                match unsafe { b.read_blocks_nb(7, req, data, resp) } {
                    Ok(_) => accepted_nb += 1,
                    Err(_) => break,
                }
            }
            {
                let mut c = co.borrow_mut();
                c.service(0);
                let held: Vec<crate::ring::Chain> = c.held.get(&0).cloned().unwrap_or_default();
                for ch in &held {
                    if ch.indirect.is_some() && accepted & F_INDIRECT == 0 {
                        push(v, "indirect-without-negotiation", format!("blk: with {} requests outstanding a chain uses an indirect table although INDIRECT_DESC was not negotiated", accepted_nb));
                    }
                }
                for e in c.errors.clone() {
                    if e.contains("INDIRECT") {
                        push(v, "indirect-without-negotiation", format!("blk: nearly full queue: {}", e));
                    }
                }
            }
            co.borrow_mut().responder = crate::cosim::honest_responder(kind);
            // The requests stay outstanding; their buffers must outlive the driver.
            std::mem::forget(pool);
        }
        AnyDriver::Console(c) => {
            let s = c.size();
            let want_some = accepted & 1 != 0;
            match s {
                Ok(Some(_)) if want_some => {}
                Ok(None) if !want_some => {}
                other => push(v, "console-size-gating", format!("size() = {:?} with SIZE negotiated = {}", other, want_some)),
            }
            let e = c.emergency_write(b'x');
            let want_ok = accepted & 4 != 0;
            match e {
                Ok(()) if want_ok => {}
                Err(Error::Unsupported) if !want_ok => {}
                other => push(v, "console-emerg-gating", format!("emergency_write = {:?} with EMERG_WRITE negotiated = {}", other, want_ok)),
            }
            let _ = c.send(b'a');
        }
        AnyDriver::Gpu(g) => {
            let r = g.get_edid(0);
            let want = accepted & 2 != 0;
            match r {
                Err(Error::Unsupported) if !want => {}
                Err(Error::Unsupported) if want => push(v, "gpu-edid-gating", "get_edid = Unsupported although EDID was negotiated".into()),
                _ if !want => push(v, "gpu-edid-gating", "get_edid issued although EDID was not negotiated".into()),
                _ => {}
            }
            let _ = g.resolution();
            // Every public entry point that leads to a GET_EDID request is gated by the feature.
            let r2 = g.edid_preferred_resolution();
            let r3 = g.edid_supported_resolutions();
            if !want && (!matches!(r2, Err(Error::Unsupported)) || !matches!(r3, Err(Error::Unsupported))) {
                push(v, "gpu-edid-gating", format!("edid_preferred_resolution = {:?}, edid_supported_resolutions = {:?} although EDID was not negotiated (expected Unsupported)", r2, r3.map(|x| x.len())));
            }
            // Control queue (several commands) and cursor queue.
            let _ = g.setup_framebuffer().map(|fb| fb.len());
            let _ = g.flush();
            let _ = g.setup_cursor(&vec![0u8; 64 * 64 * 4], 1, 2, 3, 4);
            let _ = g.move_cursor(5, 6);
        }
        AnyDriver::Input(i) => {
            let _ = i.pop_pending_event();
            let _ = i.ack_interrupt();
        }
        AnyDriver::NetRaw(n) => {
            let _ = n.send(&[1, 2, 3, 4]);
            let _ = n.send(&[]);
            let mut b = [0u8; 64];
            let hl = n.fill_buffer_header(&mut b);
            let want = if accepted & F_VERSION_1 != 0 { 12 } else { 10 };
            if hl != Ok(want) {
                push(v, "net-header-size", format!("fill_buffer_header = {:?}, expected {} (VERSION_1 negotiated = {})", hl, want, accepted & F_VERSION_1 != 0));
            }
            n.disable_interrupts();
            n.enable_interrupts();
            // Receive side, with completions around the size of the header: whatever the used
            // length, the header in front of the frame has the negotiated size.
            for (round, total) in [want + 20, want + 1, want, 11, 10].into_iter().enumerate() {
                let mut rb = vec![0u8; 2048].into_boxed_slice();
                // SAFETY: the buffer lives until receive_complete below (or is leaked).
                let tok = match unsafe { n.receive_begin(&mut rb) } {
                    Ok(t) => t,
                    Err(_) => break,
                };
                let frame: Vec<u8> = (0..total).map(|i| if i < want { 0 } else { 0x50 + i as u8 }).collect();
                {
                    let mut c = co.borrow_mut();
                    let held = c.held_count(0);
                    if held == 0 {
                        std::mem::forget(rb);
                        break;
                    }
                    c.complete_held(0, held - 1, &frame, frame.len() as u32);
                }
                // SAFETY: same buffer as passed to receive_begin.
                match unsafe { n.receive_complete(tok, &mut rb) } {
                    Ok((h, l)) => {
                        if h != want || h + l != total {
                            push(v, "net-header-size", format!("receive_complete of a {}-byte completion (round {}) = (header {}, packet {}), expected a {}-byte header (VERSION_1 negotiated = {})", total, round, h, l, want, want == 12));
                        }
                    }
                    Err(_) => {
                        // Shorter than the negotiated header: refusing it is fine.
                        if total >= want {
                            push(v, "net-receive", format!("receive_complete of a {}-byte completion failed although it holds a whole {}-byte header", total, want));
                        }
                        std::mem::forget(rb);
                        break;
                    }
                }
            }
        }
        AnyDriver::NetBuf(n) => {
            let mut tx = n.new_tx_buffer(4);
            tx.packet_mut().copy_from_slice(&[1, 2, 3, 4]);
            let _ = n.send(tx);
            let _ = n.send(n.new_tx_buffer(0));
            n.disable_interrupts();
            n.enable_interrupts();
            // Receive side: the header in front of a received frame has the negotiated form, also
            // when the frame arrives in a buffer that has been used and recycled before (the
            // device fills the buffer it was given back first).
            let hl = if accepted & F_VERSION_1 != 0 { 12 } else { 10 };
            for round in 0..3u8 {
                let payload: Vec<u8> = (0..20u8).map(|i| 0x30 + round * 0x20 + i).collect();
                let mut frame = vec![0u8; hl];
                frame.extend(&payload);
                let mut co_b = co.borrow_mut();
                let held = co_b.held_count(0);
                if held == 0 {
                    break;
                }
                // Round 0: the buffer posted first; later rounds: the one posted last (recycled).
                let which = if round == 0 { 0 } else { held - 1 };
                co_b.complete_held(0, which, &frame, frame.len() as u32);
                drop(co_b);
                match n.receive() {
                    Ok(buf) => {
                        if buf.packet() != &payload[..] || buf.packet_len() != payload.len() {
                            push(v, "net-header-size", format!("frame {} received in a {} buffer: packet() = {:x?} (packet_len {}), the device wrote a {}-byte header followed by {:x?} (VERSION_1 negotiated = {})", round, if round == 0 { "fresh" } else { "recycled" }, buf.packet(), buf.packet_len(), hl, payload, hl == 12));
                        }
                        let _ = n.recycle_rx_buffer(buf);
                    }
                    Err(e) => {
                        push(v, "net-receive", format!("receive() = {:?} after the device delivered frame {}", e, round));
                        break;
                    }
                }
            }
        }
        AnyDriver::Rng(r) => {
            let mut b = [0u8; 8];
            let _ = r.request_entropy(&mut b);
            r.disable_interrupts();
            r.enable_interrupts();
        }
        AnyDriver::Rtc(r) => {
            let _ = r.num_clocks();
            let _ = r.clock_cap(0);
            let _ = r.read(0);
        }
        AnyDriver::Socket(s) => {
            use virtio_drivers::device::socket::{ConnectionInfo, VsockAddr};
            let ci = ConnectionInfo::new(VsockAddr { cid: 2, port: 80 }, 1234);
            let _ = s.connect(&ci);
            let mut ci2 = ci.clone();
            let _ = s.send(&[1, 2, 3], &mut ci2);
            let _ = s.poll(|e, _| Ok(Some(e)));
        }
        AnyDriver::Sound(s) => {
            use virtio_drivers::device::sound::{PcmFeatures, PcmFormat, PcmRate};
            // Control queue (information queries and stream commands), then the transmit queue in
            // both the blocking (stack buffers, three-part chains) and non-blocking form.
            let _ = s.output_streams();
            let _ = s.pcm_set_params(0, 8, 4, PcmFeatures::empty(), 1, PcmFormat::U8, PcmRate::Rate8000);
            let _ = s.pcm_prepare(0);
            let _ = s.pcm_start(0);
            if let Ok(tok) = s.pcm_xfer_nb(0, &[1, 2, 3, 4]) {
                let _ = s.pcm_xfer_ok(tok);
            }
            let _ = s.pcm_xfer(0, &[1, 2, 3, 4, 5, 6, 7, 8, 9]);
            let _ = s.latest_notification();
            let _ = s.pcm_stop(0);
            s.enable_interrupts(false);
            s.enable_interrupts(true);
        }
        AnyDriver::P9(p) => {
            let mut resp = [0u8; 16];
            let _ = p.request(&[7, 0, 0, 0, 100, 0, 0], &mut resp);
        }
    }
}

fn device_specific(kind: Kind, accepted: u64, served: &[crate::cosim::Served], log: &[TEvent], v: &mut Vec<(String, String)>) {
    match kind {
        Kind::Blk => {
            let flushes = served.iter().filter(|s| s.request.len() >= 4 && u32::from_le_bytes(s.request[0..4].try_into().unwrap()) == 4).count();
            let want = if accepted & (1 << 9) != 0 { 1 } else { 0 };
            if flushes != want {
                push(v, "blk-flush-gating", format!("{} flush requests emitted with FLUSH negotiated = {}", flushes, want == 1));
            }
        }
        Kind::Console => {
            let cfg_reads = log.iter().filter(|e| matches!(e, TEvent::ReadConfig { off, .. } if *off < 4)).count();
            if accepted & 1 == 0 && cfg_reads != 0 {
                push(v, "console-size-gating", "console size fields read although SIZE was not negotiated".into());
            }
            let cfg_writes = log.iter().filter(|e| matches!(e, TEvent::WriteConfig { .. })).count();
            if accepted & 4 == 0 && cfg_writes != 0 {
                push(v, "console-emerg-gating", "emergency write performed although EMERG_WRITE was not negotiated".into());
            }
        }
        Kind::Gpu => {
            let edid = served.iter().filter(|s| s.request.len() >= 4 && u32::from_le_bytes(s.request[0..4].try_into().unwrap()) == 0x10a).count();
            if accepted & 2 == 0 && edid != 0 {
                push(v, "gpu-edid-gating", "GET_EDID emitted although EDID was not negotiated".into());
            }
            if accepted & 2 != 0 && edid == 0 {
                push(v, "gpu-edid-gating", "GET_EDID not emitted although EDID was negotiated".into());
            }
        }
        Kind::NetRaw | Kind::NetBuf => {
            let want = if accepted & F_VERSION_1 != 0 { 12 } else { 10 };
            let payloads: [&[u8]; 2] = [&[1, 2, 3, 4], &[]];
            let txs: Vec<&crate::cosim::Served> = served.iter().filter(|s| s.q == 1).collect();
            for (s, p) in txs.iter().zip(payloads.iter()) {
                if s.request.len() != want + p.len() || s.request[..want.min(s.request.len())].iter().any(|b| *b != 0) || s.request[want.min(s.request.len())..] != **p {
                    push(v, "net-header-size", format!("transmitted chain is {:?}; expected a zeroed {}-byte header followed by the {} payload bytes (VERSION_1 negotiated = {})", s.request, want, p.len(), want == 12));
                }
            }
            if txs.len() != 2 {
                push(v, "net-no-transmit", format!("{} transmit chains seen for 2 sends", txs.len()));
            }
        }
        _ => {}
    }
}

/// The offered feature sets explored for a driver: every subset of its supported bits and three
/// unsupported representatives, every single bit, and all ones.
pub fn offered_sets(kind: Kind) -> Vec<u64> {
    let mut bits: Vec<u64> = (0..64).map(|b| 1u64 << b).filter(|b| kind.supported() & b != 0).collect();
    bits.push(kind.unsupported_specific());
    bits.push(crate::drivers::F_RING_PACKED);
    bits.push(1 << 63);
    let mut v = vec![];
    for m in 0..(1u64 << bits.len()) {
        let mut f = 0;
        for (i, b) in bits.iter().enumerate() {
            if m & (1 << i) != 0 {
                f |= b;
            }
        }
        v.push(f);
    }
    for b in 0..64 {
        v.push(1u64 << b);
    }
    v.push(u64::MAX);
    v.sort();
    v.dedup();
    v
}

pub fn run_case(kind: Kind, tkind: TKind, wrap_some: bool, offered: u64) -> Out {
    run_case_quirk(kind, tkind, wrap_some, offered, 0)
}

/// `quirk`: 0 = none; 1 = the device never lets FEATURES_OK stick; 2 = its reset is slow (status
/// reads right after a reset still return the old value). The status *writes* of the handshake are
/// the same whatever the device answers to status reads.
pub fn run_case_quirk(kind: Kind, tkind: TKind, wrap_some: bool, offered: u64, quirk: u8) -> Out {
    hal::reset();
    let mut w = DWorld::new(kind, tkind, offered, kind.default_config());
    {
        let mut d = w.dev.borrow_mut();
        d.status_quirk = quirk;
        if quirk == 2 {
            // As if a previous driver had left the device running.
            d.status = 0xf;
        }
    }
    w.wrap_some = wrap_some;
    let r = w.with_transport(V { offered });
    mmio::set_handler(None);
    r
}
