//! C15: console bytes are delivered exactly once and in order in both directions.

use crate::cosim::{self, Action, CoDevice, CoRc};
use crate::drivers::{DWorld, Kind, TKind, TransportVisitor, F_EVENT_IDX, F_INDIRECT, F_VERSION_1};
use crate::engine::chooser::{choose, obs, report, tag};
use crate::engine::Violation;
use crate::hal::{self, LabHal};
use crate::mmio;
use crate::tlog;
use embedded_io::{BufRead, Read, ReadReady};
use std::cell::{Cell, RefCell};
use std::rc::Rc;
use virtio_drivers::device::console::VirtIOConsole;
use virtio_drivers::transport::Transport;

fn viol(kind: &str, d: String) {
    report(Violation::new("C15", kind, d));
}

pub fn stream_byte(i: u64) -> u8 {
    (i % 250) as u8 + 1
}

pub const FILL_LENS: [usize; 3] = [1, 3, 4096];

struct Shared {
    /// Bytes the device has written to receive buffers so far.
    delivered: Cell<u64>,
    /// Bytes the public API has returned to the caller so far.
    returned: Cell<u64>,
    tx: RefCell<Vec<Vec<u8>>>,
    /// Bytes the call in progress takes out of the buffer before it may re-post it.
    in_call_allow: Cell<u64>,
    repost_errors: RefCell<Vec<String>>,
    /// A bulk read is in progress: it consumes and re-posts several times inside one call (what
    /// it returns is compared afterwards), and the device delivers 4096-byte chunks while it waits.
    bulk: Cell<bool>,
}

struct V {
    depth: usize,
}

fn device_fill(co: &CoRc, sh: &Shared, len: usize) -> bool {
    let mut c = co.borrow_mut();
    if c.held_count(0) == 0 {
        return false;
    }
    let cap = c.held.get(&0).map(|h| h[0].writable_len()).unwrap_or(0);
    let n = len.min(cap);
    let start = sh.delivered.get();
    let data: Vec<u8> = (0..n as u64).map(|i| stream_byte(start + i)).collect();
    c.complete_held(0, 0, &data, n as u32);
    sh.delivered.set(start + n as u64);
    true
}

impl TransportVisitor for V {
    type Out = ();
    fn visit<T: Transport + 'static>(self, t: T, w: &DWorld) {
        let sh = Rc::new(Shared { delivered: Cell::new(0), returned: Cell::new(0), tx: RefCell::new(vec![]), in_call_allow: Cell::new(0), repost_errors: RefCell::new(vec![]), bulk: Cell::new(false) });
        let co: CoRc = {
            let sh = sh.clone();
            CoDevice::new(
                w.dev.clone(),
                Box::new(move |q, chain, readable| {
                    if q == 0 {
                        // A receive buffer is being posted: everything delivered so far must have
                        // been handed to the caller.
                        if !sh.bulk.get() && sh.delivered.get() != sh.returned.get() + sh.in_call_allow.get() {
                            sh.repost_errors.borrow_mut().push(format!("receive buffer (re)posted while {} of {} delivered bytes have not been returned to the caller", sh.delivered.get() - sh.returned.get(), sh.delivered.get()));
                        }
                        if chain.readable_len() != 0 || chain.writable_len() == 0 {
                            sh.repost_errors.borrow_mut().push(format!("receive chain has {} readable and {} writable bytes", chain.readable_len(), chain.writable_len()));
                        }
                        Action::Hold
                    } else {
                        sh.tx.borrow_mut().push(readable.to_vec());
                        // The used length of a transmit buffer means nothing (the device wrote
                        // nothing); this device records 1 for every non-empty one, another
                        // might record 0 or the full length.
                        Action::Complete(vec![], readable.len().min(1) as u32)
                    }
                }),
            )
        };
        co.borrow_mut().spin_horizon = 6;
        co.borrow_mut().poll_on_spin = false;
        cosim::install(&co);
        // While a blocking read waits, the device delivers a chunk of a chosen size.
        {
            let co2 = co.clone();
            let sh2 = sh.clone();
            crate::mmio::set_spin_handler(Some(Box::new(move |site| {
                let spins = {
                    let mut c = co2.borrow_mut();
                    c.spins += 1;
                    c.spins
                };
                if spins > 6 {
                    co2.borrow_mut().livelock = Some(format!("busy-wait site {} exceeded 6 iterations", site));
                    panic!("LAB-LIVELOCK: console wait did not end");
                }
                if sh2.delivered.get() > sh2.returned.get() && !sh2.bulk.get() {
                    // Data is already in the used ring; the driver will find it after this spin.
                    return;
                }
                if sh2.bulk.get() && co2.borrow_mut().held_count(0) == 0 {
                    // (Bulk read: the chunk delivered at an earlier spin is still being consumed.)
                    return;
                }
                let len = if sh2.bulk.get() { 4096 } else { FILL_LENS[choose(FILL_LENS.len(), "chunk size delivered while the driver waits")] };
                if !device_fill(&co2, &sh2, len) {
                    co2.borrow_mut().livelock = Some("driver waits for received data but no receive buffer is posted".into());
                    panic!("LAB-LIVELOCK: driver waits with no receive buffer posted");
                }
            })));
        }
        let mut con = match VirtIOConsole::<LabHal, T>::new(t) {
            Ok(c) => c,
            Err(e) => {
                viol("construction", format!("{:?}", e));
                cosim::uninstall();
                return;
            }
        };
        let check_bytes = |sh: &Shared, got: &[u8], advance: bool, what: &str| {
            let r = sh.returned.get();
            for (i, b) in got.iter().enumerate() {
                if *b != stream_byte(r + i as u64) {
                    viol("stream-mismatch", format!("{} returned byte {:#x} at stream position {}, the device wrote {:#x} there", what, b, r + i as u64, stream_byte(r + i as u64)));
                    break;
                }
            }
            if r + got.len() as u64 > sh.delivered.get() {
                viol("stream-overrun", format!("{} returned {} bytes but only {} of the stream are delivered and unread", what, got.len(), sh.delivered.get() - r));
            }
            if advance {
                sh.returned.set(r + got.len() as u64);
            }
        };
        for step in 0..self.depth {
            co.borrow_mut().spins = 0;
            let avail = sh.delivered.get() - sh.returned.get();
            let op = choose(18, "console operation");
            match op {
                0..=2 => {
                    let ok = device_fill(&co, &sh, FILL_LENS[op]);
                    tlog!("step {}: device fills {} bytes: {}", step, FILL_LENS[op], ok);
                    tag(if ok { "dev:fill" } else { "dev:fill-no-buffer" });
                }
                3 | 4 => {
                    let pop = op == 4;
                    // recv(pop) takes one byte and may re-post the buffer before it returns.
                    sh.in_call_allow.set(if pop && avail > 0 { 1 } else { 0 });
                    let r = crate::util::catch(|| con.recv(pop));
                    sh.in_call_allow.set(0);
                    tlog!("step {}: recv({}) -> {:?}", step, pop, r);
                    tag("recv");
                    match r {
                        Ok(Ok(Some(b))) => {
                            if avail == 0 {
                                viol("recv-phantom", format!("recv({}) returned {:#x} with nothing unread", pop, b));
                            }
                            check_bytes(&sh, &[b], pop, "recv");
                        }
                        Ok(Ok(None)) => {
                            if avail != 0 {
                                viol("recv-lost", format!("recv({}) returned None with {} unread delivered bytes", pop, avail));
                            }
                        }
                        other => viol("recv-error", format!("recv({}) -> {:?}", pop, other)),
                    }
                }
                5 | 6 => {
                    let n = [1usize, 5][op - 5];
                    let mut buf = vec![0u8; n];
                    let r = crate::util::catch(|| con.read(&mut buf));
                    tlog!("step {}: read({}) -> {:?}", step, n, r);
                    tag("read");
                    match r {
                        Ok(Ok(k)) if k >= 1 && k <= n => check_bytes(&sh, &buf[..k], true, "read"),
                        other => {
                            if co.borrow().livelock.is_some() {
                                viol("read-livelock", co.borrow().livelock.clone().unwrap());
                                break;
                            }
                            viol("read-error", format!("read({}) -> {:?}", n, other));
                        }
                    }
                }
                17 => {
                    // A bulk read of a whole page, possibly with part of an earlier chunk still
                    // unread: the bytes come back in stream order.
                    let mut buf = vec![0u8; 4096];
                    sh.bulk.set(true);
                    let r = crate::util::catch(|| embedded_io::Read::read_exact(&mut con, &mut buf));
                    sh.bulk.set(false);
                    tag("read_exact");
                    match r {
                        Ok(Ok(())) => check_bytes(&sh, &buf, true, "read_exact(4096)"),
                        other => {
                            if co.borrow().livelock.is_some() {
                                viol("read-livelock", co.borrow().livelock.clone().unwrap());
                                break;
                            }
                            viol("read-error", format!("read_exact(4096) -> {:?}", other.map(|r| r.map_err(|e| format!("{:?}", e)))));
                        }
                    }
                }
                7..=9 => {
                    let r = crate::util::catch(|| con.fill_buf().map(|s| s.to_vec()));
                    tlog!("step {}: fill_buf -> {:?}", step, r.as_ref().map(|x| x.as_ref().map(|v| v.len())));
                    tag("fill_buf");
                    match r {
                        Ok(Ok(v)) if !v.is_empty() => {
                            check_bytes(&sh, &v, false, "fill_buf");
                            if v.len() as u64 != sh.delivered.get() - sh.returned.get() && sh.delivered.get() - sh.returned.get() <= 4096 {
                                // fill_buf exposes everything of the current chunk.
                            }
                            let amt = match op {
                                7 => 0,
                                8 => 1,
                                _ => v.len(),
                            };
                            let r2 = crate::util::catch(|| con.consume(amt));
                            if let Err(p) = r2 {
                                viol("consume-panic", p);
                            }
                            sh.returned.set(sh.returned.get() + amt as u64);
                        }
                        other => {
                            if co.borrow().livelock.is_some() {
                                viol("read-livelock", co.borrow().livelock.clone().unwrap());
                                break;
                            }
                            viol("fill_buf-error", format!("{:?}", other));
                        }
                    }
                }
                10 => {
                    let r = crate::util::catch(|| con.read_ready());
                    tag("read_ready");
                    if r != Ok(Ok(avail != 0)) {
                        viol("read_ready", format!("read_ready() = {:?} with {} unread delivered bytes", r, avail));
                    }
                }
                11 => {
                    let r = crate::util::catch(|| con.ack_interrupt());
                    tag("ack_interrupt");
                    if !matches!(r, Ok(Ok(_))) {
                        viol("ack_interrupt", format!("{:?}", r));
                    }
                }
                12 => {
                    let before = sh.tx.borrow().len();
                    let r = crate::util::catch(|| con.send(0x41 + step as u8));
                    tag("send");
                    let tx = sh.tx.borrow();
                    if !matches!(r, Ok(Ok(()))) || tx.len() != before + 1 || tx.last().unwrap() != &vec![0x41 + step as u8] {
                        viol("send", format!("send({:#x}) -> {:?}; transmit queue saw {:?}", 0x41 + step as u8, r, &tx[before..]));
                    }
                }
                14 => {
                    // embedded-io Write: all bytes in one chain, length returned; empty write is a no-op.
                    let before = sh.tx.borrow().len();
                    let data = [0x30 + step as u8, 0x31];
                    let r = crate::util::catch(|| embedded_io::Write::write(&mut con, &data));
                    let r0 = crate::util::catch(|| embedded_io::Write::write(&mut con, &[]));
                    tag("io-write");
                    let tx = sh.tx.borrow();
                    if !matches!(r, Ok(Ok(2))) || !matches!(r0, Ok(Ok(0))) || tx.len() != before + 1 || tx.last().unwrap()[..] != data {
                        viol("io-write", format!("Write::write({:?}) -> {:?}, empty write -> {:?}; transmit queue saw {:?}", data, r, r0, &tx[before..]));
                    }
                }
                16 => {
                    // Large writes: Write::write may accept a prefix but must place exactly the
                    // bytes it reports on the transmit queue; write_all must place all of them.
                    let before = sh.tx.borrow().len();
                    let data: Vec<u8> = (0..4097u32).map(|i| (i.wrapping_mul(7) as u8) ^ (step as u8)).collect();
                    let r = crate::util::catch(|| embedded_io::Write::write(&mut con, &data));
                    let sent: Vec<u8> = sh.tx.borrow()[before..].concat();
                    tag("io-write-large");
                    match r {
                        Ok(Ok(n)) if n >= 1 && n <= data.len() && sent[..] == data[..n] => {}
                        other => viol("io-write", format!("Write::write(4097 bytes) -> {:?}; transmit queue saw {} bytes in {} chains{}", other, sent.len(), sh.tx.borrow().len() - before, if sent.len() <= data.len() && sent[..] == data[..sent.len()] { " (a prefix of the data)" } else { " (not a prefix of the data)" })),
                    }
                    let before = sh.tx.borrow().len();
                    let data: Vec<u8> = (0..8193u32).map(|i| (i.wrapping_mul(13) as u8) ^ (step as u8)).collect();
                    let r = crate::util::catch(|| embedded_io::Write::write_all(&mut con, &data));
                    let sent: Vec<u8> = sh.tx.borrow()[before..].concat();
                    if !matches!(r, Ok(Ok(()))) || sent != data {
                        viol("io-write", format!("Write::write_all(8193 bytes) -> {:?}; transmit queue saw {} bytes, {}", r, sent.len(), if sent == data { "equal" } else { "different from the data" }));
                    }
                }
                15 => {
                    let before = sh.tx.borrow().len();
                    let r = crate::util::catch(|| core::fmt::Write::write_str(&mut con, "hi\u{e9}"));
                    tag("fmt-write_str");
                    let tx = sh.tx.borrow();
                    if !matches!(r, Ok(Ok(()))) || tx.len() != before + 1 || tx.last().unwrap()[..] != *"hi\u{e9}".as_bytes() {
                        viol("write_str", format!("write_str -> {:?}; transmit queue saw {:?}", r, &tx[before..]));
                    }
                }
                _ => {
                    let before = sh.tx.borrow().len();
                    let data = [0x61 + step as u8, 0, 0xff];
                    let r = crate::util::catch(|| con.send_bytes(&data));
                    tag("send_bytes");
                    let tx = sh.tx.borrow();
                    if !matches!(r, Ok(Ok(()))) || tx.len() != before + 1 || tx.last().unwrap()[..] != data {
                        viol("send_bytes", format!("send_bytes({:?}) -> {:?}; transmit queue saw {:?}", data, r, &tx[before..]));
                    }
                }
            }
            let posted = co.borrow_mut().held_count(0);
            if posted > 1 {
                viol("multiple-receive-buffers", format!("{} receive buffers outstanding", posted));
            }
            for e in sh.repost_errors.borrow_mut().drain(..) {
                viol("repost-with-unread-data", e);
            }
            for e in co.borrow_mut().errors.drain(..) {
                viol("chain-malformed", e);
            }
            obs(sh.delivered.get() << 20 | sh.returned.get() << 4 | posted as u64);
            if crate::engine::chooser::has_violation() {
                break;
            }
        }
        drop(con);
        cosim::uninstall();
    }
}

pub fn run(tkind: TKind, depth: usize) {
    hal::reset();
    // The third set also offers the console's own features (size, multiport, emergency write):
    // data still travels through the queues only.
    let feats = [F_VERSION_1, F_VERSION_1 | F_INDIRECT | F_EVENT_IDX, F_VERSION_1 | 0x7];
    let offered = feats[choose(feats.len(), "offered features")];
    let w = DWorld::new(Kind::Console, tkind, offered, Kind::Console.default_config());
    // (One step shallower for the second and third set: the alphabet has 18 operations.)
    let depth = if offered != F_VERSION_1 { depth.saturating_sub(1).max(1) } else { depth };
    w.with_transport(V { depth });
    mmio::set_handler(None);
}

// ------------------------------------------------------------------------------------------------
// The formatting adapter: every Unicode scalar value through `fmt::Write::write_char`, and
// formatted output that passes characters (arguments, fill characters) rather than string pieces.

struct VFmt;

impl TransportVisitor for VFmt {
    type Out = (u64, Vec<(String, String)>);
    fn visit<T: Transport + 'static>(self, t: T, w: &DWorld) -> Self::Out {
        use core::fmt::Write;
        let tx: Rc<RefCell<Vec<u8>>> = Rc::new(RefCell::new(vec![]));
        let co: CoRc = {
            let tx = tx.clone();
            CoDevice::new(
                w.dev.clone(),
                Box::new(move |q, _chain, readable| {
                    if q == 0 {
                        Action::Hold
                    } else {
                        tx.borrow_mut().extend_from_slice(readable);
                        // (Records half the length as used; see above.)
                        Action::Complete(vec![], (readable.len() / 2) as u32)
                    }
                }),
            )
        };
        cosim::install(&co);
        let mut out = vec![];
        let mut n = 0u64;
        let mut con = match VirtIOConsole::<LabHal, T>::new(t) {
            Ok(c) => c,
            Err(e) => {
                cosim::uninstall();
                return (0, vec![("construction".into(), format!("{:?}", e))]);
            }
        };
        for cp in 0..=0x10FFFFu32 {
            let Some(ch) = char::from_u32(cp) else { continue };
            tx.borrow_mut().clear();
            let r = con.write_char(ch);
            n += 1;
            let mut buf = [0u8; 4];
            let want = ch.encode_utf8(&mut buf).as_bytes();
            if r.is_err() || tx.borrow()[..] != *want {
                if out.len() < 4 {
                    out.push(("fmt-write_char".to_string(), format!("write_char(U+{:04X}) -> {:?}; the transmit queue received {:x?}, the character's UTF-8 encoding is {:x?}", cp, r, &tx.borrow()[..], want)));
                }
            }
            if cp % 4096 == 0 {
                hal::with(|h| h.compact());
                co.borrow_mut().served.clear();
            }
        }
        // Formatted output with character arguments and non-ASCII fill characters.
        let cases: Vec<(String, Box<dyn Fn(&mut VirtIOConsole<LabHal, T>) -> core::fmt::Result>)> = vec![
            ("{}{}".into(), Box::new(|c| write!(c, "{}{}", '\u{e9}', 'x'))),
            ("{:\u{b7}>4}".into(), Box::new(|c| write!(c, "{:\u{b7}>4}", 7))),
            ("{:\u{ff}<3}|{}".into(), Box::new(|c| write!(c, "{:\u{ff}<3}|{}", "a", '\u{80}'))),
            ("{:?}".into(), Box::new(|c| write!(c, "{:?}", "q\u{e9}\n"))),
            ("empty".into(), Box::new(|c| write!(c, "{}{}", "", "z"))),
        ];
        // Pieces of every length 0..=300 between shorter pieces, before and after an argument:
        // the transmit queue must receive the text in order whatever the lengths of the pieces.
        for len in 0..=300usize {
            let long: String = (0..len).map(|i| (b'a' + (i % 26) as u8) as char).collect();
            for variant in 0..3 {
                tx.borrow_mut().clear();
                let (r, want) = match variant {
                    0 => (crate::util::catch(std::panic::AssertUnwindSafe(|| write!(&mut con, "id={} msg={}\n", 7, long))), format!("id={} msg={}\n", 7, long)),
                    1 => (crate::util::catch(std::panic::AssertUnwindSafe(|| write!(&mut con, "{}{}|{}", long, 'x', 12345))), format!("{}{}|{}", long, 'x', 12345)),
                    _ => (crate::util::catch(std::panic::AssertUnwindSafe(|| write!(&mut con, "<{:>5}>{}<{}>", 3, long, long))), format!("<{:>5}>{}<{}>", 3, long, long)),
                };
                n += 1;
                match r {
                    Err(p) => {
                        if out.len() < 4 {
                            out.push(("fmt-write-panic".to_string(), format!("formatted write with a {}-byte piece panicked: {}", len, p)));
                        }
                    }
                    Ok(r) => {
                        if (r.is_err() || tx.borrow()[..] != *want.as_bytes()) && out.len() < 4 {
                            out.push(("fmt-write".to_string(), format!("formatted write (variant {}) with a {}-byte piece -> {:?}; the transmit queue received {:?}, the formatted text is {:?}", variant, len, r, String::from_utf8_lossy(&tx.borrow()[..]), want)));
                        }
                    }
                }
            }
            hal::with(|h| h.compact());
            co.borrow_mut().served.clear();
        }
        // Strings longer than a page with a multi-byte character across every page boundary
        // (2-, 3- and 4-byte encodings starting 1..3 bytes before offsets 4096 and 8192).
        for (ch, chlen) in [('\u{e9}', 2usize), ('\u{20ac}', 3), ('\u{1f600}', 4)] {
            for boundary in [4096usize, 8192] {
                for before in 1..chlen {
                    let mut text = String::new();
                    text.extend(std::iter::repeat('a').take(boundary - before));
                    text.push(ch);
                    text.extend(std::iter::repeat('b').take(700));
                    for via_fmt in [false, true] {
                        tx.borrow_mut().clear();
                        let r = crate::util::catch(std::panic::AssertUnwindSafe(|| if via_fmt { write!(&mut con, "{}", text) } else { core::fmt::Write::write_str(&mut con, &text) }));
                        n += 1;
                        let ok = matches!(r, Ok(Ok(()))) && tx.borrow()[..] == *text.as_bytes();
                        if !ok && out.len() < 4 {
                            out.push(("fmt-write".to_string(), format!("{} of a {}-byte string with a {}-byte character starting {} byte(s) before offset {} -> {:?}; the transmit queue received {} bytes{}", if via_fmt { "write!" } else { "write_str" }, text.len(), chlen, before, boundary, r.as_ref().map(|x| x.is_ok()), tx.borrow().len(), if tx.borrow()[..] == *text.as_bytes() { "" } else { ", which differ from the text" })));
                        }
                        hal::with(|h| h.compact());
                        co.borrow_mut().served.clear();
                    }
                }
            }
        }
        for (name, f) in cases {
            tx.borrow_mut().clear();
            let r = match crate::util::catch(std::panic::AssertUnwindSafe(|| f(&mut con))) {
                Ok(r) => r,
                Err(p) => {
                    out.push(("fmt-write-panic".to_string(), format!("write!(console, {:?}, ..) panicked: {}", name, p)));
                    break;
                }
            };
            n += 1;
            let mut want = String::new();
            match name.as_str() {
                "{}{}" => write!(want, "{}{}", '\u{e9}', 'x').unwrap(),
                "{:\u{b7}>4}" => write!(want, "{:\u{b7}>4}", 7).unwrap(),
                "{:\u{ff}<3}|{}" => write!(want, "{:\u{ff}<3}|{}", "a", '\u{80}').unwrap(),
                "empty" => write!(want, "{}{}", "", "z").unwrap(),
                _ => write!(want, "{:?}", "q\u{e9}\n").unwrap(),
            }
            if r.is_err() || tx.borrow()[..] != *want.as_bytes() {
                out.push(("fmt-write".to_string(), format!("write!(console, {:?}, ..) -> {:?}; the transmit queue received {:x?}, the formatted text is {:x?}", name, r, &tx.borrow()[..], want.as_bytes())));
            }
        }
        drop(con);
        cosim::uninstall();
        (n, out)
    }
}

/// Runs the sweep; returns (cases, violations).
pub fn sweep_fmt(tkind: TKind) -> (u64, Vec<(String, String)>) {
    hal::reset();
    let w = DWorld::new(Kind::Console, tkind, F_VERSION_1, Kind::Console.default_config());
    let r = w.with_transport(VFmt);
    mmio::set_handler(None);
    r
}

// ------------------------------------------------------------------------------------------------
// A long receive session: more than 65536 chunks through the receive queue (both ring indices
// wrap), every byte taken with recv(true) and compared with what the device wrote.

pub fn run_linear_rx(tkind: TKind, chunks: u64) -> (u64, Vec<(String, String)>) {
    struct VL {
        chunks: u64,
    }
    impl TransportVisitor for VL {
        type Out = (u64, Vec<(String, String)>);
        fn visit<T: Transport + 'static>(self, t: T, w: &DWorld) -> Self::Out {
            let co = CoDevice::new(w.dev.clone(), Box::new(move |q, _chain, _readable| if q == 0 { Action::Hold } else { Action::Complete(vec![], 0) }));
            co.borrow_mut().spin_horizon = 6;
            cosim::install(&co);
            let mut out = vec![];
            let mut con = match VirtIOConsole::<LabHal, T>::new(t) {
                Ok(c) => c,
                Err(e) => {
                    cosim::uninstall();
                    return (0, vec![("construction".into(), format!("{:?}", e))]);
                }
            };
            let mut pos = 0u64;
            let mut n = 0u64;
            'outer: for i in 0..self.chunks {
                let len = 1 + (i % 3) as usize;
                let data: Vec<u8> = (0..len as u64).map(|k| stream_byte(pos + k)).collect();
                let filled = {
                    let mut c = co.borrow_mut();
                    c.held_count(0) > 0 && c.complete_held(0, 0, &data, len as u32)
                };
                if !filled {
                    out.push(("linear-receive".into(), format!("chunk {}: no receive buffer is posted although everything delivered so far has been read", i)));
                    break;
                }
                for k in 0..len {
                    match crate::util::catch(|| con.recv(true)) {
                        Ok(Ok(Some(b))) if b == data[k] => {}
                        other => {
                            out.push(("linear-receive".into(), format!("chunk {} ({} bytes, stream position {}): recv(true) for byte {} -> {:?}, the device wrote {:#x}", i, len, pos, k, other, data[k])));
                            break 'outer;
                        }
                    }
                }
                match crate::util::catch(|| con.recv(true)) {
                    Ok(Ok(None)) => {}
                    other => {
                        out.push(("linear-receive".into(), format!("after chunk {} was read completely recv(true) -> {:?}, expected None", i, other)));
                        break;
                    }
                }
                pos += len as u64;
                n += 1;
                if i % 4096 == 0 {
                    hal::with(|h| h.compact());
                    co.borrow_mut().served.clear();
                }
            }
            drop(con);
            cosim::uninstall();
            (n, out)
        }
    }
    hal::reset();
    let w = DWorld::new(Kind::Console, tkind, F_VERSION_1, Kind::Console.default_config());
    let r = w.with_transport(VL { chunks });
    mmio::set_handler(None);
    r
}
