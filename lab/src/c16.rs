//! C16: network frames pass unmodified; receive buffers are never lost or duplicated.

use crate::cosim::{self, Action, CoDevice, CoRc};
use crate::drivers::{DWorld, Kind, TKind, TransportVisitor, F_EVENT_IDX, F_INDIRECT, F_VERSION_1, NET_BUF_LEN, NET_QS};
use crate::engine::chooser::{choose, obs, report, tag};
use crate::engine::Violation;
use crate::hal::{self, LabHal};
use crate::mmio;
use crate::tlog;
use std::cell::RefCell;
use std::collections::VecDeque;
use std::rc::Rc;
use virtio_drivers::device::net::{RxBuffer, VirtIONet, VirtIONetRaw};
use virtio_drivers::transport::Transport;
use virtio_drivers::Error;

fn viol(kind: &str, d: String) {
    report(Violation::new("C16", kind, d));
}

pub fn frame_byte(seq: u32, i: usize) -> u8 {
    (seq.wrapping_mul(37).wrapping_add(i as u32 * 11).wrapping_add(5) % 253) as u8
}

pub const TX_LENS: [usize; 4] = [0, 1, 60, 1514];

struct Net {
    tx: RefCell<Vec<Vec<u8>>>,
    hold_tx: RefCell<bool>,
}

fn make_co(w: &DWorld, net: &Rc<Net>) -> CoRc {
    let net = net.clone();
    let co = CoDevice::new(
        w.dev.clone(),
        Box::new(move |q, chain, readable| {
            if q == 0 {
                if chain.readable_len() != 0 {
                    // Receive buffers are device-writable only.
                }
                Action::Hold
            } else {
                net.tx.borrow_mut().push(readable.to_vec());
                if *net.hold_tx.borrow() {
                    Action::Hold
                } else {
                    Action::Complete(vec![], 0)
                }
            }
        }),
    );
    co.borrow_mut().spin_horizon = 6;
    co
}

/// The device writes a frame of `len` payload bytes into the j-th posted receive buffer.
fn deliver(co: &CoRc, hdr: usize, j: usize, len: usize, seq: u32) -> Option<(u16, Vec<u8>)> {
    let mut c = co.borrow_mut();
    if c.held_count(0) <= j {
        return None;
    }
    let chain = c.held.get(&0).unwrap()[j].clone();
    let cap = chain.writable_len();
    let len = len.min(cap.saturating_sub(hdr));
    let mut data = vec![0u8; hdr];
    // num_buffers = 1 for the modern header.
    if hdr == 12 {
        data[10] = 1;
    }
    let payload: Vec<u8> = (0..len).map(|i| frame_byte(seq, i)).collect();
    data.extend(&payload);
    c.complete_held(0, j, &data, (hdr + len) as u32);
    Some((chain.head, payload))
}

fn check_tx(net: &Net, before: usize, hdr: usize, payload: &[u8], what: &str) {
    let tx = net.tx.borrow();
    if tx.len() != before + 1 {
        viol("tx-count", format!("{} placed {} chains on the transmit queue", what, tx.len() - before));
        return;
    }
    let f = tx.last().unwrap();
    if f.len() != hdr + payload.len() || f[..hdr.min(f.len())].iter().any(|b| *b != 0) || f[hdr.min(f.len())..] != *payload {
        viol("tx-frame", format!("{}: device received {} bytes (header {:?}...), expected a zeroed {}-byte header followed by the {} payload bytes", what, f.len(), &f[..hdr.min(f.len()).min(12)], hdr, payload.len()));
    }
}

// ------------------------------------------------------------------------------------------
// Buffer-managing driver.

struct VBuf {
    depth: usize,
    /// Operation *types* are free choices and buffer indices are bounded deviations from
    /// "oldest first" (deeper histories).
    deep: bool,
    /// Size of the receive buffers the driver is created with.
    buf_len: usize,
}

impl TransportVisitor for VBuf {
    type Out = ();
    fn visit<T: Transport + 'static>(self, t: T, w: &DWorld) {
        let net = Rc::new(Net { tx: RefCell::new(vec![]), hold_tx: RefCell::new(false) });
        let co = make_co(w, &net);
        cosim::install(&co);
        let mut dev = match VirtIONet::<LabHal, T, NET_QS>::new(t, self.buf_len) {
            Ok(d) => d,
            Err(e) => {
                viol("construction", format!("{:?}", e));
                cosim::uninstall();
                return;
            }
        };
        let v1 = w.dev.borrow().driver_features & F_VERSION_1 != 0;
        let hdr = if v1 { 12 } else { 10 };
        let mut held: Vec<(RxBuffer, Vec<u8>)> = vec![];
        // Completions in used-ring order: (token, payload).
        let mut completed: VecDeque<(u16, Vec<u8>)> = VecDeque::new();
        let mut seq = 0u32;
        // 0, 1, a full Ethernet frame, a frame within one header length of the buffer's capacity,
        // and one that fills the buffer exactly (clamped by `deliver`).
        let lens = if self.buf_len > 65536 {
            // Buffers above 64 KiB: frames whose length (with and without the header) crosses 2^16.
            [1usize, 65535 - 12, 65536 - 10, 65536, self.buf_len]
        } else {
            [0usize, 1, 1514, self.buf_len - 20, self.buf_len]
        };
        for step in 0..self.depth {
            let posted = co.borrow_mut().held_count(0);
            let mut menu: Vec<(u8, usize, usize)> = vec![];
            for j in 0..posted {
                for l in 0..lens.len() {
                    menu.push((0, j, l));
                }
            }
            menu.push((1, 0, 0));
            for k in 0..held.len() {
                menu.push((2, k, 0));
            }
            for l in 0..TX_LENS.len() {
                menu.push((3, l, 0));
            }
            let (op, a, b) = if self.deep {
                match choose(4, "net operation type") {
                    0 => {
                        if posted == 0 {
                            continue;
                        }
                        (0u8, crate::engine::chooser::deviate(posted, "which posted buffer the device fills (default: oldest)"), if self.buf_len > 65536 { choose(lens.len(), "frame length") } else { 1 + crate::engine::chooser::deviate(2, "frame length (default: 1 byte)") })
                    }
                    1 => (1, 0, 0),
                    2 => {
                        if held.is_empty() {
                            continue;
                        }
                        (2, crate::engine::chooser::deviate(held.len(), "which held buffer is recycled (default: oldest)"), 0)
                    }
                    _ => (3, 2, 0),
                }
            } else {
                menu[choose(menu.len(), "net operation")]
            };
            match op {
                0 => {
                    seq += 1;
                    if let Some((tok, payload)) = deliver(&co, hdr, a, lens[b], seq) {
                        tlog!("step {}: device delivers {} bytes into posted buffer #{} (token {})", step, payload.len(), a, tok);
                        completed.push_back((tok, payload));
                        tag("dev:deliver");
                    }
                }
                1 => {
                    let r = crate::util::catch(|| dev.receive());
                    match (r, completed.pop_front()) {
                        (Ok(Ok(mut rx)), Some((_tok, payload))) => {
                            tag("receive:ok");
                            // Every view of the received buffer: the frame (shared and mutable
                            // view), the raw bytes and the decoded header.
                            match crate::util::catch(std::panic::AssertUnwindSafe(|| rx.packet_mut().to_vec())) {
                                Ok(pm) => {
                                    if pm != payload {
                                        viol("rx-data", format!("packet_mut() is {} bytes {:?}..., the device wrote the {}-byte frame {:?}... after a {}-byte header", pm.len(), &pm[..pm.len().min(4)], payload.len(), &payload[..payload.len().min(4)], hdr));
                                    }
                                }
                                Err(p) => viol("rx-data", format!("packet_mut() panicked for a {}-byte frame after a {}-byte header: {}", payload.len(), hdr, p)),
                            }
                            if rx.as_bytes().len() < hdr + payload.len() || rx.as_bytes()[hdr..hdr + payload.len()] != payload[..] {
                                viol("rx-data", format!("as_bytes() does not hold the {}-byte frame after the {}-byte header", payload.len(), hdr));
                            }
                            tlog!("step {}: receive -> packet of {} bytes", step, rx.packet_len());
                            if rx.packet_len() != payload.len() {
                                viol("rx-length", format!("packet_len() = {} but the device wrote a {}-byte frame (used length minus the {}-byte header)", rx.packet_len(), payload.len(), hdr));
                            } else if rx.packet() != &payload[..] {
                                viol("rx-data", format!("received frame of {} bytes differs from what the device wrote", payload.len()));
                            }
                            held.push((rx, payload));
                        }
                        (Ok(Err(Error::NotReady)), None) => {
                            tag("receive:not-ready");
                        }
                        (r, exp) => viol("receive", format!("receive() -> {:?} while the device has completed {:?}", r.map(|x| x.map(|b| b.packet_len())), exp.map(|e| e.0))),
                    }
                }
                2 => {
                    let (rx, _) = held.remove(a);
                    let r = crate::util::catch(|| dev.recycle_rx_buffer(rx));
                    tlog!("step {}: recycle held buffer #{} -> {:?}", step, a, r);
                    tag("recycle");
                    if !matches!(r, Ok(Ok(()))) {
                        viol("recycle", format!("recycle_rx_buffer -> {:?}", r));
                    }
                }
                _ => {
                    let len = TX_LENS[a];
                    let mut tx = dev.new_tx_buffer(len);
                    let payload: Vec<u8> = (0..len).map(|i| frame_byte(1000 + step as u32, i)).collect();
                    tx.packet_mut().copy_from_slice(&payload);
                    let before = net.tx.borrow().len();
                    let r = crate::util::catch(|| dev.send(tx));
                    tag("send");
                    if !matches!(r, Ok(Ok(()))) {
                        viol("send", format!("send({} bytes) -> {:?}", len, r));
                    }
                    check_tx(&net, before, hdr, &payload, "send");
                }
            }
            // Conservation and readiness after every step.
            let posted = co.borrow_mut().held_count(0);
            let in_used = completed.len();
            if posted + in_used + held.len() != NET_QS {
                viol("buffer-conservation", format!("{} buffers posted + {} completed and not yet received + {} held by the caller != queue size {}", posted, in_used, held.len(), NET_QS));
            }
            let cr = dev.can_recv();
            if cr != !completed.is_empty() {
                viol("can_recv", format!("can_recv() = {} with {} completed receive buffers", cr, completed.len()));
            }
            if !dev.can_send() {
                viol("can_send", "can_send() = false with an idle transmit queue".into());
            }
            // Held buffers keep their contents.
            for (rx, payload) in &held {
                if rx.packet() != &payload[..] {
                    viol("held-buffer-changed", "a receive buffer owned by the caller changed".into());
                }
            }
            for e in co.borrow_mut().errors.drain(..) {
                viol("chain-malformed", e);
            }
            // A posted receive buffer belongs to the device: the driver may not write into it
            // (the platform layer compares its content at unshare with that at share).
            for (k, d) in hal::with(|h| std::mem::take(&mut h.faults)) {
                if k == "buffer-written-while-shared" {
                    viol("rx-buffer-written-while-posted", d);
                }
            }
            obs((posted as u64) << 8 | (in_used as u64) << 4 | held.len() as u64);
            if crate::engine::chooser::has_violation() {
                break;
            }
        }
        drop(dev);
        drop(held);
        cosim::uninstall();
    }
}

// ------------------------------------------------------------------------------------------
// Raw driver.

struct VRaw {
    depth: usize,
    /// The device answers a blocking receive only after 150 000 polls.
    slow: bool,
}

struct RawRx {
    token: u16,
    buf: Box<[u8]>,
}

impl TransportVisitor for VRaw {
    type Out = ();
    fn visit<T: Transport + 'static>(self, t: T, w: &DWorld) {
        let net = Rc::new(Net { tx: RefCell::new(vec![]), hold_tx: RefCell::new(false) });
        let co = make_co(w, &net);
        co.borrow_mut().poll_on_spin = false;
        cosim::install(&co);
        let mut dev = match VirtIONetRaw::<LabHal, T, NET_QS>::new(t) {
            Ok(d) => d,
            Err(e) => {
                viol("construction", format!("{:?}", e));
                cosim::uninstall();
                return;
            }
        };
        let v1 = w.dev.borrow().driver_features & F_VERSION_1 != 0;
        let hdr = if v1 { 12 } else { 10 };
        if dev.mac_address() != [0x52, 0x54, 0x00, 0x12, 0x34, 0x56] {
            viol("mac", format!("mac_address() = {:02x?}", dev.mac_address()));
        }
        let mut rx: Vec<RawRx> = vec![];
        let mut completed: VecDeque<(u16, Vec<u8>)> = VecDeque::new();
        let mut txs: Vec<(u16, Box<[u8]>, bool)> = vec![];
        let mut seq = 0u32;
        // While receive_wait spins, the device delivers into the newest posted buffer.
        let wait_seq = Rc::new(RefCell::new(None::<(u16, Vec<u8>)>));
        {
            let co2 = co.clone();
            let ws = wait_seq.clone();
            // (frame length, poll at which the device delivers): decided at the first poll of a wait.
            let plan: Rc<std::cell::Cell<Option<(usize, u64)>>> = Rc::new(std::cell::Cell::new(None));
            let slow = self.slow;
            crate::mmio::set_spin_handler(Some(Box::new(move |_site| {
                let n = {
                    let mut c = co2.borrow_mut();
                    c.spins += 1;
                    c.spins
                };
                if n == 1 || plan.get().is_none() {
                    // A quick device with a small or a full frame, or a slow one that takes 150 000
                    // polls: however long the wait, the call returns with the frame and not before.
                    plan.set(Some(if slow { (1514usize, 150_000u64) } else { [(1usize, 1u64), (1514, 1)][choose(2, "frame size delivered while receive_wait spins")] }));
                }
                let (len, at) = plan.get().unwrap();
                if n > at + 4 {
                    panic!("LAB-LIVELOCK: receive_wait did not return");
                }
                if ws.borrow().is_none() && n >= at {
                    let posted = co2.borrow_mut().held_count(0);
                    if posted == 0 {
                        panic!("LAB-LIVELOCK: receive_wait spins with no buffer posted");
                    }
                    let r = deliver(&co2, hdr, posted - 1, len, 777);
                    *ws.borrow_mut() = r;
                }
            })));
        }
        let lens = [0usize, 1, 1514, 2048 - 20, 4096];
        for step in 0..self.depth {
            co.borrow_mut().spins = 0;
            let posted = co.borrow_mut().held_count(0);
            let tx_held = co.borrow_mut().held_count(1);
            let mut menu: Vec<(u8, usize, usize)> = vec![];
            let idle = rx.is_empty() && txs.is_empty();
            if txs.is_empty() {
                for l in 0..TX_LENS.len() {
                    menu.push((0, l, 0));
                }
            } else if txs.len() + if w.dev.borrow().driver_features & F_INDIRECT != 0 { 1 } else { 2 } <= NET_QS && txs.iter().all(|t| !t.2) {
                // A blocking send while non-blocking transmissions are in flight and held by the
                // device (none completed): there is room (two descriptors, or one slot with indirect
                // descriptors), so it goes through like any other.
                menu.push((0, 1, 0));
            }
            // Up to a queue-full of transmissions in flight (one descriptor each).
            if txs.len() < 2 {
                menu.push((1, 0, 0));
                menu.push((1, 1, 0));
                menu.push((1, 3, 0));
            } else if txs.len() < NET_QS {
                menu.push((1, 1, 0));
            }
            for j in 0..tx_held {
                menu.push((2, j, 0));
            }
            if txs.iter().any(|t| t.2) {
                menu.push((3, 0, 0));
            }
            if rx.len() < NET_QS {
                menu.push((4, 0, 0));
            }
            for j in 0..posted {
                for l in 0..lens.len() {
                    menu.push((5, j, l));
                }
            }
            if !completed.is_empty() {
                menu.push((6, 0, 0));
            }
            if idle {
                menu.push((7, 0, 0));
            }
            let (op, a, b) = menu[choose(menu.len(), "raw net operation")];
            match op {
                0 => {
                    *net.hold_tx.borrow_mut() = false;
                    let len = TX_LENS[a];
                    let payload: Vec<u8> = (0..len).map(|i| frame_byte(2000 + step as u32, i)).collect();
                    let before = net.tx.borrow().len();
                    let r = crate::util::catch(|| dev.send(&payload));
                    tag("raw:send");
                    if !matches!(r, Ok(Ok(()))) {
                        viol("send", format!("send({} bytes) -> {:?}", len, r));
                    }
                    check_tx(&net, before, hdr, &payload, "send");
                }
                1 => {
                    *net.hold_tx.borrow_mut() = true;
                    let len = TX_LENS[a];
                    let mut buf = vec![0xEEu8; hdr + len];
                    let hl = dev.fill_buffer_header(&mut buf);
                    if hl != Ok(hdr) {
                        viol("header-size", format!("fill_buffer_header = {:?}, expected {}", hl, hdr));
                    }
                    for i in 0..len {
                        buf[hdr + i] = frame_byte(3000 + step as u32, i);
                    }
                    let buf = buf.into_boxed_slice();
                    let before = net.tx.borrow().len();
                    // SAFETY: the buffer lives in `txs` until transmit_complete.
                    let r = unsafe { dev.transmit_begin(&buf) };
                    tag("raw:transmit_begin");
                    match r {
                        Ok(tok) => {
                            co.borrow_mut().service(1);
                            check_tx(&net, before, hdr, &buf[hdr..], "transmit_begin");
                            txs.push((tok, buf, false));
                        }
                        Err(e) => viol("transmit_begin", format!("{:?}", e)),
                    }
                }
                2 => {
                    let chain = co.borrow().held.get(&1).and_then(|h| h.get(a).cloned());
                    if let Some(chain) = chain {
                        co.borrow_mut().complete_held(1, a, &[], 0);
                        if let Some(t) = txs.iter_mut().find(|t| t.0 == chain.head) {
                            t.2 = true;
                        }
                        tag("dev:tx-complete");
                    }
                }
                3 => {
                    let tok = dev.poll_transmit();
                    match tok.and_then(|t| txs.iter().position(|x| x.0 == t && x.2)) {
                        Some(i) => {
                            let (t, buf, _) = txs.remove(i);
                            // SAFETY: same buffer as passed to transmit_begin.
                            let r = unsafe { dev.transmit_complete(t, &buf) };
                            tag("raw:transmit_complete");
                            if r.is_err() {
                                viol("transmit_complete", format!("{:?}", r));
                            }
                        }
                        None => viol("poll_transmit", format!("poll_transmit() = {:?} but completed transmissions are {:?}", tok, txs.iter().filter(|t| t.2).map(|t| t.0).collect::<Vec<_>>())),
                    }
                }
                4 => {
                    let mut buf = vec![0x77u8; NET_BUF_LEN].into_boxed_slice();
                    // SAFETY: the buffer lives in `rx` until receive_complete.
                    let r = unsafe { dev.receive_begin(&mut buf) };
                    tag("raw:receive_begin");
                    match r {
                        Ok(tok) => rx.push(RawRx { token: tok, buf }),
                        Err(e) => viol("receive_begin", format!("{:?}", e)),
                    }
                }
                5 => {
                    seq += 1;
                    if let Some((tok, payload)) = deliver(&co, hdr, a, lens[b], seq) {
                        completed.push_back((tok, payload));
                        tag("dev:deliver");
                    }
                }
                6 => {
                    let tok = dev.poll_receive();
                    let (want_tok, payload) = completed.pop_front().unwrap();
                    if tok != Some(want_tok) {
                        viol("poll_receive", format!("poll_receive() = {:?}, next completed buffer has token {}", tok, want_tok));
                    } else {
                        let i = rx.iter().position(|r| r.token == want_tok).unwrap();
                        let mut r = rx.remove(i);
                        // SAFETY: same buffer as passed to receive_begin.
                        let res = unsafe { dev.receive_complete(want_tok, &mut r.buf) };
                        tag("raw:receive_complete");
                        match res {
                            Ok((h, l)) => {
                                if h != hdr || l != payload.len() {
                                    viol("rx-length", format!("receive_complete = ({}, {}), expected header {} and packet {} (used length minus header)", h, l, hdr, payload.len()));
                                } else if r.buf[h..h + l] != payload[..] {
                                    viol("rx-data", "received frame differs from what the device wrote".into());
                                }
                            }
                            Err(e) => viol("receive_complete", format!("{:?}", e)),
                        }
                    }
                }
                _ => {
                    *wait_seq.borrow_mut() = None;
                    let mut buf = vec![0x55u8; NET_BUF_LEN];
                    let r = crate::util::catch(|| dev.receive_wait(&mut buf));
                    tag("raw:receive_wait");
                    let delivered = wait_seq.borrow_mut().take();
                    match (r, delivered) {
                        (Ok(Ok((h, l))), Some((_t, payload))) => {
                            if h != hdr || l != payload.len() || buf[h..h + l] != payload[..] {
                                viol("rx-data", format!("receive_wait = ({}, {}) for a {}-byte frame", h, l, payload.len()));
                            }
                        }
                        (r, d) => viol("receive_wait", format!("receive_wait -> {:?}, delivered {:?}", r, d.map(|x| x.1.len()))),
                    }
                }
            }
            if dev.poll_receive() != completed.front().map(|c| c.0) {
                viol("poll_receive", format!("poll_receive() = {:?}, reference ring front {:?}", dev.poll_receive(), completed.front().map(|c| c.0)));
            }
            // Readiness agrees with the queue state: can_send() promises that a blocking send (a
            // header and a payload part: two descriptors, or one with an indirect table) will not
            // be refused for lack of room.
            {
                let indirect = w.dev.borrow().driver_features & F_INDIRECT != 0;
                let free = NET_QS - txs.len();
                let room = if indirect { free >= 1 } else { free >= 2 };
                let cs = dev.can_send();
                if cs != room {
                    viol("can_send", format!("can_send() = {} with {} of {} transmit descriptors in use ({}): a send {} be accepted", cs, txs.len(), NET_QS, if indirect { "indirect descriptors" } else { "direct descriptors" }, if room { "would" } else { "would not" }));
                }
            }
            for e in co.borrow_mut().errors.drain(..) {
                viol("chain-malformed", e);
            }
            obs((rx.len() as u64) << 8 | (txs.len() as u64) << 4 | completed.len() as u64);
            if crate::engine::chooser::has_violation() {
                break;
            }
        }
        drop(dev);
        cosim::uninstall();
    }
}

pub fn run(tkind: TKind, raw: bool, depth: usize) {
    run_mode(tkind, raw, depth, false)
}

pub fn run_mode(tkind: TKind, raw: bool, depth: usize, deep: bool) {
    hal::reset();
    hal::with(|h| h.watch_writes = true);
    // (The legacy set also offers features the driver does not support - checksum offload,
    // mergeable receive buffers, control queue: what counts is what was negotiated.)
    let feats = [F_VERSION_1 | (1 << 5), (1 << 5) | (1 << 16) | 1 | (1 << 15) | (1 << 17), F_VERSION_1 | F_INDIRECT | F_EVENT_IDX];
    let offered = feats[choose(feats.len(), "offered features")];
    let kind = if raw { Kind::NetRaw } else { Kind::NetBuf };
    let w = DWorld::new(kind, tkind, offered, kind.default_config());
    if raw {
        w.with_transport(VRaw { depth, slow: false });
    } else {
        w.with_transport(VBuf { depth, deep, buf_len: NET_BUF_LEN });
    }
    mmio::set_handler(None);
}

/// The raw driver against a device that answers a blocking receive only after 150 000 polls
/// (short histories): however long the wait, the call returns with the frame and not before.
pub fn run_slow(tkind: TKind, depth: usize) {
    hal::reset();
    let feats = [F_VERSION_1 | (1 << 5), (1 << 5) | (1 << 16)];
    let offered = feats[choose(feats.len(), "offered features")];
    let w = DWorld::new(Kind::NetRaw, tkind, offered, Kind::NetRaw.default_config());
    w.with_transport(VRaw { depth, slow: true });
    mmio::set_handler(None);
}

/// The buffer-managing driver created with 128 KiB receive buffers (nothing limits the size the
/// caller may ask for): frames of 64 KiB and more.
pub fn run_large(tkind: TKind, depth: usize) {
    hal::reset();
    let feats = [F_VERSION_1 | (1 << 5), (1 << 5) | (1 << 16)];
    let offered = feats[choose(feats.len(), "offered features")];
    let w = DWorld::new(Kind::NetBuf, tkind, offered, Kind::NetBuf.default_config());
    w.with_transport(VBuf { depth, deep: true, buf_len: 128 * 1024 });
    mmio::set_handler(None);
}

// ------------------------------------------------------------------------------------------
// Long sessions: more than 65536 frames in each direction through one driver instance (both ring
// indices of both queues wrap), every frame compared.

pub fn run_linear(tkind: TKind, frames: u32) -> (u64, Vec<(String, String)>) {
    struct VL {
        frames: u32,
    }
    impl TransportVisitor for VL {
        type Out = (u64, Vec<(String, String)>);
        fn visit<T: Transport + 'static>(self, t: T, w: &DWorld) -> Self::Out {
            let net = Rc::new(Net { tx: RefCell::new(vec![]), hold_tx: RefCell::new(false) });
            let co = make_co(w, &net);
            cosim::install(&co);
            let mut out: Vec<(String, String)> = vec![];
            let mut dev = match VirtIONet::<LabHal, T, NET_QS>::new(t, NET_BUF_LEN) {
                Ok(d) => d,
                Err(e) => {
                    cosim::uninstall();
                    return (0, vec![("construction".into(), format!("{:?}", e))]);
                }
            };
            let hdr = if w.dev.borrow().driver_features & F_VERSION_1 != 0 { 12 } else { 10 };
            let mut n = 0u64;
            for i in 0..self.frames {
                // The device uses the posted buffers in a rotating order (not always the oldest).
                let posted = co.borrow_mut().held_count(0);
                if posted == 0 {
                    out.push(("linear-run".into(), format!("frame {}: no receive buffer is posted although every buffer was recycled", i)));
                    break;
                }
                let j = (i as usize / 3) % posted;
                let len = 1 + (i as usize % 61);
                let Some((_tok, payload)) = deliver(&co, hdr, j, len, i) else { break };
                match crate::util::catch(|| dev.receive()) {
                    Ok(Ok(rx)) => {
                        if rx.packet() != &payload[..] {
                            out.push(("linear-run".into(), format!("frame {}: received {} bytes, the device wrote a {}-byte frame (or the contents differ)", i, rx.packet_len(), payload.len())));
                            break;
                        }
                        if !matches!(crate::util::catch(|| dev.recycle_rx_buffer(rx)), Ok(Ok(()))) {
                            out.push(("linear-run".into(), format!("frame {}: recycle_rx_buffer failed", i)));
                            break;
                        }
                    }
                    other => {
                        out.push(("linear-run".into(), format!("frame {}: receive() -> {:?} although the device completed a buffer", i, other.map(|r| r.map(|b| b.packet_len())))));
                        break;
                    }
                }
                if dev.can_recv() {
                    out.push(("linear-run".into(), format!("after frame {}: can_recv() = true with nothing completed", i)));
                    break;
                }
                // A transmission per received frame.
                let mut tx = dev.new_tx_buffer(1 + (i as usize % 5));
                let pl: Vec<u8> = (0..tx.packet_len()).map(|k| frame_byte(i ^ 0x5555, k)).collect();
                tx.packet_mut().copy_from_slice(&pl);
                net.tx.borrow_mut().clear();
                match crate::util::catch(|| dev.send(tx)) {
                    Ok(Ok(())) => {
                        let txs = net.tx.borrow();
                        if txs.len() != 1 || txs[0].len() != hdr + pl.len() || txs[0][hdr..] != pl[..] {
                            out.push(("linear-run".into(), format!("transmission {}: the device received {:?} chains, expected the {}-byte header and {} payload bytes", i, txs.iter().map(|f| f.len()).collect::<Vec<_>>(), hdr, pl.len())));
                            break;
                        }
                    }
                    other => {
                        out.push(("linear-run".into(), format!("transmission {}: send -> {:?}", i, other)));
                        break;
                    }
                }
                n += 1;
                if i % 2048 == 0 {
                    hal::with(|h| h.compact());
                    co.borrow_mut().served.clear();
                }
            }
            drop(dev);
            cosim::uninstall();
            (n, out)
        }
    }
    hal::reset();
    let w = DWorld::new(Kind::NetBuf, tkind, F_VERSION_1 | (1 << 5), Kind::NetBuf.default_config());
    let r = w.with_transport(VL { frames });
    mmio::set_handler(None);
    r
}
