//! vlab: bounded exhaustive exploration of the real virtio-drivers code.
//!
//! See /verif/DESIGN.md. Everything nondeterministic is drawn from the thread-local chooser
//! (`engine::chooser`), so an execution is fully determined by its choice sequence.
#![allow(clippy::all)]
#![allow(dead_code)]

pub mod util;
pub mod alloc_watch;

#[global_allocator]
static GLOBAL: alloc_watch::WatchAlloc = alloc_watch::WatchAlloc;

pub mod engine;
pub mod hal;
pub mod mmio;
pub mod tracer;
pub mod crash;
pub mod dev;
pub mod ring;
pub mod qcore;
pub mod qcheck;
pub mod c04_transports;
pub mod c05;
pub mod c05_drivers;
pub mod c06;
pub mod pci_model;
pub mod regdev;
pub mod c10;
pub mod c12;
pub mod c11;
pub mod drivers;
pub mod cosim;
pub mod c13;
pub mod c08;
pub mod c09;
pub mod c14;
pub mod c15;
pub mod c16;
pub mod vsock_ref;
pub mod c17;
pub mod c18;
pub mod c19;
pub mod c20;
pub mod c20_sound;
pub mod c07;
pub mod c07_vsock;
pub mod replay;

pub use engine::chooser::{choose, deviate};
