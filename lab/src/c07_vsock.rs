//! C07 part G: a peer (device) that ignores the receive credit the driver advertised.
//!
//! One connection with a small per-connection buffer; every sequence (bounded depth) of data
//! packets of 1..capacity+2 bytes - whether or not they fit the free space - and reads of 1..3 bytes.
//! A packet that fits must be accepted whole; whatever the driver does with one that does not fit,
//! the bytes it accepted earlier must come back unchanged and in order, and it never reports more
//! buffered bytes than the buffer holds.

use crate::c17::{GUEST_CID, LPORT, PEER};
use crate::cosim;
use crate::drivers::{DWorld, Kind, TKind, TransportVisitor, F_VERSION_1, VSOCK_RX};
use crate::engine::chooser::{choose, obs, report, tag};
use crate::engine::Violation;
use crate::hal::{self, LabHal};
use crate::mmio;
use crate::tlog;
use crate::vsock_ref::*;
use virtio_drivers::device::socket::{VirtIOSocket, VsockConnectionManager, VsockEventType};
use virtio_drivers::transport::Transport;

fn viol(kind: &str, d: String) {
    report(Violation::new("C07", kind, d));
}

struct V {
    depth: usize,
    cap: u32,
}

impl TransportVisitor for V {
    type Out = ();
    fn visit<T: Transport + 'static>(self, t: T, w: &DWorld) {
        let dev = make_device(w);
        cosim::install(&dev.co);
        let sock = match VirtIOSocket::<LabHal, T, VSOCK_RX>::new(t) {
            Ok(s) => s,
            Err(e) => {
                viol("construction", format!("{:?}", e));
                cosim::uninstall();
                return;
            }
        };
        let cap = self.cap as usize;
        let mut cm = VsockConnectionManager::new_with_capacity(sock, self.cap);
        let _ = cm.connect(PEER, LPORT);
        let hdr = |op: u16, len: u32| Hdr { src_cid: PEER.cid, dst_cid: GUEST_CID, src_port: PEER.port, dst_port: LPORT, len, typ: 1, op, flags: 0, buf_alloc: 64, fwd_cnt: 0 };
        dev.deliver(0, &hdr(OP_RESPONSE, 0), &[]);
        let _ = cm.poll();
        // Bytes the driver accepted and the caller has not read yet.
        let mut model: std::collections::VecDeque<u8> = Default::default();
        let mut next: u8 = 1;
        for step in 0..self.depth {
            let nlen = cap + 2;
            let op = choose(nlen + 3, "peer data packet of k bytes / recv of k bytes");
            if op < nlen {
                let len = op + 1;
                if len > VSOCK_RX - HDR_LEN || dev.posted() == 0 {
                    continue;
                }
                let payload: Vec<u8> = (0..len).map(|i| next.wrapping_add(i as u8)).collect();
                dev.deliver(0, &hdr(OP_RW, len as u32), &payload);
                let r = crate::util::catch(|| cm.poll());
                let fits = model.len() + len <= cap;
                tlog!("step {}: peer sends {} bytes with {} of {} buffered ({}) -> {:?}", step, len, model.len(), cap, if fits { "fits" } else { "beyond the advertised credit" }, r);
                match (&r, fits) {
                    (Ok(Ok(Some(ev))), true) if ev.event_type == VsockEventType::Received { length: len } => {
                        model.extend(&payload);
                        next = next.wrapping_add(len as u8);
                        tag("rw:accepted");
                    }
                    (other, true) => {
                        viol("vsock-overrun:fitting-packet-refused", format!("a {}-byte packet with {} of {} bytes buffered -> {:?}", len, model.len(), cap, other));
                        break;
                    }
                    (Ok(Ok(Some(ev))), false) if matches!(ev.event_type, VsockEventType::Received { .. }) => {
                        // Accepting what cannot fit means something already accepted is gone.
                        viol("vsock-overrun:accepted", format!("a {}-byte packet was accepted with {} of {} bytes buffered (the peer ignored the advertised credit)", len, model.len(), cap));
                        break;
                    }
                    (Err(p), false) => {
                        // A clean panic is allowed by the property; the script ends.
                        tag("rw:overrun-panic");
                        let _ = p;
                        break;
                    }
                    (_, false) => {
                        tag("rw:overrun-refused");
                    }
                }
            } else {
                let k = op - nlen + 1;
                let mut buf = vec![0u8; k];
                let r = crate::util::catch(|| cm.recv(PEER, LPORT, &mut buf));
                let want: Vec<u8> = (0..k.min(model.len())).map(|_| model.pop_front().unwrap()).collect();
                match r {
                    Ok(Ok(n)) if n == want.len() && buf[..n] == want[..] => {
                        tag("recv");
                    }
                    other => {
                        viol("vsock-overrun:recv-data", format!("recv({}) -> {:?} {:?}; the bytes accepted earlier and not yet read start with {:?}", k, other, buf, want));
                        break;
                    }
                }
            }
            match crate::util::catch(|| cm.recv_buffer_available_bytes(PEER, LPORT)) {
                Ok(Ok(n)) if n == model.len() => {}
                Ok(Ok(n)) => {
                    viol("vsock-overrun:buffered-bytes", format!("recv_buffer_available_bytes = {} with {} bytes accepted and unread (capacity {})", n, model.len(), cap));
                    break;
                }
                _ => {}
            }
            if dev.posted() != 8 {
                viol("vsock-overrun:receive-buffer-not-returned", format!("{} receive buffers posted", dev.posted()));
                break;
            }
            obs(model.len() as u64);
        }
        drop(cm);
        cosim::uninstall();
    }
}

pub fn run(tkind: TKind, depth: usize, cap: u32) {
    hal::reset();
    let mut cfg = vec![0u8; 8];
    cfg.copy_from_slice(&GUEST_CID.to_le_bytes());
    let w = DWorld::new(Kind::Socket, tkind, F_VERSION_1, cfg);
    w.with_transport(V { depth, cap });
    mmio::set_handler(None);
}
