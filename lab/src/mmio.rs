//! Register-level interception through safe-mmio's `custom-mmio` backend: every MMIO access made
//! by `MmioTransport`, `PciTransport` and `MmioCam` lands here with only the pointer. Pointers are
//! fake (never dereferenced); accesses are served by the handler registered on this thread.

use std::cell::RefCell;

#[derive(Clone, Copy, Debug, PartialEq, Eq, Hash)]
pub struct Access {
    pub write: bool,
    pub addr: usize,
    pub width: u8,
    pub value: u64,
}

pub trait MmioHandler {
    fn read(&mut self, addr: usize, width: u8) -> u64;
    fn write(&mut self, addr: usize, width: u8, value: u64);
    fn as_any(&mut self) -> &mut dyn std::any::Any;
}

/// Gives temporary access to the installed handler (e.g. to change device behaviour mid-run).
pub fn with_handler<R>(f: impl FnOnce(&mut Box<dyn MmioHandler>) -> R) -> Option<R> {
    let h = HANDLER.with(|c| c.borrow_mut().take());
    match h {
        Some(mut h) => {
            let r = f(&mut h);
            HANDLER.with(|c| *c.borrow_mut() = Some(h));
            Some(r)
        }
        None => None,
    }
}

thread_local! {
    static HANDLER: RefCell<Option<Box<dyn MmioHandler>>> = const { RefCell::new(None) };
    static STRAY: RefCell<Vec<Access>> = const { RefCell::new(Vec::new()) };
}

pub fn set_handler(h: Option<Box<dyn MmioHandler>>) {
    HANDLER.with(|c| *c.borrow_mut() = h);
    STRAY.with(|s| s.borrow_mut().clear());
}

/// Accesses made while no handler was installed (always a harness or driver error).
pub fn take_stray() -> Vec<Access> {
    STRAY.with(|s| std::mem::take(&mut *s.borrow_mut()))
}

fn do_read(addr: usize, width: u8) -> u64 {
    // Take the handler out while it runs so that re-entrancy is detected rather than panicking.
    let h = HANDLER.with(|c| c.borrow_mut().take());
    match h {
        Some(mut h) => {
            let v = h.read(addr, width);
            HANDLER.with(|c| *c.borrow_mut() = Some(h));
            v
        }
        None => {
            STRAY.with(|s| s.borrow_mut().push(Access { write: false, addr, width, value: 0 }));
            0
        }
    }
}

fn do_write(addr: usize, width: u8, value: u64) {
    let h = HANDLER.with(|c| c.borrow_mut().take());
    match h {
        Some(mut h) => {
            h.write(addr, width, value);
            HANDLER.with(|c| *c.borrow_mut() = Some(h));
        }
        None => {
            STRAY.with(|s| s.borrow_mut().push(Access { write: true, addr, width, value }));
        }
    }
}

struct LabMmio;

// SAFETY: no memory is ever accessed through the pointers; they are only used as numbers.
impl safe_mmio::MmioOps for LabMmio {
    unsafe fn read_u8(src: *const u8) -> u8 {
        do_read(src as usize, 1) as u8
    }
    unsafe fn read_u16(src: *const u16) -> u16 {
        do_read(src as usize, 2) as u16
    }
    unsafe fn read_u32(src: *const u32) -> u32 {
        do_read(src as usize, 4) as u32
    }
    unsafe fn read_u64(src: *const u64) -> u64 {
        do_read(src as usize, 8)
    }
    unsafe fn write_u8(dst: *mut u8, value: u8) {
        do_write(dst as usize, 1, value as u64)
    }
    unsafe fn write_u16(dst: *mut u16, value: u16) {
        do_write(dst as usize, 2, value as u64)
    }
    unsafe fn write_u32(dst: *mut u32, value: u32) {
        do_write(dst as usize, 4, value as u64)
    }
    unsafe fn write_u64(dst: *mut u64, value: u64) {
        do_write(dst as usize, 8, value)
    }
}

safe_mmio::set_mmio_ops!(LabMmio);

/// The spin callback declared by the repository's verification hook (H1/H2).
thread_local! {
    static SPIN: RefCell<Option<Box<dyn FnMut(u32)>>> = const { RefCell::new(None) };
}

pub fn set_spin_handler(h: Option<Box<dyn FnMut(u32)>>) {
    SPIN.with(|c| *c.borrow_mut() = h);
}

#[unsafe(no_mangle)]
fn __virtio_drivers_verif_spin(site: u32) {
    let h = SPIN.with(|c| c.borrow_mut().take());
    if let Some(mut h) = h {
        h(site);
        SPIN.with(|c| {
            let mut c = c.borrow_mut();
            if c.is_none() {
                *c = Some(h);
            }
        });
    } else {
        // No device is co-simulated: a wait here can never end.
        panic!("LAB-LIVELOCK: driver busy-waits at site {} with no device model installed", site);
    }
}
