//! Replaying a recorded DFS choice sequence without the explorer.

use crate::engine::dfs::run_one;
use crate::engine::report::ReplayDoc;

pub fn replay_dfs(doc: &ReplayDoc, f: &(dyn Fn() + Sync)) -> i32 {
    crate::util::install_quiet_panic_hook();
    let (out, panic) = run_one(f, &doc.choices, true);
    println!("replay of {} choices {:?}", doc.part, doc.choices.iter().map(|c| c.0).collect::<Vec<_>>());
    for (i, p) in out.points.iter().enumerate() {
        println!("  choice {}: {} -> {} of {}", i, p.label, p.choice, p.arity);
    }
    for l in &out.trace {
        println!("{}", l);
    }
    if let Some(d) = out.divergence {
        println!("DIVERGENCE: {}", d);
        return 2;
    }
    if let Some(p) = panic {
        println!("harness panic: {}", p);
        return 2;
    }
    if out.violations.is_empty() {
        println!("no violation on replay");
        0
    } else {
        for v in &out.violations {
            println!("VIOLATION property={} kind={} detail={}", v.prop, v.kind, v.detail);
        }
        1
    }
}
