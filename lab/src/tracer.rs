//! Store tracer: observes device-visible queue memory between individual machine instructions of
//! the real compiled driver code, without source hooks.
//!
//! The pages handed to the driver are `mprotect`ed; an access faults (SIGSEGV), the handler records
//! it, unprotects and sets the x86 trap flag; the instruction executes; the SIGTRAP handler
//! snapshots the region through an unprotected alias mapping and re-protects. x86-64 Linux only.

use std::cell::Cell;
use std::sync::Once;

#[derive(Clone, Debug)]
pub struct Access {
    /// Offset of the faulting address inside the traced region.
    pub off: usize,
    pub write: bool,
    /// LabHal event counter at the time of the access.
    pub hal_seq: u64,
    /// Contents of the first `snap_len` bytes of the region right after the instruction.
    pub snapshot: Vec<u8>,
}

pub struct Tracer {
    /// Driver-side mapping (protected while armed).
    base: usize,
    len: usize,
    /// Unprotected alias of the same memory.
    alias: usize,
    snap_len: usize,
    armed: bool,
    pending: Option<(usize, bool)>,
    count: usize,
    offs: Vec<(usize, bool, u64)>,
    snaps: Vec<u8>,
    pub overflow: bool,
    pub foreign_faults: u32,
}

const MAX_EVENTS: usize = 512;

thread_local! {
    static TR: Cell<*mut Tracer> = const { Cell::new(std::ptr::null_mut()) };
    /// Mirror of the LabHal event counter readable from the signal handler.
    pub static HAL_SEQ: Cell<u64> = const { Cell::new(0) };
}

static INSTALL: Once = Once::new();

fn tr() -> *mut Tracer {
    TR.try_with(|t| t.get()).unwrap_or(std::ptr::null_mut())
}

extern "C" fn on_segv(_sig: libc::c_int, info: *mut libc::siginfo_t, ctx: *mut libc::c_void) {
    // SAFETY: called by the kernel with valid pointers; only async-signal-safe operations follow.
    unsafe {
        let t = tr();
        let addr = (*info).si_addr() as usize;
        if t.is_null() || !(*t).armed || addr < (*t).base || addr >= (*t).base + (*t).len {
            if crate::crash::enabled() {
                crate::crash::report_and_exit(libc::SIGSEGV);
            }
            // Not ours: restore the default action and let the fault happen again.
            let mut sa: libc::sigaction = std::mem::zeroed();
            sa.sa_sigaction = libc::SIG_DFL;
            libc::sigaction(libc::SIGSEGV, &sa, std::ptr::null_mut());
            if !t.is_null() {
                (*t).foreign_faults += 1;
            }
            return;
        }
        let uc = ctx as *mut libc::ucontext_t;
        let err = (*uc).uc_mcontext.gregs[libc::REG_ERR as usize] as u64;
        let write = err & 2 != 0;
        (*t).pending = Some((addr - (*t).base, write));
        libc::mprotect((*t).base as *mut libc::c_void, (*t).len, libc::PROT_READ | libc::PROT_WRITE);
        (*uc).uc_mcontext.gregs[libc::REG_EFL as usize] |= 0x100;
    }
}

extern "C" fn on_trap(_sig: libc::c_int, _info: *mut libc::siginfo_t, ctx: *mut libc::c_void) {
    // SAFETY: as above.
    unsafe {
        let t = tr();
        let uc = ctx as *mut libc::ucontext_t;
        (*uc).uc_mcontext.gregs[libc::REG_EFL as usize] &= !0x100;
        if t.is_null() {
            return;
        }
        if let Some((off, write)) = (*t).pending.take() {
            if (*t).count < MAX_EVENTS {
                let i = (*t).count;
                let seq = HAL_SEQ.try_with(|s| s.get()).unwrap_or(0);
                *(&mut (*t).offs)[i..].as_mut_ptr() = (off, write, seq);
                let sl = (*t).snap_len;
                std::ptr::copy_nonoverlapping((*t).alias as *const u8, (&mut (*t).snaps).as_mut_ptr().add(i * sl), sl);
                (*t).count += 1;
            } else {
                (*t).overflow = true;
            }
        }
        if (*t).armed {
            libc::mprotect((*t).base as *mut libc::c_void, (*t).len, libc::PROT_NONE);
        }
    }
}

pub fn install_handlers() {
    INSTALL.call_once(|| {
        // SAFETY: plain sigaction calls with valid handler addresses.
        unsafe {
            let mut sa: libc::sigaction = std::mem::zeroed();
            sa.sa_sigaction = on_segv as usize;
            sa.sa_flags = libc::SA_SIGINFO | libc::SA_NODEFER;
            libc::sigemptyset(&mut sa.sa_mask);
            libc::sigaction(libc::SIGSEGV, &sa, std::ptr::null_mut());
            let mut st: libc::sigaction = std::mem::zeroed();
            st.sa_sigaction = on_trap as usize;
            st.sa_flags = libc::SA_SIGINFO | libc::SA_NODEFER;
            libc::sigemptyset(&mut st.sa_mask);
            libc::sigaction(libc::SIGTRAP, &st, std::ptr::null_mut());
        }
    });
}

/// Re-installs the SIGSEGV handler (it is reset to the default by a foreign fault).
fn reinstall_segv() {
    // SAFETY: as in install_handlers.
    unsafe {
        let mut sa: libc::sigaction = std::mem::zeroed();
        sa.sa_sigaction = on_segv as usize;
        sa.sa_flags = libc::SA_SIGINFO | libc::SA_NODEFER;
        libc::sigemptyset(&mut sa.sa_mask);
        libc::sigaction(libc::SIGSEGV, &sa, std::ptr::null_mut());
    }
}

impl Tracer {
    /// `base`/`len`: page-aligned driver-side mapping; `alias`: unprotected alias; `snap_len`:
    /// number of leading bytes of the region to snapshot after each access.
    pub fn new(base: usize, len: usize, alias: usize, snap_len: usize) -> Box<Tracer> {
        install_handlers();
        reinstall_segv();
        Box::new(Tracer { base, len, alias, snap_len, armed: false, pending: None, count: 0, offs: vec![(0, false, 0); MAX_EVENTS], snaps: vec![0u8; MAX_EVENTS * snap_len], overflow: false, foreign_faults: 0 })
    }

    /// Runs `f` with the region protected; returns its result and the accesses it made.
    pub fn trace<R>(self: &mut Box<Self>, f: impl FnOnce() -> R) -> (R, Vec<Access>) {
        self.count = 0;
        self.pending = None;
        self.overflow = false;
        let p: *mut Tracer = &mut **self;
        TR.with(|t| t.set(p));
        self.armed = true;
        // SAFETY: base/len describe a mapping owned by the lab.
        unsafe { libc::mprotect(self.base as *mut libc::c_void, self.len, libc::PROT_NONE) };
        let r = std::panic::catch_unwind(std::panic::AssertUnwindSafe(f));
        self.armed = false;
        // SAFETY: as above.
        unsafe { libc::mprotect(self.base as *mut libc::c_void, self.len, libc::PROT_READ | libc::PROT_WRITE) };
        TR.with(|t| t.set(std::ptr::null_mut()));
        let sl = self.snap_len;
        let acc = (0..self.count).map(|i| Access { off: self.offs[i].0, write: self.offs[i].1, hal_seq: self.offs[i].2, snapshot: self.snaps[i * sl..(i + 1) * sl].to_vec() }).collect();
        match r {
            Ok(r) => (r, acc),
            Err(e) => std::panic::resume_unwind(e),
        }
    }
}

/// Allocates `pages` of zeroed shared memory mapped twice: returns (driver view, alias view).
pub fn alloc_double_mapped(pages: usize) -> (usize, usize) {
    let len = pages.max(1) * 4096;
    // SAFETY: straightforward libc calls; results are checked.
    unsafe {
        let fd = libc::memfd_create(c"vlab-dma".as_ptr(), 0);
        assert!(fd >= 0, "memfd_create failed");
        assert_eq!(libc::ftruncate(fd, len as libc::off_t), 0);
        let a = libc::mmap(std::ptr::null_mut(), len, libc::PROT_READ | libc::PROT_WRITE, libc::MAP_SHARED, fd, 0);
        let b = libc::mmap(std::ptr::null_mut(), len, libc::PROT_READ | libc::PROT_WRITE, libc::MAP_SHARED, fd, 0);
        assert!(a != libc::MAP_FAILED && b != libc::MAP_FAILED, "mmap failed");
        libc::close(fd);
        (a as usize, b as usize)
    }
}

pub fn free_double_mapped(a: usize, b: usize, pages: usize) {
    let len = pages.max(1) * 4096;
    // SAFETY: both mappings were created by alloc_double_mapped with this length.
    unsafe {
        libc::munmap(a as *mut libc::c_void, len);
        libc::munmap(b as *mut libc::c_void, len);
    }
}
