//! Reference vsock peer pieces shared by C17, C18 and C19: header encoding/decoding and the
//! device-side plumbing (transmit log, delivery into posted receive buffers).

use crate::cosim::{Action, CoDevice, CoRc};
use crate::drivers::DWorld;
use std::cell::RefCell;
use std::rc::Rc;

pub const OP_INVALID: u16 = 0;
pub const OP_REQUEST: u16 = 1;
pub const OP_RESPONSE: u16 = 2;
pub const OP_RST: u16 = 3;
pub const OP_SHUTDOWN: u16 = 4;
pub const OP_RW: u16 = 5;
pub const OP_CREDIT_UPDATE: u16 = 6;
pub const OP_CREDIT_REQUEST: u16 = 7;

pub const HDR_LEN: usize = 44;

#[derive(Clone, Copy, Debug, Default, PartialEq, Eq, Hash)]
pub struct Hdr {
    pub src_cid: u64,
    pub dst_cid: u64,
    pub src_port: u32,
    pub dst_port: u32,
    pub len: u32,
    pub typ: u16,
    pub op: u16,
    pub flags: u32,
    pub buf_alloc: u32,
    pub fwd_cnt: u32,
}

impl Hdr {
    pub fn encode(&self) -> Vec<u8> {
        let mut v = Vec::with_capacity(HDR_LEN);
        v.extend(self.src_cid.to_le_bytes());
        v.extend(self.dst_cid.to_le_bytes());
        v.extend(self.src_port.to_le_bytes());
        v.extend(self.dst_port.to_le_bytes());
        v.extend(self.len.to_le_bytes());
        v.extend(self.typ.to_le_bytes());
        v.extend(self.op.to_le_bytes());
        v.extend(self.flags.to_le_bytes());
        v.extend(self.buf_alloc.to_le_bytes());
        v.extend(self.fwd_cnt.to_le_bytes());
        v
    }
    pub fn decode(b: &[u8]) -> Option<Hdr> {
        if b.len() < HDR_LEN {
            return None;
        }
        Some(Hdr {
            src_cid: u64::from_le_bytes(b[0..8].try_into().unwrap()),
            dst_cid: u64::from_le_bytes(b[8..16].try_into().unwrap()),
            src_port: u32::from_le_bytes(b[16..20].try_into().unwrap()),
            dst_port: u32::from_le_bytes(b[20..24].try_into().unwrap()),
            len: u32::from_le_bytes(b[24..28].try_into().unwrap()),
            typ: u16::from_le_bytes(b[28..30].try_into().unwrap()),
            op: u16::from_le_bytes(b[30..32].try_into().unwrap()),
            flags: u32::from_le_bytes(b[32..36].try_into().unwrap()),
            buf_alloc: u32::from_le_bytes(b[36..40].try_into().unwrap()),
            fwd_cnt: u32::from_le_bytes(b[40..44].try_into().unwrap()),
        })
    }
}

/// Packets the driver placed on the transmit queue: (header, payload).
pub type TxLog = Rc<RefCell<Vec<(Hdr, Vec<u8>)>>>;

pub struct VsockDev {
    pub co: CoRc,
    pub tx: TxLog,
    pub malformed: Rc<RefCell<Vec<String>>>,
}

pub fn make_device(w: &DWorld) -> VsockDev {
    let tx: TxLog = Rc::new(RefCell::new(vec![]));
    let malformed = Rc::new(RefCell::new(vec![]));
    let co = {
        let tx = tx.clone();
        let malformed = malformed.clone();
        CoDevice::new(
            w.dev.clone(),
            Box::new(move |q, chain, readable| match q {
                1 => {
                    if chain.writable_len() != 0 {
                        malformed.borrow_mut().push(format!("transmit chain has {} device-writable bytes", chain.writable_len()));
                    }
                    match Hdr::decode(readable) {
                        None => malformed.borrow_mut().push(format!("transmit chain of {} bytes is shorter than a header", readable.len())),
                        Some(h) => {
                            let payload = readable[HDR_LEN..].to_vec();
                            if h.len as usize != payload.len() {
                                malformed.borrow_mut().push(format!("header len {} but {} payload bytes follow", h.len, payload.len()));
                            }
                            tx.borrow_mut().push((h, payload));
                        }
                    }
                    Action::Complete(vec![], 0)
                }
                _ => Action::Hold,
            }),
        )
    };
    co.borrow_mut().spin_horizon = 6;
    VsockDev { co, tx, malformed }
}

impl VsockDev {
    /// Number of receive buffers currently posted to the device.
    pub fn posted(&self) -> usize {
        self.co.borrow_mut().held_count(0)
    }
    /// Writes a packet into the j-th posted receive buffer and completes it.
    pub fn deliver(&self, j: usize, h: &Hdr, payload: &[u8]) -> Option<u16> {
        let mut c = self.co.borrow_mut();
        if c.held_count(0) <= j {
            return None;
        }
        let head = c.held.get(&0).unwrap()[j].head;
        let cap = c.held.get(&0).unwrap()[j].writable_len();
        let mut data = h.encode();
        data.extend_from_slice(payload);
        // A device may report more bytes used than header + body (padding, rounding): with
        // `PAD_USED` set, up to 6 further bytes (that belong to no packet) follow and are counted.
        let pad = PAD_USED.with(|p| p.get()).min(cap.saturating_sub(data.len()));
        data.extend(std::iter::repeat(0xEE).take(pad));
        let n = data.len() as u32;
        c.complete_held(0, j, &data, n);
        Some(head)
    }
    /// Like `deliver`, with an explicit used length.
    pub fn deliver_raw(&self, j: usize, data: &[u8], used_len: u32) -> Option<u16> {
        let mut c = self.co.borrow_mut();
        if c.held_count(0) <= j {
            return None;
        }
        let head = c.held.get(&0).unwrap()[j].head;
        c.complete_held(0, j, data, used_len);
        Some(head)
    }
}

thread_local! {
    /// Number of stray bytes that `VsockDev::deliver` appends behind each packet and includes in the
    /// used length (0 = exact lengths).
    pub static PAD_USED: std::cell::Cell<usize> = const { std::cell::Cell::new(0) };
}
