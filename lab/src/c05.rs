//! C05: notification predicate sweep, interrupt-suppression histories, blocking-helper co-simulation.

use crate::dev::{DevRc, ModelTransport, VirtioDev};
use crate::engine::chooser::{choose, report, tag};
use crate::engine::Violation;
use crate::hal::{self, LabHal};
use crate::ring::{vring_need_event, RefQueue};
use crate::tlog;
use std::cell::RefCell;
use std::rc::Rc;
use virtio_drivers::queue::VirtQueue;
use virtio_drivers::transport::DeviceType;

pub struct SweepResult {
    pub evaluations: u64,
    pub must_notify_cases: u64,
    pub notified: u64,
    pub first_failures: Vec<(u16, u16, usize)>, // (avail_idx, avail_event, batch)
    pub failures: u64,
}

/// For every avail_idx in `news` and every event produced by `events(new)`, compares
/// should_notify() with the specification's predicate for every batch size up to N.
pub fn sweep_event_idx<const N: usize>(lo: u32, hi: u32, full: bool) -> SweepResult {
    hal::reset();
    let dev: DevRc = Rc::new(RefCell::new(VirtioDev::new(DeviceType::Block, 0, 1, N as u32, vec![])));
    let mut t = ModelTransport::new(dev.clone());
    let mut q = VirtQueue::<LabHal, N>::new(&mut t, 0, false, true, false).expect("queue");
    let a = dev.borrow().queue_addrs(0).unwrap();
    // Direct pointer to avail_event inside the used ring (device area), resolved through the ledger once.
    let ev_paddr = a.device + 4 + 8 * N as u64;
    let ev_ptr: *mut u16 = hal::with(|h| {
        let e = h.dma_containing(ev_paddr, 2).expect("device area is live DMA memory");
        (e.vaddr + (ev_paddr - e.paddr) as usize) as *mut u16
    });
    // used.flags: with event index negotiated the driver must ignore it, so it is set to 1
    // (VIRTQ_USED_F_NO_NOTIFY) for half of the inputs.
    let fl_ptr: *mut u16 = hal::with(|h| {
        let e = h.dma_containing(a.device, 2).expect("device area is live DMA memory");
        (e.vaddr + (a.device - e.paddr) as usize) as *mut u16
    });
    let mut r = SweepResult { evaluations: 0, must_notify_cases: 0, notified: 0, first_failures: vec![], failures: 0 };
    if lo > 0 {
        q.verif_warp(lo as u16);
    }
    let boundary: [u16; 8] = [0, 1, 2, 0x7FFF, 0x8000, 0xFFFD, 0xFFFE, 0xFFFF];
    for new in lo..hi {
        let new = new as u16;
        assert_eq!(q.verif_snapshot().avail_idx, new);
        let mut eval = |event: u16, r: &mut SweepResult| {
            // SAFETY: pointers into live DMA memory of this thread's queue.
            unsafe {
                std::ptr::write_volatile(ev_ptr, event);
                std::ptr::write_volatile(fl_ptr, sweep_flag(new, event));
            }
            let got = q.should_notify();
            r.evaluations += 1;
            if got {
                r.notified += 1;
            }
            // need_event is monotone in the batch size: the largest batch decides "must".
            let must = vring_need_event(event, new, new.wrapping_sub(N as u16));
            if must {
                r.must_notify_cases += 1;
                if !got {
                    r.failures += 1;
                    if r.first_failures.len() < 4 {
                        let b = (1..=N).find(|b| vring_need_event(event, new, new.wrapping_sub(*b as u16))).unwrap_or(N);
                        r.first_failures.push((new, event, b));
                    }
                }
            }
        };
        if full {
            for event in 0..=0xFFFFu16 {
                eval(event, &mut r);
            }
        } else {
            let w = N as i32 + 2;
            for d in -w..=w {
                eval(new.wrapping_add(d as u16), &mut r);
            }
            for b in boundary {
                eval(b, &mut r);
            }
        }
        q.verif_warp(1);
    }
    drop(q);
    r
}

/// The value of used.flags during the event-index sweep for this input (to be ignored by the driver).
pub fn sweep_flag(new: u16, event: u16) -> u16 {
    new.wrapping_add(event) & 1
}

/// Without event-idx: result must be exactly "suppression flag clear", for every index.
pub fn sweep_flags<const N: usize>() -> (u64, u64, Vec<String>) {
    hal::reset();
    let dev: DevRc = Rc::new(RefCell::new(VirtioDev::new(DeviceType::Block, 0, 1, N as u32, vec![])));
    let mut t = ModelTransport::new(dev.clone());
    let mut q = VirtQueue::<LabHal, N>::new(&mut t, 0, false, false, false).expect("queue");
    let a = dev.borrow().queue_addrs(0).unwrap();
    let fl_ptr: *mut u16 = hal::with(|h| {
        let e = h.dma_containing(a.device, 2).expect("device area is live DMA memory");
        (e.vaddr + (a.device - e.paddr) as usize) as *mut u16
    });
    let ev_paddr = a.device + 4 + 8 * N as u64;
    let ev_ptr: *mut u16 = hal::with(|h| {
        let e = h.dma_containing(ev_paddr, 2).unwrap();
        (e.vaddr + (ev_paddr - e.paddr) as usize) as *mut u16
    });
    let mut evals = 0;
    let mut distinct = std::collections::HashSet::new();
    let mut fails = vec![];
    for new in 0..=0xFFFFu32 {
        for flag in [0u16, 1] {
            for garbage_event in [0u16, new as u16, 0xFFFF] {
                // SAFETY: pointers into live DMA memory of this thread's queue.
                unsafe {
                    std::ptr::write_volatile(fl_ptr, flag);
                    std::ptr::write_volatile(ev_ptr, garbage_event);
                }
                let got = q.should_notify();
                evals += 1;
                distinct.insert((flag, got));
                if got != (flag == 0) && fails.len() < 4 {
                    fails.push(format!("avail_idx={} used.flags={} avail_event(unused)={} -> should_notify()={}", new, flag, garbage_event, got));
                }
            }
        }
        q.verif_warp(1);
    }
    drop(q);
    (evals, distinct.len() as u64, fails)
}

// ---------------------------------------------------------------------------------------------
// (c) Blocking helper co-simulation on the raw queue.

#[derive(Clone, Copy, Debug, PartialEq, Eq)]
pub enum Policy {
    /// No suppression; the device serves only when notified.
    NotifyOnly,
    /// Suppression active (flag set / event index already passed); the device polls and serves
    /// at the k-th spin.
    PollAfter(u32),
    /// No suppression; the device serves when notified and also happens to poll late.
    NotifyAndPoll(u32),
}

pub struct CoSim {
    pub refq: RefQueue,
    pub event_idx: bool,
    pub policy: Policy,
    pub notified: u32,
    pub spins: u32,
    pub served: u32,
    pub spins_after_service: u32,
    pub data: u8,
}

impl CoSim {
    /// Publishes the suppression state a spec-following device with this policy would.
    pub fn publish_suppression(&mut self) {
        let suppress = matches!(self.policy, Policy::PollAfter(_));
        if self.event_idx {
            // "Notify me when you pass this index": the next one, or one already passed.
            let ev = if suppress { self.refq.last_avail.wrapping_sub(1) } else { self.refq.last_avail };
            let _ = self.refq.set_avail_event(ev);
            // The flags word means nothing once event index is negotiated; this device leaves
            // NO_NOTIFY set in it.
            let _ = self.refq.set_used_flags(1);
        } else {
            let _ = self.refq.set_used_flags(if suppress { 1 } else { 0 });
        }
    }
    /// Serves every pending chain: fills writable parts, completes in order.
    pub fn serve_all(&mut self) {
        loop {
            match self.refq.fetch() {
                Ok(Some(c)) => {
                    let w = c.writable_len();
                    let buf = vec![self.data; w];
                    if let Err(e) = c.write_all(&buf) {
                        report(Violation::new("C04", "writable-unreachable", e));
                    }
                    if let Err(e) = self.refq.push_used(c.head as u32, w as u32) {
                        report(Violation::new("C06", "used-ring-unwritable", e));
                    }
                    self.served += 1;
                }
                Ok(None) => break,
                Err(e) => {
                    report(Violation::new("C01", "chain-malformed", e));
                    break;
                }
            }
        }
        self.publish_suppression();
    }
}

pub const SPIN_HORIZON: u32 = 6;

/// One execution: k sequential add_notify_wait_pop calls against a device with a chosen policy.
pub fn run_wait_pop<const N: usize>() {
    hal::reset();
    let event_idx = choose(2, "event_idx") == 1;
    let indirect = choose(2, "indirect") == 1;
    let off = [0u16, 0xFFFE, 0xFFFF][choose(3, "start offset")];
    let calls = 3;
    let dev: DevRc = Rc::new(RefCell::new(VirtioDev::new(DeviceType::Block, 0, 1, N as u32, vec![])));
    let mut t = ModelTransport::new(dev.clone());
    let mut q = VirtQueue::<LabHal, N>::new(&mut t, 0, indirect, event_idx, false).expect("queue");
    let a = dev.borrow().queue_addrs(0).unwrap();
    let mut refq = RefQueue::new(a, indirect);
    if off != 0 {
        q.verif_warp(off);
        refq.last_avail = off;
        refq.used_idx = off;
        hal::with(|h| h.dev_write(a.device + 2, &off.to_le_bytes())).unwrap();
    }
    let sim = Rc::new(RefCell::new(CoSim { refq, event_idx, policy: Policy::NotifyOnly, notified: 0, spins: 0, served: 0, spins_after_service: 0, data: 0 }));
    let livelock = Rc::new(RefCell::new(None::<String>));
    {
        let s = sim.clone();
        crate::dev::set_notify_handler(Some(Box::new(move |_q| {
            let mut s = s.borrow_mut();
            s.notified += 1;
            match s.policy {
                Policy::NotifyOnly | Policy::NotifyAndPoll(_) => s.serve_all(),
                Policy::PollAfter(_) => {} // a polling device ignores the (unneeded) kick
            }
        })));
        let s = sim.clone();
        let ll = livelock.clone();
        crate::mmio::set_spin_handler(Some(Box::new(move |site| {
            let mut s = s.borrow_mut();
            s.spins += 1;
            let pending = s.refq.pending().unwrap_or(0);
            if pending == 0 {
                // Everything is served, yet the helper is still spinning.
                s.spins_after_service += 1;
            }
            match s.policy {
                Policy::PollAfter(k) | Policy::NotifyAndPoll(k) => {
                    if s.spins >= k {
                        s.serve_all();
                    }
                }
                Policy::NotifyOnly => {}
            }
            if s.spins > SPIN_HORIZON {
                let msg = format!("site {}: helper still waiting after {} spins (policy {:?}, notifications delivered {}, pending {})", site, s.spins, s.policy, s.notified, pending);
                if ll.borrow().is_none() {
                    *ll.borrow_mut() = Some(msg);
                }
                // Rescue the run so that it terminates.
                s.serve_all();
                if s.spins > 4 * SPIN_HORIZON {
                    // The helper does not even see a request that has been served: end the call.
                    panic!("LAB-LIVELOCK: add_notify_wait_pop keeps waiting although the device has served the request");
                }
            }
        })));
    }
    for call in 0..calls {
        let policy = match choose(5, "device policy") {
            0 => Policy::NotifyOnly,
            1 => Policy::PollAfter(1),
            2 => Policy::PollAfter(2),
            3 => Policy::NotifyAndPoll(2),
            _ => Policy::NotifyAndPoll(1),
        };
        {
            let mut s = sim.borrow_mut();
            s.policy = policy;
            s.spins = 0;
            s.notified = 0;
            s.spins_after_service = 0;
            s.data = 0x30 + call as u8;
            s.publish_suppression();
        }
        let input = [1u8, 2, 3];
        let mut output = [0u8; 4];
        let r = crate::util::catch(|| q.add_notify_wait_pop(&[&input], &mut [&mut output], &mut t));
        let s = sim.borrow();
        tlog!("call {} policy {:?}: result {:?}, spins {}, notified {}", call, policy, r, s.spins, s.notified);
        crate::engine::chooser::obs(s.spins as u64 | (s.notified as u64) << 8);
        if let Some(m) = livelock.borrow_mut().take() {
            let kind = if s.notified == 0 && policy == Policy::NotifyOnly { "lost-wakeup" } else { "helper-does-not-return" };
            report(Violation::new("C05", kind, format!("add_notify_wait_pop: {}", m)));
            break;
        }
        match r {
            Ok(Ok(len)) => {
                tag("wait_pop:ok");
                if len != 4 || output != [s.data; 4] {
                    report(Violation::new("C04", "writeback-data", format!("add_notify_wait_pop returned len {} data {:?}", len, output)));
                }
            }
            Ok(Err(e)) => report(Violation::new("C05", "helper-error", format!("add_notify_wait_pop failed: {:?}", e))),
            Err(p) => report(Violation::new("C05", "helper-panic", format!("add_notify_wait_pop panicked: {}", p))),
        }
        if policy == Policy::NotifyOnly && s.notified == 0 {
            report(Violation::new("C05", "lost-wakeup", "device that did not suppress notifications was never notified"));
        }
        if !event_idx && matches!(policy, Policy::PollAfter(_)) && s.notified != 0 {
            // Only the flag form is constrained by the property ("reports that none is needed when
            // the device set its suppression flag"); with event-idx an extra notification is
            // harmless and not a violation.
            report(Violation::new("C05", "notified-despite-suppression", format!("device suppressed notifications but received {}", s.notified)));
        }
        if s.spins_after_service > 0 {
            report(Violation::new("C05", "late-return", format!("helper spun {} more times after the device had served the request", s.spins_after_service)));
        }
        match policy {
            Policy::NotifyOnly => tag("policy:notify-only"),
            Policy::PollAfter(_) => tag("policy:poll"),
            Policy::NotifyAndPoll(_) => tag("policy:notify+poll"),
        }
    }
    crate::dev::set_notify_handler(None);
    crate::mmio::set_spin_handler(None);
    drop(q);
    drop(t);
}

/// Evaluates one (avail_idx, avail_event) input: (driver's answer, specification's requirement
/// for the largest batch).
pub fn sweep_point<const N: usize>(new: u16, event: u16) -> (bool, bool) {
    hal::reset();
    let dev: DevRc = Rc::new(RefCell::new(VirtioDev::new(DeviceType::Block, 0, 1, N as u32, vec![])));
    let mut t = ModelTransport::new(dev.clone());
    let mut q = VirtQueue::<LabHal, N>::new(&mut t, 0, false, true, false).expect("queue");
    let a = dev.borrow().queue_addrs(0).unwrap();
    q.verif_warp(new);
    hal::with(|h| h.dev_write(a.device + 4 + 8 * N as u64, &event.to_le_bytes())).unwrap();
    hal::with(|h| h.dev_write(a.device, &sweep_flag(new, event).to_le_bytes())).unwrap();
    let got = q.should_notify();
    (got, vring_need_event(event, new, new.wrapping_sub(N as u16)))
}

// ---------------------------------------------------------------------------------------------
// (c') Stocked receive queue: a notify-only device must learn about every re-posted buffer, and
// the blocking wait_for_event helper must return as soon as the event is there.

pub fn run_rx_restock() {
    use crate::cosim::{Action, CoDevice};
    use crate::drivers::{DWorld, Kind, TKind, TransportVisitor, F_EVENT_IDX, F_VERSION_1, VSOCK_RX};
    use crate::vsock_ref::{Hdr, OP_RESPONSE, OP_RW};
    use virtio_drivers::device::socket::{VirtIOSocket, VsockAddr, VsockConnectionManager, VsockEventType};
    struct V;
    impl TransportVisitor for V {
        type Out = ();
        fn visit<T: virtio_drivers::transport::Transport + 'static>(self, t: T, w: &DWorld) {
            let event_idx = w.dev.borrow().offered & F_EVENT_IDX != 0;
            // The device fetches available buffers only when it is notified.
            let co = CoDevice::new(w.dev.clone(), Box::new(|q, _c, _r| if q == 1 { Action::Complete(vec![], 0) } else { Action::Hold }));
            co.borrow_mut().poll_on_spin = false;
            crate::cosim::install(&co);
            let spins = Rc::new(RefCell::new((0u32, 0u32, None::<Vec<u8>>))); // (spins, deliver at, packet)
            {
                let co2 = co.clone();
                let sp = spins.clone();
                crate::mmio::set_spin_handler(Some(Box::new(move |_site| {
                    let mut s = sp.borrow_mut();
                    s.0 += 1;
                    if s.0 > 8 {
                        panic!("LAB-LIVELOCK: wait_for_event does not return");
                    }
                    if s.0 == s.1 {
                        if let Some(p) = s.2.take() {
                            let mut c = co2.borrow_mut();
                            let n = c.held.get(&0).map(|h| h.len()).unwrap_or(0);
                            if n == 0 {
                                panic!("LAB-LOST-WAKEUP");
                            }
                            let chain = c.held.get_mut(&0).unwrap().remove(0);
                            let len = p.len() as u32;
                            c.complete(0, &chain, &p, len);
                        }
                    }
                })));
            }
            let sock = VirtIOSocket::<LabHal, T, VSOCK_RX>::new(t).expect("socket");
            let mut cm = VsockConnectionManager::new_with_capacity(sock, 64);
            let peer = VsockAddr { cid: 2, port: 80 };
            cm.connect(peer, 1234).expect("connect");
            let hdr = |op: u16, len: u32| Hdr { src_cid: 2, dst_cid: 0x0000_0001_0000_0003, src_port: 80, dst_port: 1234, len, typ: 1, op, flags: 0, buf_alloc: 1 << 20, fwd_cnt: 0 };
            // 20 packets, more than twice the queue size: every buffer is re-posted at least once.
            for i in 0..20u32 {
                let known = co.borrow().held.get(&0).map(|h| h.len()).unwrap_or(0);
                if known == 0 {
                    // The device knows no buffer. Has the driver posted some without telling it?
                    let c = co.borrow();
                    let rq = c.queues.get(&0).unwrap();
                    let pending = rq.pending().unwrap_or(0);
                    report(Violation::new("C05", "lost-wakeup", format!("packet {}: the device (notify-only, suppression off) knows no receive buffer although the driver has made {} available since the last notification", i, pending)));
                    break;
                }
                let mut p = if i == 0 { hdr(OP_RESPONSE, 0).encode() } else { hdr(OP_RW, 1).encode() };
                if i > 0 {
                    p.push(i as u8);
                }
                let at = if i < 8 { 1 + choose(2, "spin at which the packet arrives") as u32 } else { 1 + (i % 2) };
                *spins.borrow_mut() = (0, at, Some(p));
                let r = crate::util::catch(|| cm.wait_for_event());
                let s = spins.borrow().0;
                tag("wait_for_event");
                match r {
                    Ok(Ok(ev)) => {
                        let ok = if i == 0 { ev.event_type == VsockEventType::Connected } else { ev.event_type == VsockEventType::Received { length: 1 } };
                        if !ok {
                            report(Violation::new("C18", "event-mismatch", format!("wait_for_event returned {:?} for packet {}", ev, i)));
                        }
                        if s != at {
                            report(Violation::new("C05", "late-return", format!("the event arrived at spin {} but wait_for_event returned after {} spins", at, s)));
                        }
                    }
                    Ok(Err(e)) => report(Violation::new("C05", "helper-error", format!("wait_for_event -> {:?}", e))),
                    Err(p) => {
                        let k = if p.contains("LOST-WAKEUP") { "lost-wakeup" } else { "helper-does-not-return" };
                        report(Violation::new("C05", k, format!("wait_for_event for packet {}: {} (device is notify-only; event_idx {})", i, p, event_idx)));
                        break;
                    }
                }
                if i > 0 {
                    let mut b = [0u8; 4];
                    let _ = cm.recv(peer, 1234, &mut b);
                }
                // A spec-following device asks to be told about the next buffer.
                {
                    let mut c = co.borrow_mut();
                    let rq = c.queues.get_mut(&0).unwrap();
                    if event_idx {
                        let la = rq.last_avail;
                        let _ = rq.set_avail_event(la);
                    } else {
                        let _ = rq.set_used_flags(0);
                    }
                }
                crate::engine::chooser::obs(s as u64);
            }
            drop(cm);
            crate::cosim::uninstall();
        }
    }
    hal::reset();
    let feats = [F_VERSION_1, F_VERSION_1 | F_EVENT_IDX, F_VERSION_1 | F_EVENT_IDX | crate::drivers::F_INDIRECT];
    let offered = feats[choose(feats.len(), "offered features")];
    let mut cfg = vec![0u8; 8];
    cfg.copy_from_slice(&0x0000_0001_0000_0003u64.to_le_bytes());
    let w = DWorld::new(Kind::Socket, TKind::Model, offered, cfg);
    w.with_transport(V);
    crate::mmio::set_handler(None);
}
