//! C04 over the real transports: "the device is only ever given addresses obtained from share or
//! from DMA allocation" has to survive the encoding of those addresses into transport registers.
//! A `VirtQueue` is created on each transport (model, MMIO legacy, MMIO modern, PCI); the reference
//! device learns the queue areas only from what the transport's registers received, and reaches
//! buffers only through the addresses it finds in the descriptors. The platform layer hands out DMA
//! regions in different 4 GiB windows, so every half of every address matters.

use crate::cosim::{self, Action, CoDevice};
use crate::drivers::{DWorld, Kind, TKind, TransportVisitor, F_EVENT_IDX, F_INDIRECT, F_VERSION_1};
use crate::engine::chooser::{choose, obs, report, tag};
use crate::engine::Violation;
use crate::hal::{self, LabHal};
use crate::mmio;
use virtio_drivers::queue::VirtQueue;
use virtio_drivers::transport::Transport;

fn viol(kind: &str, d: String) {
    report(Violation::new("C04", kind, d));
}

struct V {
    indirect: bool,
    event_idx: bool,
    rounds: usize,
}

const N: usize = 8;

impl TransportVisitor for V {
    type Out = ();
    fn visit<T: Transport + 'static>(self, mut t: T, w: &DWorld) {
        // The device echoes: writable part = a pattern derived from the readable part.
        let co = CoDevice::new(
            w.dev.clone(),
            Box::new(|_q, chain, req| {
                let wl = chain.writable_len();
                let data: Vec<u8> = (0..wl).map(|i| req.get(i % req.len().max(1)).copied().unwrap_or(0x33) ^ 0xA5).collect();
                Action::Complete(data, wl as u32)
            }),
        );
        cosim::install(&co);
        let _ = t.begin_init(crate::c10::LabFeatures::all());
        let mut q = match VirtQueue::<LabHal, N>::new(&mut t, 0, self.indirect, self.event_idx, false) {
            Ok(q) => q,
            Err(e) => {
                viol("queue-creation", format!("VirtQueue::new on {}: {:?}", w.tkind.name(), e));
                cosim::uninstall();
                return;
            }
        };
        t.finish_init();
        // What the device was told must be live DMA memory, for each area separately.
        if let Some(a) = w.dev.borrow().queue_addrs(0) {
            hal::with(|h| {
                for (name, addr, len) in [("descriptor", a.desc, 16 * N), ("driver", a.driver, 6 + 2 * N), ("device", a.device, 6 + 8 * N)] {
                    if h.dma_containing(addr, len).is_none() {
                        viol("queue-area-not-from-platform", format!("{}: the {} area registered with the device, {:#x}+{}, is not inside any live DMA allocation (allocations: {:x?})", w.tkind.name(), name, addr, len, h.live_dma().map(|e| (e.paddr, e.pages)).collect::<Vec<_>>()));
                    }
                }
            });
        } else {
            viol("queue-area-not-from-platform", format!("{}: the device has no usable registration for queue 0", w.tkind.name()));
        }
        for r in 0..self.rounds {
            let ins: Vec<Vec<u8>> = (0..1 + r % 2).map(|i| (0..3 + i + r).map(|k| (k * 7 + r * 13 + i) as u8).collect()).collect();
            let mut outs: Vec<Vec<u8>> = (0..1 + (r / 2) % 2).map(|i| vec![0x5a; 2 + i + r]).collect();
            let res = crate::util::catch(std::panic::AssertUnwindSafe(|| {
                let in_refs: Vec<&[u8]> = ins.iter().map(|b| &b[..]).collect();
                let mut out_refs: Vec<&mut [u8]> = outs.iter_mut().map(|b| &mut b[..]).collect();
                q.add_notify_wait_pop(&in_refs, &mut out_refs, &mut t)
            }));
            tag("transport-round");
            match res {
                Ok(Ok(len)) => {
                    let want: usize = outs.iter().map(|o| o.len()).sum();
                    if len as usize != want {
                        viol("transport-roundtrip", format!("{}: round {} returned length {}, the device wrote {}", w.tkind.name(), r, len, want));
                    }
                    let req: Vec<u8> = ins.concat();
                    let got: Vec<u8> = outs.concat();
                    let exp: Vec<u8> = (0..want).map(|i| req[i % req.len()] ^ 0xA5).collect();
                    if got != exp {
                        viol("writeback-data", format!("{}: round {}: the caller's writable buffers hold {:x?}, the device wrote {:x?}", w.tkind.name(), r, got, exp));
                    }
                }
                other => viol("transport-roundtrip", format!("{}: round {}: add_notify_wait_pop -> {:?}", w.tkind.name(), r, other)),
            }
            // Anything the reference device could not resolve through the platform's ledger.
            for e in co.borrow_mut().errors.drain(..) {
                viol("device-address-not-from-platform", format!("{}: round {}: {}", w.tkind.name(), r, e));
            }
            if let Some(l) = co.borrow_mut().livelock.take() {
                viol("transport-roundtrip", format!("{}: round {}: {}", w.tkind.name(), r, l));
            }
            obs(r as u64);
            if crate::engine::chooser::has_violation() {
                break;
            }
        }
        if hal::with(|h| h.live_share_count()) != 0 {
            viol("share-leak", format!("{}: shares left after all requests completed", w.tkind.name()));
        }
        drop(q);
        drop(t);
        cosim::uninstall();
    }
}

pub fn run(tkind: TKind, rounds: usize) {
    hal::reset();
    let bits = choose(4, "queue features (indirect, event index)");
    let (indirect, event_idx) = (bits & 1 != 0, bits & 2 != 0);
    let offered = F_VERSION_1 | if indirect { F_INDIRECT } else { 0 } | if event_idx { F_EVENT_IDX } else { 0 };
    // The platform's window of device addresses for shared buffers may start at 0.
    if choose(2, "device addresses of shared buffers start at 0x9_0000_0000 or at 0") == 1 {
        hal::with(|h| h.set_share_base(0));
    }
    // A few allocations first so that the queue's regions start in an explored window.
    let pre = choose(3, "DMA allocations made before the queue's");
    let mut keep = vec![];
    for _ in 0..pre {
        keep.push(<LabHal as virtio_drivers::Hal>::dma_alloc(1, virtio_drivers::BufferDirection::Both, false));
    }
    let w = DWorld::new(Kind::Rng, tkind, offered, vec![]);
    w.with_transport(V { indirect, event_idx, rounds });
    for (p, v) in keep {
        // SAFETY: allocated above with the same arguments.
        unsafe { <LabHal as virtio_drivers::Hal>::dma_dealloc(p, v, 1, false) };
    }
    mmio::set_handler(None);
}
