//! Small utilities: hashing, JSON writing, panic capture.

use std::cell::RefCell;
use std::fmt::Write as _;

/// 64-bit FNV-1a style incremental hasher with a strong finaliser; two lanes give 128 bits.
#[derive(Clone, Copy)]
pub struct H128 {
    a: u64,
    b: u64,
}

impl Default for H128 {
    fn default() -> Self {
        Self::new()
    }
}

impl H128 {
    pub fn new() -> Self {
        H128 { a: 0x9E37_79B9_7F4A_7C15, b: 0xC2B2_AE3D_27D4_EB4F }
    }
    #[inline]
    pub fn u64(&mut self, v: u64) {
        self.a = (self.a ^ v).wrapping_mul(0x0000_0100_0000_01B3).rotate_left(23) ^ (v >> 7);
        self.b = (self.b.rotate_left(29) ^ v.wrapping_mul(0xFF51_AFD7_ED55_8CCD)).wrapping_mul(0xC4CE_B9FE_1A85_EC53);
    }
    #[inline]
    pub fn bytes(&mut self, bs: &[u8]) {
        self.u64(bs.len() as u64 ^ 0xABCD_0000_0000);
        for c in bs.chunks(8) {
            let mut w = [0u8; 8];
            w[..c.len()].copy_from_slice(c);
            self.u64(u64::from_le_bytes(w));
        }
    }
    pub fn str(&mut self, s: &str) {
        self.bytes(s.as_bytes())
    }
    fn fin(mut x: u64) -> u64 {
        x ^= x >> 33;
        x = x.wrapping_mul(0xFF51_AFD7_ED55_8CCD);
        x ^= x >> 33;
        x = x.wrapping_mul(0xC4CE_B9FE_1A85_EC53);
        x ^= x >> 33;
        x
    }
    pub fn finish128(&self) -> u128 {
        ((Self::fin(self.a) as u128) << 64) | Self::fin(self.b ^ self.a.rotate_left(17)) as u128
    }
    pub fn finish64(&self) -> u64 {
        Self::fin(self.a ^ Self::fin(self.b))
    }
}

/// Minimal JSON value for evidence and replay files.
#[derive(Clone, Debug)]
pub enum J {
    Null,
    Bool(bool),
    Int(i128),
    Num(f64),
    Str(String),
    Arr(Vec<J>),
    Obj(Vec<(String, J)>),
}

impl J {
    pub fn obj() -> J {
        J::Obj(Vec::new())
    }
    pub fn set(mut self, k: &str, v: J) -> J {
        if let J::Obj(ref mut o) = self {
            if let Some(e) = o.iter_mut().find(|(kk, _)| kk == k) {
                e.1 = v;
            } else {
                o.push((k.to_string(), v));
            }
        }
        self
    }
    pub fn put(&mut self, k: &str, v: J) {
        if let J::Obj(o) = self {
            if let Some(e) = o.iter_mut().find(|(kk, _)| kk == k) {
                e.1 = v;
            } else {
                o.push((k.to_string(), v));
            }
        }
    }
    pub fn s(v: impl Into<String>) -> J {
        J::Str(v.into())
    }
    pub fn i(v: impl TryInto<i128>) -> J {
        J::Int(v.try_into().ok().unwrap_or(0))
    }
    pub fn strs<I: IntoIterator<Item = String>>(it: I) -> J {
        J::Arr(it.into_iter().map(J::Str).collect())
    }
    pub fn render(&self) -> String {
        let mut s = String::new();
        self.w(&mut s, 0);
        s.push('\n');
        s
    }
    fn w(&self, out: &mut String, ind: usize) {
        match self {
            J::Null => out.push_str("null"),
            J::Bool(b) => {
                let _ = write!(out, "{}", b);
            }
            J::Int(i) => {
                let _ = write!(out, "{}", i);
            }
            J::Num(f) => {
                if f.is_finite() {
                    let _ = write!(out, "{:.3}", f);
                } else {
                    out.push('0');
                }
            }
            J::Str(s) => {
                out.push('"');
                for c in s.chars() {
                    match c {
                        '"' => out.push_str("\\\""),
                        '\\' => out.push_str("\\\\"),
                        '\n' => out.push_str("\\n"),
                        '\r' => out.push_str("\\r"),
                        '\t' => out.push_str("\\t"),
                        c if (c as u32) < 0x20 => {
                            let _ = write!(out, "\\u{:04x}", c as u32);
                        }
                        c => out.push(c),
                    }
                }
                out.push('"');
            }
            J::Arr(a) => {
                if a.is_empty() {
                    out.push_str("[]");
                    return;
                }
                out.push_str("[\n");
                for (i, v) in a.iter().enumerate() {
                    for _ in 0..ind + 1 {
                        out.push(' ');
                    }
                    v.w(out, ind + 1);
                    if i + 1 < a.len() {
                        out.push(',');
                    }
                    out.push('\n');
                }
                for _ in 0..ind {
                    out.push(' ');
                }
                out.push(']');
            }
            J::Obj(o) => {
                if o.is_empty() {
                    out.push_str("{}");
                    return;
                }
                out.push_str("{\n");
                for (i, (k, v)) in o.iter().enumerate() {
                    for _ in 0..ind + 1 {
                        out.push(' ');
                    }
                    J::Str(k.clone()).w(out, ind + 1);
                    out.push_str(": ");
                    v.w(out, ind + 1);
                    if i + 1 < o.len() {
                        out.push(',');
                    }
                    out.push('\n');
                }
                for _ in 0..ind {
                    out.push(' ');
                }
                out.push('}');
            }
        }
    }
}

thread_local! {
    static LAST_PANIC: RefCell<Option<String>> = const { RefCell::new(None) };
}

/// Installs a panic hook which records the message thread-locally instead of printing it.
pub fn install_quiet_panic_hook() {
    std::panic::set_hook(Box::new(|info| {
        let msg = if let Some(s) = info.payload().downcast_ref::<&str>() {
            s.to_string()
        } else if let Some(s) = info.payload().downcast_ref::<String>() {
            s.clone()
        } else {
            "<non-string panic>".to_string()
        };
        let loc = info.location().map(|l| format!("{}:{}", l.file(), l.line())).unwrap_or_default();
        if std::env::var_os("VLAB_LOUD").is_some() {
            eprintln!("panic: {} @ {}", msg, loc);
        }
        LAST_PANIC.with(|p| *p.borrow_mut() = Some(format!("{} @ {}", msg, loc)));
    }));
}

/// Whether a caught panic message (as recorded by the quiet hook: "message @ file:line") comes
/// from the library under test rather than from the lab: the lab's own files are compiled with
/// relative paths, the path dependency with its absolute path.
pub fn is_driver_panic(msg: &str) -> bool {
    match msg.rsplit_once(" @ ") {
        Some((_, loc)) => loc.starts_with('/') && !loc.contains("/.cargo/") && !loc.starts_with("/rustc/") && !loc.contains("/lab-src/") && !loc.contains("/verif/lab/"),
        None => false,
    }
}

static PANIC_PROP: std::sync::Mutex<Option<&'static str>> = std::sync::Mutex::new(None);

/// The property under which a panic of the library that escapes a driver-level harness (valid
/// calls, honest or explored device) is reported; None = such a panic is a machinery error.
pub fn set_panic_prop(p: Option<&'static str>) {
    *PANIC_PROP.lock().unwrap() = p;
}

pub fn panic_prop() -> Option<&'static str> {
    *PANIC_PROP.lock().unwrap()
}

pub fn take_last_panic() -> Option<String> {
    LAST_PANIC.with(|p| p.borrow_mut().take())
}

/// Runs `f`, catching panics. Returns Err(message) on a panic.
pub fn catch<R>(f: impl FnOnce() -> R) -> Result<R, String> {
    match std::panic::catch_unwind(std::panic::AssertUnwindSafe(f)) {
        Ok(r) => Ok(r),
        Err(e) => {
            let from_hook = take_last_panic();
            let msg = if let Some(m) = from_hook {
                m
            } else if let Some(s) = e.downcast_ref::<&str>() {
                s.to_string()
            } else if let Some(s) = e.downcast_ref::<String>() {
                s.clone()
            } else {
                "<panic>".into()
            };
            Err(msg)
        }
    }
}

pub fn rss_mb() -> u64 {
    if let Ok(s) = std::fs::read_to_string("/proc/self/statm") {
        if let Some(r) = s.split_whitespace().nth(1) {
            if let Ok(p) = r.parse::<u64>() {
                return p * 4096 / (1024 * 1024);
            }
        }
    }
    0
}
