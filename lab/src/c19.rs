//! C19: event queues deliver each device event once, in order, and stay fully stocked.

use crate::cosim::{self, Action, CoDevice, CoRc};
use crate::drivers::{DWorld, Kind, TKind, TransportVisitor, F_EVENT_IDX, F_INDIRECT, F_VERSION_1, VSOCK_RX};
use crate::engine::chooser::{choose, deviate, obs, report, tag};
use crate::engine::Violation;
use crate::hal::{self, LabHal};
use crate::mmio;
use crate::tlog;
use crate::vsock_ref::{Hdr, HDR_LEN, OP_RW};
use std::collections::VecDeque;
use virtio_drivers::device::input::VirtIOInput;
use virtio_drivers::device::socket::{VirtIOSocket, VsockEventType};
use virtio_drivers::device::sound::{NotificationType, VirtIOSound};
use virtio_drivers::transport::Transport;

fn viol(kind: &str, d: String) {
    report(Violation::new("C19", kind, d));
}

#[derive(Clone, Copy, Debug, PartialEq, Eq)]
pub enum Which {
    VsockRx,
    /// The socket driver instantiated with 2048-byte receive buffers.
    VsockRxLarge,
    Input,
    Sound,
}

impl Which {
    pub fn name(self) -> &'static str {
        match self {
            Which::VsockRx => "vsock-rx",
            Which::VsockRxLarge => "vsock-rx-2048",
            Which::Input => "input",
            Which::Sound => "sound-events",
        }
    }
    fn kind(self) -> Kind {
        match self {
            Which::VsockRx | Which::VsockRxLarge => Kind::Socket,
            Which::Input => Kind::Input,
            Which::Sound => Kind::Sound,
        }
    }
    fn queue(self) -> u16 {
        match self {
            Which::VsockRx | Which::VsockRxLarge | Which::Input => 0,
            Which::Sound => 1,
        }
    }
    fn qsize(self) -> usize {
        match self {
            Which::VsockRx | Which::VsockRxLarge => 8,
            _ => 32,
        }
    }
}

struct V {
    which: Which,
    events: usize,
    /// One long deterministic history (device decisions from a fixed pseudo-random sequence)
    /// instead of explored deviations: reaches the 16-bit wrap of the ring indices.
    linear: bool,
    /// The device suppresses notifications on the stocked queue and polls it.
    suppress: bool,
}

thread_local! {
    static LCG: std::cell::Cell<u64> = const { std::cell::Cell::new(0) };
}

/// A device decision: explored (deviation-bounded) or, in a linear run, taken from a fixed
/// sequence that favours the default.
fn decide(linear: bool, n: usize, label: &'static str) -> usize {
    if !linear {
        return deviate(n, label);
    }
    if n <= 1 {
        return 0;
    }
    LCG.with(|l| {
        let x = l.get().wrapping_mul(6364136223846793005).wrapping_add(1442695040888963407);
        l.set(x);
        let r = (x >> 33) as usize;
        // Half of the decisions are the default, the others spread over the alternatives.
        if r & 1 == 0 {
            0
        } else {
            (r >> 1) % n
        }
    })
}

/// An event as written by the device: bytes and the token of the buffer used.
#[derive(Clone, Debug)]
struct Ev {
    token: u16,
    bytes: Vec<u8>,
    seq: u32,
    /// Shorter than one message: the driver reports an error (vsock) or nothing (sound).
    undecodable: bool,
    /// The device reports more bytes written than the buffer holds.
    overstated: bool,
}

fn event_bytes(which: Which, seq: u32, lenc: usize) -> Vec<u8> {
    match which {
        Which::VsockRx | Which::VsockRxLarge => {
            // Full buffer, empty body, one byte; for the large buffers the lengths around the
            // default buffer size too.
            let plen = if which == Which::VsockRxLarge { [VSOCK_RX_LARGE - HDR_LEN, 0, 469][lenc] } else { [VSOCK_RX - HDR_LEN, 0, 1][lenc] };
            let h = Hdr { src_cid: 2, dst_cid: 3, src_port: 80 + seq, dst_port: 1000 + seq, len: plen as u32, typ: 1, op: OP_RW, flags: 0, buf_alloc: 64 + seq, fwd_cnt: seq };
            let mut b = h.encode();
            b.extend((0..plen).map(|i| (seq as u8).wrapping_mul(17).wrapping_add(i as u8)));
            b
        }
        Which::Input => {
            let mut b = vec![];
            b.extend(((seq % 5) as u16).to_le_bytes());
            b.extend((seq as u16).wrapping_mul(3).to_le_bytes());
            b.extend((0x1000_0000u32 + seq).to_le_bytes());
            b
        }
        Which::Sound => {
            let code = [0x1000u32, 0x1001, 0x1100, 0x1101][(seq % 4) as usize];
            let mut b = code.to_le_bytes().to_vec();
            // Jack events name one of two jacks each; a jack is only ever reported connected
            // (jacks 0, 1) or only ever disconnected (jacks 2, 3), so the same notification comes
            // again eight events later: it is an event like any other. PCM events carry a
            // distinct value each.
            let data = match seq % 4 {
                0 => (seq / 4) % 2,
                1 => 2 + (seq / 4) % 2,
                _ => 0x2000_0000u32 + seq,
            };
            b.extend(data.to_le_bytes());
            b
        }
    }
}

pub const VSOCK_RX_LARGE: usize = 2048;

enum Drv<T: Transport> {
    Vsock(VirtIOSocket<LabHal, T, VSOCK_RX>),
    VsockLarge(VirtIOSocket<LabHal, T, VSOCK_RX_LARGE>),
    Input(VirtIOInput<LabHal, T>),
    Sound(VirtIOSound<LabHal, T>),
}

/// One poll of the socket driver; the event is re-encoded from what the driver decoded.
fn poll_vsock<T: Transport, const RX: usize>(s: &mut VirtIOSocket<LabHal, T, RX>) -> Result<Option<Vec<u8>>, String> {
    let mut seen: Option<Vec<u8>> = None;
    let r = crate::util::catch(|| {
        s.poll(|ev, body| {
            let len = match ev.event_type {
                VsockEventType::Received { length } => length,
                _ => usize::MAX,
            };
            let h = Hdr { src_cid: ev.source.cid, dst_cid: ev.destination.cid, src_port: ev.source.port, dst_port: ev.destination.port, len: len as u32, typ: 1, op: OP_RW, flags: 0, buf_alloc: ev.buffer_status.buffer_allocation, fwd_cnt: ev.buffer_status.forward_count };
            let mut b = h.encode();
            b.extend_from_slice(body);
            seen = Some(b);
            Ok(Some(ev))
        })
    });
    match r {
        Ok(Ok(Some(_))) => Ok(seen),
        Ok(Ok(None)) => Ok(None),
        Ok(Err(e)) => Err(format!("{:?}", e)),
        Err(p) => Err(p),
    }
}

impl TransportVisitor for V {
    type Out = ();
    fn visit<T: Transport + 'static>(self, t: T, w: &DWorld) {
        let which = self.which;
        let linear = self.linear;
        LCG.with(|l| l.set(0x5eed_0000 + self.events as u64));
        let q = which.queue();
        let qs = which.qsize();
        let co: CoRc = if which == Which::Sound {
            // The sound device answers control requests with success (so that a stream can be
            // set up) and holds event buffers and PCM transfers until told otherwise.
            CoDevice::new(
                w.dev.clone(),
                Box::new(|q, chain, req| {
                    if q == 0 {
                        let data = cosim::honest_response(Kind::Sound, q, req, chain.writable_len());
                        let n = data.len() as u32;
                        cosim::Action::Complete(data, n)
                    } else {
                        cosim::Action::Hold
                    }
                }),
            )
        } else {
            CoDevice::new(w.dev.clone(), cosim::zero_responder(which.kind()))
        };
        co.borrow_mut().spin_horizon = 6;
        cosim::install(&co);
        let r = crate::util::catch(|| match which {
            Which::VsockRx => VirtIOSocket::<LabHal, T, VSOCK_RX>::new(t).map(Drv::Vsock),
            Which::VsockRxLarge => VirtIOSocket::<LabHal, T, VSOCK_RX_LARGE>::new(t).map(Drv::VsockLarge),
            Which::Input => VirtIOInput::<LabHal, T>::new(t).map(Drv::Input),
            Which::Sound => VirtIOSound::<LabHal, T>::new(t).map(Drv::Sound),
        });
        let mut d = match r {
            Ok(Ok(d)) => d,
            other => {
                viol("construction", format!("{:?}", other.map(|r| r.map(|_| ()))));
                cosim::uninstall();
                return;
            }
        };
        let posted0 = co.borrow_mut().held_count(q);
        if posted0 != qs {
            viol("not-stocked", format!("{} buffers posted after construction, queue size {}", posted0, qs));
        }
        // The device may not want to be notified about re-posted buffers (it polls the queue): it
        // sets VIRTQ_USED_F_NO_NOTIFY, resp. an event index far ahead. What it can see in the
        // available ring must be the same.
        if self.suppress {
            co.borrow_mut().suppressed = vec![q];
            co.borrow_mut().service(q);
        }
        let mut pending: VecDeque<Ev> = VecDeque::new();
        let mut xfer_done = false;
        let mut seq = 0u32;
        let mut delivered = 0usize;
        while delivered < self.events && !crate::engine::chooser::has_violation() {
            // The device completes a burst of posted buffers.
            let posted = co.borrow_mut().held_count(q);
            let maxb = posted.min(self.events - delivered).max(1);
            let burst = 1 + decide(linear, maxb, "burst size (default 1)");
            for _ in 0..burst {
                let posted = co.borrow_mut().held_count(q);
                if posted == 0 {
                    viol("starved", "no buffer posted although events remain to be delivered".into());
                    break;
                }
                let j = decide(linear, posted, "which posted buffer the device uses (default: oldest)");
                let lenc = match which {
                    Which::VsockRx | Which::VsockRxLarge => decide(linear, 7, "written length (default: full)"),
                    Which::Sound => decide(linear, 4, "written length (default: full)"),
                    Which::Input => decide(linear, 2, "written length (default: full)"),
                };
                // The last alternative of each: the full event, reported with a used length
                // beyond the buffer's size.
                let overstated = matches!((which, lenc), (Which::VsockRx | Which::VsockRxLarge, 5) | (Which::Sound, 3) | (Which::Input, 1));
                let lenc = if overstated { 0 } else { lenc };
                seq += 1;
                let is_vsock = matches!(which, Which::VsockRx | Which::VsockRxLarge);
                let mut bytes = event_bytes(which, seq, if is_vsock { lenc.min(2) } else { 0 });
                // Writes shorter than one message: the event cannot be decoded, but the buffer must
                // still come back.
                let undecodable = match (which, lenc) {
                    (Which::VsockRx | Which::VsockRxLarge, 3) => {
                        bytes.truncate(0);
                        true
                    }
                    (Which::VsockRx | Which::VsockRxLarge, 4) => {
                        bytes.truncate(7);
                        true
                    }
                    // A complete header announcing a full body, of which only 10 bytes were
                    // written: not a packet (nothing of it may reach the caller as one).
                    (Which::VsockRx | Which::VsockRxLarge, 6) => {
                        bytes = event_bytes(which, seq, 0);
                        bytes.truncate(HDR_LEN + 10);
                        true
                    }
                    (Which::Sound, 1) => {
                        bytes.truncate(0);
                        true
                    }
                    (Which::Sound, 2) => {
                        bytes.truncate(5);
                        true
                    }
                    _ => false,
                };
                let token = co.borrow().held.get(&q).unwrap()[j].head;
                let cap = co.borrow().held.get(&q).unwrap()[j].writable_len();
                if bytes.len() > cap {
                    viol("buffer-too-small", format!("posted buffer holds {} bytes, the event needs {}", cap, bytes.len()));
                }
                let used_len = if overstated { cap as u32 + 1 + (seq % 3) * 29 } else { bytes.len() as u32 };
                co.borrow_mut().complete_held(q, j, &bytes, used_len);
                pending.push_back(Ev { token, bytes, seq, undecodable, overstated });
                delivered += 1;
            }
            // Once per run, with events waiting to be polled: a blocking PCM transfer which the
            // device serves while the driver busy-waits. The events are the caller's to take
            // afterwards, every one of them.
            if which == Which::Sound && !xfer_done && !pending.is_empty() {
                xfer_done = true;
                if let Drv::Sound(s) = &mut d {
                    use virtio_drivers::device::sound::{PcmFeatures, PcmFormat, PcmRate};
                    let _ = s.output_streams();
                    let _ = s.pcm_set_params(0, 8, 4, PcmFeatures::empty(), 1, PcmFormat::U8, PcmRate::Rate8000);
                    let _ = s.pcm_prepare(0);
                    let _ = s.pcm_start(0);
                    {
                        let c2 = co.clone();
                        let mut n = 0u32;
                        crate::mmio::set_spin_handler(Some(Box::new(move |_site| {
                            n += 1;
                            let mut c = c2.borrow_mut();
                            if n % 2 == 0 && c.held_count(2) > 0 {
                                let mut done = [0u8; 8];
                                done[0..4].copy_from_slice(&0x8000u32.to_le_bytes());
                                c.complete_held(2, 0, &done, 8);
                            }
                            if n > 40 {
                                panic!("LAB-LIVELOCK: pcm_xfer keeps waiting although the device has answered");
                            }
                        })));
                    }
                    let r = crate::util::catch(|| s.pcm_xfer(0, &[1, 2, 3, 4, 5, 6, 7, 8]));
                    cosim::install(&co);
                    tag("sound:pcm_xfer-with-events-pending");
                    if !matches!(r, Ok(Ok(()))) {
                        viol("blocking-transfer", format!("pcm_xfer with {} events pending -> {:?}", pending.len(), r));
                    }
                }
            }
            // The driver polls until nothing is left, plus once more.
            let polls = pending.len() + 1;
            for _ in 0..polls {
                let expect = pending.pop_front();
                let got: Result<Option<Vec<u8>>, String> = match &mut d {
                    Drv::Vsock(s) => poll_vsock(s),
                    Drv::VsockLarge(s) => poll_vsock(s),
                    Drv::Input(i) => match crate::util::catch(|| i.pop_pending_event()) {
                        Ok(Some(e)) => {
                            let mut b = e.event_type.to_le_bytes().to_vec();
                            b.extend(e.code.to_le_bytes());
                            b.extend(e.value.to_le_bytes());
                            Ok(Some(b))
                        }
                        Ok(None) => Ok(None),
                        Err(p) => Err(p),
                    },
                    Drv::Sound(s) => match crate::util::catch(|| s.latest_notification()) {
                        Ok(Ok(Some(n))) => {
                            let code = match n.notification_type() {
                                NotificationType::JackConnected => 0x1000u32,
                                NotificationType::JackDisconnected => 0x1001,
                                NotificationType::PcmPeriodElapsed => 0x1100,
                                NotificationType::PcmXrun => 0x1101,
                            };
                            let mut b = code.to_le_bytes().to_vec();
                            b.extend(n.data().to_le_bytes());
                            Ok(Some(b))
                        }
                        Ok(Ok(None)) => Ok(None),
                        Ok(Err(e)) => Err(format!("{:?}", e)),
                        Err(p) => Err(p),
                    },
                };
                tag(if expect.is_some() { "poll:event" } else { "poll:empty" });
                match (&got, &expect) {
                    // An overstated length: an error, nothing, or the event (never more than the buffer).
                    (Err(_), Some(e)) if e.overstated => {}
                    (Ok(None), Some(e)) if e.overstated => {}
                    (Ok(Some(b)), Some(e)) if e.overstated && b.len() <= e.bytes.len().max(8) + 2048 && b.starts_with(&e.bytes[..e.bytes.len().min(b.len())]) => {}
                    (Err(_), Some(e)) if e.undecodable && matches!(which, Which::VsockRx | Which::VsockRxLarge) => {}
                    (Ok(None), Some(e)) if e.undecodable && which == Which::Sound => {}
                    (Ok(Some(b)), Some(e)) if *b == e.bytes && !e.undecodable => {}
                    (Ok(None), None) => {}
                    (g, e) => {
                        let k = match (g, e) {
                            (Ok(Some(_)), Some(_)) => "event-data-or-order",
                            (Ok(None), Some(_)) => "event-lost",
                            (Ok(Some(_)), None) => "event-duplicated",
                            _ => "poll-error",
                        };
                        viol(k, format!("{}: poll returned {:x?}, the next completed event is {:x?}", which.name(), g, e.as_ref().map(|e| (e.seq, e.token, &e.bytes))));
                    }
                }
                // Stocking: every token is either posted or completed-and-unpolled, exactly once.
                let mut tokens: Vec<u16> = {
                    let mut c = co.borrow_mut();
                    c.service(q);
                    c.held.get(&q).map(|h| h.iter().map(|c| c.head).collect()).unwrap_or_default()
                };
                tokens.extend(pending.iter().map(|e| e.token));
                tokens.sort();
                let want: Vec<u16> = (0..qs as u16).collect();
                if tokens != want {
                    viol("not-restocked", format!("{}: after the poll the buffers posted or awaiting consumption are {:?}; every token 0..{} must be there exactly once (consumed buffer {:?} must be re-posted under its token before the call returns)", which.name(), tokens, qs, expect.as_ref().map(|e| e.token)));
                }
                for e in co.borrow_mut().errors.drain(..) {
                    viol("chain-malformed", e);
                }
                if crate::engine::chooser::has_violation() {
                    break;
                }
            }
            obs(seq as u64);
            if linear && seq % 256 == 0 {
                // Keep the ledger and the device-side log small in long runs.
                hal::with(|h| h.compact());
                co.borrow_mut().served.clear();
            }
        }
        if linear {
            tag("linear-run-completed");
        }
        let posted = co.borrow_mut().held_count(q);
        if posted != qs && !crate::engine::chooser::has_violation() {
            viol("not-restocked", format!("{} buffers posted at the end, queue size {}", posted, qs));
        }
        match d {
            Drv::Vsock(s) => drop(s),
            Drv::VsockLarge(s) => drop(s),
            Drv::Input(i) => drop(i),
            Drv::Sound(s) => drop(s),
        }
        cosim::uninstall();
    }
}

pub fn run(tkind: TKind, which: Which, events: usize) {
    run_mode(tkind, which, events, false)
}

/// One long history per feature set: more than 65 536 events, so that the available and used
/// indices of the stocked queue wrap around while buffers keep being recycled.
pub fn run_linear(tkind: TKind, which: Which, events: usize) {
    run_mode(tkind, which, events, true)
}

fn run_mode(tkind: TKind, which: Which, events: usize, linear: bool) {
    hal::reset();
    let feats = [F_VERSION_1, F_VERSION_1 | F_INDIRECT | F_EVENT_IDX];
    let offered = feats[choose(feats.len(), "offered features")];
    let kind = which.kind();
    let w = DWorld::new(kind, tkind, offered, kind.default_config());
    let suppress = choose(2, "device suppresses notifications on the stocked queue") == 1;
    w.with_transport(V { which, events, linear, suppress });
    mmio::set_handler(None);
}
