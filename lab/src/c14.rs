//! C14: block requests carry the caller's data intact and match the right completion.

use crate::cosim::{self, Action, CoDevice, CoRc};
use crate::drivers::{DWorld, Kind, TKind, TransportVisitor, F_EVENT_IDX, F_INDIRECT, F_VERSION_1};
use crate::engine::chooser::{choose, deviate, obs, report, tag};
use crate::engine::Violation;
use crate::hal::{self, LabHal};
use crate::mmio;
use crate::ring::Chain;
use crate::tlog;
use std::cell::RefCell;
use std::collections::BTreeMap;
use std::rc::Rc;
use virtio_drivers::device::blk::{BlkReq, BlkResp, VirtIOBlk};
use virtio_drivers::transport::Transport;
use virtio_drivers::Error;

const F_RO: u64 = 1 << 5;
const F_FLUSH: u64 = 1 << 9;

fn viol(kind: &str, d: String) {
    report(Violation::new("C14", kind, d));
}

pub fn disk_pattern(sector: u64, i: usize) -> u8 {
    ((sector.wrapping_mul(131).wrapping_add(i as u64 * 7) % 251) as u8) ^ 0x5a
}

#[derive(Default)]
pub struct Disk {
    pub sectors: BTreeMap<u64, Vec<u8>>,
}

impl Disk {
    pub fn read(&self, s: u64) -> Vec<u8> {
        self.sectors.get(&s).cloned().unwrap_or_else(|| (0..512).map(|i| disk_pattern(s, i)).collect())
    }
}

/// A decoded request as the device sees it.
#[derive(Clone, Debug)]
pub struct Req {
    pub head: u16,
    pub typ: u32,
    pub sector: u64,
    pub data_len: usize,
    pub write_data: Vec<u8>,
    pub chain: Chain,
}

pub struct BlkDev {
    /// Which serial number the device reports: 13 characters, all 20 bytes used (no terminator),
    /// or none at all.
    pub id_variant: usize,
    pub disk: Disk,
    pub decode_errors: Vec<String>,
    pub seen: Vec<Req>,
}

/// Decodes and validates the structure of one request chain (spec 5.2.6).
pub fn decode(chain: &Chain, readable: &[u8]) -> Result<Req, String> {
    if readable.len() < 16 {
        return Err(format!("request header is {} readable bytes, expected at least 16", readable.len()));
    }
    let first = chain.elems.first().ok_or("empty chain")?;
    if first.write || first.len != 16 {
        return Err(format!("first part must be the 16-byte device-readable header, got {:?}", first));
    }
    let typ = u32::from_le_bytes(readable[0..4].try_into().unwrap());
    let reserved = u32::from_le_bytes(readable[4..8].try_into().unwrap());
    let sector = u64::from_le_bytes(readable[8..16].try_into().unwrap());
    if reserved != 0 {
        return Err(format!("reserved header field is {:#x}", reserved));
    }
    let last = chain.elems.last().unwrap();
    if !last.write || last.len != 1 {
        return Err(format!("final part must be a one-byte device-writable status, got {:?}", last));
    }
    let wlen = chain.writable_len();
    let rdata = readable[16..].to_vec();
    let (data_len, ok) = match typ {
        0 => (wlen - 1, rdata.is_empty() && wlen > 1 && (wlen - 1) % 512 == 0),
        1 => (rdata.len(), wlen == 1 && !rdata.is_empty() && rdata.len() % 512 == 0),
        4 => (0, rdata.is_empty() && wlen == 1),
        8 => (wlen - 1, rdata.is_empty() && wlen == 21),
        _ => return Err(format!("unknown request type {}", typ)),
    };
    if !ok {
        return Err(format!("request type {} with {} readable data bytes and {} writable bytes has the wrong shape", typ, rdata.len(), wlen));
    }
    Ok(Req { head: chain.head, typ, sector, data_len, write_data: rdata, chain: chain.clone() })
}

pub fn device_id_bytes(variant: usize) -> Vec<u8> {
    let mut id = match variant {
        1 => b"lab-disk-0123456789X".to_vec(),
        2 => vec![],
        _ => b"lab-disk-0001".to_vec(),
    };
    id.resize(20, 0);
    id
}

impl BlkDev {
    /// Executes the request with the given status; returns (bytes for the writable part, used len).
    pub fn execute(&mut self, r: &Req, status: u8) -> (Vec<u8>, u32) {
        let mut out = vec![];
        match r.typ {
            0 => {
                if status == 0 {
                    for i in 0..(r.data_len / 512) as u64 {
                        out.extend(self.disk.read(r.sector.wrapping_add(i)));
                    }
                } else {
                    out.extend(vec![0xEEu8; r.data_len]);
                }
            }
            1 => {
                if status == 0 {
                    for (i, c) in r.write_data.chunks(512).enumerate() {
                        self.disk.sectors.insert(r.sector.wrapping_add(i as u64), c.to_vec());
                    }
                }
            }
            8 => {
                out.extend(device_id_bytes(self.id_variant));
            }
            _ => {}
        }
        out.push(status);
        let l = out.len() as u32;
        (out, l)
    }
}

struct Nb {
    token: u16,
    write: bool,
    sector: u64,
    req: Box<BlkReq>,
    resp: Box<BlkResp>,
    buf: Box<[u8]>,
    status: Option<u8>,
    /// For a read the device served successfully: the bytes it supplied.
    data: Option<Vec<u8>>,
}

/// (sector, sectors): the first sector, two sectors, the last sector of the device (capacity
/// 2^32 + 8), the last two sectors, and a sector number with all bits set (the driver does not
/// range-check; the device answers).
pub const VARIANTS: [(u64, usize); 5] = [(0, 1), (1, 2), (0x1_0000_0007, 1), (0x1_0000_0006, 2), (u64::MAX, 1)];
const STATUSES: [u8; 5] = [0, 1, 2, 0xff, 3];

fn expect_of(status: u8) -> Result<(), Error> {
    match status {
        0 => Ok(()),
        1 => Err(Error::IoError),
        2 => Err(Error::Unsupported),
        3 => Err(Error::NotReady),
        _ => Err(Error::IoError),
    }
}

struct V {
    depth: usize,
    offered: u64,
    /// Only the non-blocking interface, two sector variants (deeper histories).
    nb_only: bool,
    /// The device's status byte is a free choice over all 256 values instead of a deviation.
    sweep: bool,
}

thread_local! {
    /// The device reports a used length of 1 (only the status byte written) for the next request
    /// it fails.
    static SHORT_LEN: std::cell::Cell<bool> = const { std::cell::Cell::new(false) };
}

impl V {
    fn pick_status(&self) -> u8 {
        let st = if self.sweep { choose(256, "device status byte") as u8 } else { STATUSES[deviate(STATUSES.len(), "device status")] };
        // A device that fails a request may report that it wrote the status byte only.
        SHORT_LEN.with(|s| s.set(st != 0 && deviate(2, "used length of a failed request (default: the whole writable part)") == 1));
        st
    }
}

impl TransportVisitor for V {
    type Out = ();
    fn visit<T: Transport + 'static>(self, t: T, w: &DWorld) {
        let bd = Rc::new(RefCell::new(BlkDev { id_variant: 0, disk: Disk::default(), decode_errors: vec![], seen: vec![] }));
        // What the device does with the next request: Some(status) = complete now, None = hold.
        let mode: Rc<RefCell<Option<u8>>> = Rc::new(RefCell::new(Some(0)));
        let co: CoRc = {
            let bd = bd.clone();
            let mode = mode.clone();
            CoDevice::new(
                w.dev.clone(),
                Box::new(move |_q, chain, readable| {
                    let mut b = bd.borrow_mut();
                    match decode(chain, readable) {
                        Err(e) => {
                            b.decode_errors.push(e);
                            let wl = chain.writable_len();
                            Action::Complete(vec![1u8; wl], wl as u32)
                        }
                        Ok(r) => {
                            b.seen.push(r.clone());
                            match *mode.borrow() {
                                Some(st) => {
                                    let (data, len) = b.execute(&r, st);
                                    Action::Complete(data, if st != 0 && SHORT_LEN.with(|s| s.get()) { 1 } else { len })
                                }
                                None => Action::Hold,
                            }
                        }
                    }
                }),
            )
        };
        co.borrow_mut().spin_horizon = 8;
        cosim::install(&co);
        let mut blk = match VirtIOBlk::<LabHal, T>::new(t) {
            Ok(b) => b,
            Err(e) => {
                viol("construction", format!("{:?}", e));
                cosim::uninstall();
                return;
            }
        };
        let accepted = w.dev.borrow().driver_features;
        if blk.capacity() != 0x1_0000_0008 {
            viol("capacity", format!("capacity() = {:#x}, device configuration says 0x100000008", blk.capacity()));
        }
        if blk.readonly() != (accepted & F_RO != 0) {
            viol("readonly", format!("readonly() = {} with RO negotiated = {}", blk.readonly(), accepted & F_RO != 0));
        }
        let mut expected = Disk::default();
        let mut nbs: Vec<Nb> = vec![];
        // Request/response objects are reused by later requests without being reset, as a caller
        // with a fixed pool would do.
        let mut pool: Vec<(Box<BlkReq>, Box<BlkResp>)> = vec![];
        let mut wseq = 0u8;
        for step in 0..self.depth {
            let seen_before = bd.borrow().seen.len();
            // Menu.
            let mut menu: Vec<(u8, usize)> = vec![];
            if !self.nb_only {
                for v in 0..VARIANTS.len() {
                    menu.push((0, v));
                    menu.push((1, v));
                }
                menu.push((2, 0));
                menu.push((3, 0));
            }
            if nbs.len() < 3 {
                for v in (0..VARIANTS.len()).filter(|v| !self.nb_only || *v == 0 || (*v == 3 && !self.sweep)) {
                    menu.push((4, v));
                    menu.push((5, v));
                }
            }
            let held = co.borrow_mut().held_count(0);
            for j in 0..held {
                menu.push((6, j));
            }
            if nbs.iter().any(|n| n.status.is_some()) {
                menu.push((7, 0));
            }
            let (op, arg) = menu[choose(menu.len(), "block operation")];
            let blocking_allowed = held == 0 && !nbs.iter().any(|n| n.status.is_some());
            match op {
                0 | 1 | 2 | 3 if !blocking_allowed => {
                    // Blocking helpers assume nothing else is in flight (documented); skip.
                    tag("skip:blocking-with-outstanding");
                    continue;
                }
                0 => {
                    let (sector, n) = VARIANTS[arg];
                    let st = self.pick_status();
                    *mode.borrow_mut() = Some(st);
                    let mut buf = vec![0x11u8; 512 * n];
                    let r = blk.read_blocks(sector as usize, &mut buf);
                    tlog!("step {}: read_blocks({:#x}, {} sectors) status {:#x} -> {:?}", step, sector, n, st, r);
                    tag("read");
                    if r != expect_of(st) {
                        viol("status-mapping", format!("read_blocks with device status {:#x} returned {:?}", st, r));
                    }
                    if st == 0 {
                        let want: Vec<u8> = (0..n as u64).flat_map(|i| expected.read(sector.wrapping_add(i))).collect();
                        if buf != want {
                            viol("read-data", format!("read_blocks({:#x}, {}) returned data differing from the disk contents", sector, n));
                        }
                    } else if buf.iter().any(|b| *b != 0xEE) {
                        // A failed read: the reference device filled the data part with 0xEE before
                        // it set the status. What is in the caller's buffer afterwards is what the
                        // device supplied, not something the driver made up.
                        let at = buf.iter().position(|b| *b != 0xEE).unwrap();
                        viol("read-data", format!("read_blocks({:#x}, {}) failed with status {:#x}; the device had written 0xee over the whole data part, the caller's buffer holds {:#x} at byte {}", sector, n, st, buf[at], at));
                    }
                    self.check_last(&bd, seen_before, 0, sector, 512 * n);
                }
                1 => {
                    let (sector, n) = VARIANTS[arg];
                    let st = self.pick_status();
                    *mode.borrow_mut() = Some(st);
                    wseq = wseq.wrapping_add(1);
                    let buf: Vec<u8> = (0..512 * n).map(|i| (i as u8).wrapping_mul(3).wrapping_add(wseq)).collect();
                    let r = blk.write_blocks(sector as usize, &buf);
                    tlog!("step {}: write_blocks({:#x}, {} sectors) status {:#x} -> {:?}", step, sector, n, st, r);
                    tag("write");
                    if r != expect_of(st) {
                        viol("status-mapping", format!("write_blocks with device status {:#x} returned {:?}", st, r));
                    }
                    if st == 0 {
                        for (i, c) in buf.chunks(512).enumerate() {
                            expected.sectors.insert(sector.wrapping_add(i as u64), c.to_vec());
                        }
                    }
                    self.check_last(&bd, seen_before, 1, sector, 512 * n);
                }
                2 => {
                    let st = self.pick_status();
                    *mode.borrow_mut() = Some(st);
                    let r = blk.flush();
                    tag("flush");
                    let emitted = bd.borrow().seen.len() - seen_before;
                    if accepted & F_FLUSH != 0 {
                        if emitted != 1 {
                            viol("flush-gating", format!("flush emitted {} requests with FLUSH negotiated", emitted));
                        }
                        if r != expect_of(st) {
                            viol("status-mapping", format!("flush with device status {:#x} returned {:?}", st, r));
                        }
                        self.check_last(&bd, seen_before, 4, 0, 0);
                    } else if emitted != 0 || r != Ok(()) {
                        viol("flush-gating", format!("flush without FLUSH negotiated emitted {} requests and returned {:?}", emitted, r));
                    }
                }
                3 => {
                    let st = self.pick_status();
                    *mode.borrow_mut() = Some(st);
                    let variant = choose(3, "serial number the device reports (13 characters, all 20 bytes, empty)");
                    bd.borrow_mut().id_variant = variant;
                    let want_id = device_id_bytes(variant);
                    let want_len = want_id.iter().position(|b| *b == 0).unwrap_or(20);
                    let mut id = [0xEEu8; 20];
                    let r = blk.device_id(&mut id);
                    tag("device_id");
                    match (st, r) {
                        (0, Ok(n)) if n == want_len && id[..n] == want_id[..n] => {}
                        (0, other) => viol("device-id", format!("device_id returned {:?} / {:?}", other, id)),
                        (s, Err(e)) if Err::<(), _>(e) == expect_of(s) => {}
                        (s, other) => viol("status-mapping", format!("device_id with device status {:#x} returned {:?}", s, other)),
                    }
                    self.check_last(&bd, seen_before, 8, 0, 20);
                }
                4 | 5 => {
                    let (sector, n) = VARIANTS[arg];
                    *mode.borrow_mut() = None;
                    let write = op == 5;
                    wseq = wseq.wrapping_add(1);
                    let (preq, presp) = pool.pop().unwrap_or_else(|| (Box::new(BlkReq::default()), Box::new(BlkResp::default())));
                    let mut nb = Nb {
                        token: 0,
                        write,
                        sector,
                        req: preq,
                        resp: presp,
                        buf: if write { (0..512 * n).map(|i| (i as u8).wrapping_mul(5).wrapping_add(wseq)).collect::<Vec<u8>>().into_boxed_slice() } else { vec![0x22u8; 512 * n].into_boxed_slice() },
                        status: None,
                        data: None,
                    };
                    // SAFETY: the buffers live in `nbs` until the request has been completed.
                    let r = unsafe {
                        if write {
                            blk.write_blocks_nb(sector as usize, &mut nb.req, &nb.buf, &mut nb.resp)
                        } else {
                            blk.read_blocks_nb(sector as usize, &mut nb.req, &mut nb.buf, &mut nb.resp)
                        }
                    };
                    tlog!("step {}: {}_blocks_nb({:#x}, {}) -> {:?}", step, if write { "write" } else { "read" }, sector, n, r);
                    tag("nb-submit");
                    match r {
                        Ok(tok) => {
                            nb.token = tok;
                            co.borrow_mut().service(0);
                            self.check_last(&bd, seen_before, if write { 1 } else { 0 }, sector, 512 * n);
                            if nbs.iter().any(|o| o.token == tok) {
                                viol("token-reuse", format!("token {} returned for two outstanding requests", tok));
                            }
                            nbs.push(nb);
                        }
                        Err(e) => viol("nb-submit", format!("non-blocking submit failed with {:?} with {} outstanding", e, nbs.len())),
                    }
                }
                6 => {
                    // The device completes held request #arg with a chosen status.
                    let st = self.pick_status();
                    let chain = co.borrow().held.get(&0).and_then(|h| h.get(arg).cloned());
                    if let Some(chain) = chain {
                        let req = bd.borrow().seen.iter().rev().find(|r| r.head == chain.head).cloned();
                        if let Some(req) = req {
                            let (data, len) = bd.borrow_mut().execute(&req, st);
                            if st == 0 && req.typ == 1 {
                                for (i, c) in req.write_data.chunks(512).enumerate() {
                                    expected.sectors.insert(req.sector.wrapping_add(i as u64), c.to_vec());
                                }
                            }
                            co.borrow_mut().complete_held(0, arg, &data, len);
                            if let Some(n) = nbs.iter_mut().find(|n| n.token == chain.head) {
                                n.status = Some(st);
                                if st == 0 && req.typ == 0 {
                                    n.data = Some(data[..data.len() - 1].to_vec());
                                }
                            }
                            tlog!("step {}: device completes token {} with status {:#x}", step, chain.head, st);
                            tag("nb-device-complete");
                        }
                    }
                }
                _ => {
                    // Consume the next completion.
                    let Some(tok) = blk.peek_used() else {
                        viol("peek-used", "peek_used() = None although the device completed a request".into());
                        continue;
                    };
                    let Some(i) = nbs.iter().position(|n| n.token == tok) else {
                        viol("peek-used", format!("peek_used() = {} which is not an outstanding token", tok));
                        continue;
                    };
                    // A caller that polls its requests in submission order first asks for a
                    // request which is not the next one in the used ring: that must fail and
                    // change nothing (the completion in front stays where it is).
                    if let Some(j) = (0..nbs.len()).find(|j| *j != i) {
                        let other = &mut nbs[j];
                        let otok = other.token;
                        // SAFETY: same buffers as passed at submission.
                        let r = unsafe {
                            if other.write {
                                blk.complete_write_blocks(otok, &other.req, &other.buf, &mut other.resp)
                            } else {
                                blk.complete_read_blocks(otok, &other.req, &mut other.buf, &mut other.resp)
                            }
                        };
                        tag("nb-complete-not-next");
                        if r.is_ok() {
                            viol("completion-order", format!("completion of token {} succeeded although the next completion in the used ring is token {}", otok, tok));
                        }
                        if blk.peek_used() != Some(tok) {
                            viol("peek-used", format!("after a refused completion of token {} peek_used() = {:?}; the completion of token {} was next and has not been consumed", otok, blk.peek_used(), tok));
                        }
                    }
                    let mut nb = nbs.remove(i);
                    let Some(st) = nb.status else {
                        viol("peek-used", format!("peek_used() = {} but the device has not completed that request", tok));
                        continue;
                    };
                    // SAFETY: same buffers as passed at submission.
                    let r = unsafe {
                        if nb.write {
                            blk.complete_write_blocks(tok, &nb.req, &nb.buf, &mut nb.resp)
                        } else {
                            blk.complete_read_blocks(tok, &nb.req, &mut nb.buf, &mut nb.resp)
                        }
                    };
                    tlog!("step {}: complete token {} -> {:?}", step, tok, r);
                    tag("nb-complete");
                    if r != expect_of(st) {
                        viol("completion-status", format!("completion of token {} returned {:?} but the device reported status {:#x} for that request", tok, r, st));
                    }
                    if !nb.write && st == 0 {
                        // Data as of the moment the device executed the read: compare with the
                        // bytes the device put into *this* request's buffer.
                        let n = nb.buf.len() / 512;
                        let _ = n;
                        if nb.buf.iter().all(|b| *b == 0x22) {
                            viol("completion-data", format!("read completion of token {} left the buffer untouched", tok));
                        }
                        if let Some(d) = &nb.data {
                            if **d != *nb.buf {
                                viol("completion-data", format!("read completion of token {} (sector {:#x}) returned bytes differing from what the device supplied for that request", tok, nb.sector));
                            }
                        }
                    }
                    obs(tok as u64);
                    pool.push((nb.req, nb.resp));
                }
            }
            for e in bd.borrow_mut().decode_errors.drain(..) {
                viol("request-malformed", e);
            }
            for e in co.borrow_mut().errors.drain(..) {
                viol("chain-malformed", e);
            }
            if co.borrow().livelock.is_some() {
                viol("livelock", co.borrow().livelock.clone().unwrap());
                break;
            }
            // The device's disk equals the model disk built from the caller's bytes.
            if bd.borrow().disk.sectors != expected.sectors {
                viol("disk-contents", "device disk differs from the caller's writes".into());
            }
        }
        drop(blk);
        drop(nbs);
        cosim::uninstall();
    }
}

impl V {
    fn check_last(&self, bd: &Rc<RefCell<BlkDev>>, seen_before: usize, typ: u32, sector: u64, data_len: usize) {
        let b = bd.borrow();
        if b.seen.len() != seen_before + 1 {
            if b.decode_errors.is_empty() {
                viol("request-count", format!("operation emitted {} requests, expected exactly one", b.seen.len() - seen_before));
            }
            return;
        }
        let r = b.seen.last().unwrap();
        if r.typ != typ || (typ <= 1 && r.sector != sector) || (typ != 4 && r.data_len != data_len) {
            viol("request-encoding", format!("device decoded type {} sector {:#x} data {} bytes; caller asked for type {} sector {:#x} data {} bytes", r.typ, r.sector, r.data_len, typ, sector, data_len));
        }
        obs(r.typ as u64 ^ r.sector);
    }
}

pub fn run(tkind: TKind, depth: usize, nb_only: bool) {
    hal::reset();
    // (The read-only set also offers features the driver does not support - block size,
    // topology, discard, multiqueue: what counts is what was negotiated.)
    let feats = [F_VERSION_1 | F_FLUSH, F_VERSION_1 | F_FLUSH | F_INDIRECT | F_EVENT_IDX, F_VERSION_1 | F_RO | F_FLUSH | (1 << 6) | (1 << 10) | (1 << 12) | (1 << 13), 0];
    let offered = if nb_only { feats[choose(2, "offered features")] } else { feats[choose(feats.len(), "offered features")] };
    let mut cfg = Kind::Blk.default_config();
    cfg[0..8].copy_from_slice(&0x1_0000_0008u64.to_le_bytes());
    // Every optional field of the configuration space holds a value that would change the
    // driver's behaviour if it were (wrongly) honoured without its feature having been negotiated:
    // size_max 1, seg_max 1, a geometry, a 4096-byte block size, topology, 4 queues, discard limits.
    cfg[8..12].copy_from_slice(&1u32.to_le_bytes());
    cfg[12..16].copy_from_slice(&1u32.to_le_bytes());
    cfg[16..20].copy_from_slice(&[7, 0, 3, 9]);
    cfg[20..24].copy_from_slice(&4096u32.to_le_bytes());
    cfg[24..32].copy_from_slice(&[3, 1, 8, 0, 64, 0, 0, 0]);
    cfg[32] = 1;
    cfg[34..36].copy_from_slice(&4u16.to_le_bytes());
    for (i, b) in cfg[36..60].iter_mut().enumerate() {
        *b = 1 + i as u8;
    }
    let w = DWorld::new(Kind::Blk, tkind, offered, cfg);
    w.with_transport(V { depth, offered, nb_only, sweep: false });
    mmio::set_handler(None);
}

/// Every device status byte (0..=255) for every request kind: depth 1 for the blocking calls,
/// submit / complete / consume for the non-blocking ones.
pub fn run_status_sweep(tkind: TKind, nb_only: bool) {
    hal::reset();
    let offered = F_VERSION_1 | F_FLUSH;
    let mut cfg = Kind::Blk.default_config();
    cfg[0..8].copy_from_slice(&0x1_0000_0008u64.to_le_bytes());
    let w = DWorld::new(Kind::Blk, tkind, offered, cfg);
    w.with_transport(V { depth: if nb_only { 3 } else { 1 }, offered, nb_only, sweep: true });
    mmio::set_handler(None);
}

// ------------------------------------------------------------------------------------------------
// A queue-full of outstanding non-blocking requests, completed in any order, twice.

struct VFull {
    rounds: usize,
}

impl TransportVisitor for VFull {
    type Out = ();
    fn visit<T: Transport + 'static>(self, t: T, w: &DWorld) {
        let bd = Rc::new(RefCell::new(BlkDev { id_variant: 0, disk: Disk::default(), decode_errors: vec![], seen: vec![] }));
        let co: CoRc = {
            let bd = bd.clone();
            CoDevice::new(
                w.dev.clone(),
                Box::new(move |_q, chain, readable| {
                    let mut b = bd.borrow_mut();
                    match decode(chain, readable) {
                        Err(e) => {
                            b.decode_errors.push(e);
                            Action::Hold
                        }
                        Ok(r) => {
                            b.seen.push(r);
                            Action::Hold
                        }
                    }
                }),
            )
        };
        cosim::install(&co);
        let mut blk = match VirtIOBlk::<LabHal, T>::new(t) {
            Ok(b) => b,
            Err(e) => {
                viol("construction", format!("{:?}", e));
                cosim::uninstall();
                return;
            }
        };
        let accepted = w.dev.borrow().driver_features;
        let indirect = accepted & F_INDIRECT != 0;
        // Queue size 16: three descriptors per request directly, one with an indirect table.
        let capacity = if indirect { 16 } else { 5 };
        let mut expected = Disk::default();
        let mut wseq = 0u8;
        for round in 0..self.rounds {
            let mut nbs: Vec<Nb> = vec![];
            // Fill until the driver refuses.
            loop {
                let k = nbs.len();
                let write = (k + round) % 2 == 1;
                let sector = 100 * (round as u64 + 1) + k as u64;
                wseq = wseq.wrapping_add(1);
                let seen_before = bd.borrow().seen.len();
                let mut nb = Nb {
                    token: 0,
                    write,
                    sector,
                    req: Box::new(BlkReq::default()),
                    resp: Box::new(BlkResp::default()),
                    buf: if write { (0..512).map(|i| (i as u8).wrapping_mul(5).wrapping_add(wseq)).collect::<Vec<u8>>().into_boxed_slice() } else { vec![0x22u8; 512].into_boxed_slice() },
                    status: None,
                    data: None,
                };
                let snap_before = hal::with(|h| h.live_share_count());
                // SAFETY: the buffers live in `nbs` until the request has been completed.
                let r = unsafe {
                    if write {
                        blk.write_blocks_nb(sector as usize, &mut nb.req, &nb.buf, &mut nb.resp)
                    } else {
                        blk.read_blocks_nb(sector as usize, &mut nb.req, &mut nb.buf, &mut nb.resp)
                    }
                };
                co.borrow_mut().service(0);
                let emitted = bd.borrow().seen.len() - seen_before;
                match r {
                    Ok(tok) => {
                        if k >= capacity {
                            viol("queue-full-not-refused", format!("request #{} was accepted with {} requests outstanding on a 16-descriptor queue ({}): capacity is {}", k + 1, k, if indirect { "indirect" } else { "direct" }, capacity));
                            break;
                        }
                        if emitted != 1 {
                            viol("request-count", format!("submission #{} emitted {} requests", k + 1, emitted));
                        } else {
                            let b = bd.borrow();
                            let q = b.seen.last().unwrap();
                            if q.typ != write as u32 || q.sector != sector || q.data_len != 512 || q.head != tok {
                                viol("request-encoding", format!("submission #{}: device decoded type {} sector {:#x} data {} head {}; caller asked for type {} sector {:#x}, token {}", k + 1, q.typ, q.sector, q.data_len, q.head, write as u32, sector, tok));
                            }
                        }
                        if nbs.iter().any(|o| o.token == tok) {
                            viol("token-reuse", format!("token {} returned for two outstanding requests", tok));
                        }
                        nb.token = tok;
                        nbs.push(nb);
                    }
                    Err(e) => {
                        if k < capacity {
                            viol("nb-submit", format!("submission #{} refused with {:?} although only {} of {} possible requests are outstanding", k + 1, e, k, capacity));
                        } else if e != Error::QueueFull || emitted != 0 || hal::with(|h| h.live_share_count()) != snap_before {
                            viol("queue-full-refusal", format!("the refused submission returned {:?}, emitted {} requests and left {} extra shares", e, emitted, hal::with(|h| h.live_share_count()) as i64 - snap_before as i64));
                        }
                        break;
                    }
                }
                if crate::engine::chooser::has_violation() {
                    break;
                }
            }
            tag("queue-filled");
            // Every outstanding chain must still be what was submitted (nothing overwritten).
            {
                let mut c = co.borrow_mut();
                c.service(0);
                let held: Vec<Chain> = c.held.get(&0).cloned().unwrap_or_default();
                drop(c);
                for h in &held {
                    match h.read_all().map_err(|e| e.to_string()).and_then(|r| decode(h, &r)) {
                        Err(e) => viol("outstanding-request-corrupted", format!("round {}: outstanding request with head {} no longer decodes after the queue was filled: {}", round, h.head, e)),
                        Ok(r) => {
                            if let Some(n) = nbs.iter().find(|n| n.token == h.head) {
                                if r.sector != n.sector || r.typ != n.write as u32 {
                                    viol("outstanding-request-corrupted", format!("round {}: outstanding request {} now reads type {} sector {:#x}, submitted as type {} sector {:#x}", round, h.head, r.typ, r.sector, n.write as u32, n.sector));
                                }
                            }
                        }
                    }
                }
                if held.len() != nbs.len() {
                    viol("outstanding-request-corrupted", format!("round {}: the device holds {} requests, the driver accepted {}", round, held.len(), nbs.len()));
                }
            }
            // The device completes them in any order; the driver consumes in used-ring order.
            while !nbs.is_empty() && !crate::engine::chooser::has_violation() {
                let held = co.borrow_mut().held_count(0);
                if held == 0 {
                    viol("request-lost", format!("{} requests outstanding but the device holds none", nbs.len()));
                    break;
                }
                let j = deviate(held, "which outstanding request the device completes (default: oldest)");
                let st = STATUSES[deviate(STATUSES.len(), "device status")];
                let chain = co.borrow().held.get(&0).unwrap()[j].clone();
                let req = match chain.read_all().map_err(|e| e.to_string()).and_then(|r| decode(&chain, &r)) {
                    Ok(r) => r,
                    Err(e) => {
                        viol("outstanding-request-corrupted", e);
                        break;
                    }
                };
                let (data, len) = bd.borrow_mut().execute(&req, st);
                if st == 0 && req.typ == 1 {
                    for (i, c) in req.write_data.chunks(512).enumerate() {
                        expected.sectors.insert(req.sector.wrapping_add(i as u64), c.to_vec());
                    }
                }
                co.borrow_mut().complete_held(0, j, &data, len);
                let Some(tok) = blk.peek_used() else {
                    viol("peek-used", "peek_used() = None although the device completed a request".into());
                    break;
                };
                if tok != chain.head {
                    viol("peek-used", format!("peek_used() = {} but the device completed {}", tok, chain.head));
                    break;
                }
                let Some(i) = nbs.iter().position(|n| n.token == tok) else {
                    viol("peek-used", format!("peek_used() = {} which is not an outstanding token", tok));
                    break;
                };
                let mut nb = nbs.remove(i);
                // SAFETY: same buffers as passed at submission.
                let r = unsafe {
                    if nb.write {
                        blk.complete_write_blocks(tok, &nb.req, &nb.buf, &mut nb.resp)
                    } else {
                        blk.complete_read_blocks(tok, &nb.req, &mut nb.buf, &mut nb.resp)
                    }
                };
                tag("nb-complete");
                if r != expect_of(st) {
                    viol("completion-status", format!("completion of token {} returned {:?} but the device reported status {:#x} for that request", tok, r, st));
                }
                if !nb.write && st == 0 && *nb.buf != data[..512] {
                    viol("completion-data", format!("read completion of token {} (sector {:#x}) returned bytes differing from what the device supplied for that request", tok, nb.sector));
                }
                if nb.write && req.write_data != *nb.buf {
                    viol("write-data", format!("the device received other bytes than the caller's for the write of sector {:#x}", nb.sector));
                }
                obs((tok as u64) << 8 | st as u64);
            }
            for e in bd.borrow_mut().decode_errors.drain(..) {
                viol("request-malformed", e);
            }
            for e in co.borrow_mut().errors.drain(..) {
                viol("chain-malformed", e);
            }
            if bd.borrow().disk.sectors != expected.sectors {
                viol("disk-contents", "device disk differs from the caller's writes".into());
            }
            if crate::engine::chooser::has_violation() {
                break;
            }
        }
        drop(blk);
        cosim::uninstall();
    }
}

/// Fills the request queue with non-blocking requests until the driver refuses, has the device
/// complete them in an explored order with explored statuses, and repeats.
pub fn run_full(tkind: TKind, rounds: usize) {
    hal::reset();
    let feats = [F_VERSION_1, F_VERSION_1 | F_INDIRECT, F_VERSION_1 | F_EVENT_IDX, F_VERSION_1 | F_INDIRECT | F_EVENT_IDX];
    let offered = feats[choose(feats.len(), "offered features")];
    let mut cfg = Kind::Blk.default_config();
    cfg[0..8].copy_from_slice(&0x1_0000_0008u64.to_le_bytes());
    let w = DWorld::new(Kind::Blk, tkind, offered, cfg);
    w.with_transport(VFull { rounds });
    mmio::set_handler(None);
}

// ------------------------------------------------------------------------------------------------
// A long session: more than 65536 requests through one driver instance (the ring indices wrap),
// blocking writes and reads interleaved with pairs of non-blocking reads completed newest first.

pub fn run_linear(tkind: TKind, requests: u32) -> (u64, Vec<(String, String)>) {
    struct VL {
        requests: u32,
    }
    impl TransportVisitor for VL {
        type Out = (u64, Vec<(String, String)>);
        fn visit<T: Transport + 'static>(self, t: T, w: &DWorld) -> Self::Out {
            let bd = Rc::new(RefCell::new(BlkDev { id_variant: 0, disk: Disk::default(), decode_errors: vec![], seen: vec![] }));
            let hold: Rc<RefCell<bool>> = Rc::new(RefCell::new(false));
            let co: CoRc = {
                let bd = bd.clone();
                let hold = hold.clone();
                CoDevice::new(
                    w.dev.clone(),
                    Box::new(move |_q, chain, readable| {
                        let mut b = bd.borrow_mut();
                        match decode(chain, readable) {
                            Err(e) => {
                                b.decode_errors.push(e);
                                let wl = chain.writable_len();
                                Action::Complete(vec![1u8; wl], wl as u32)
                            }
                            Ok(r) => {
                                if *hold.borrow() {
                                    Action::Hold
                                } else {
                                    let (data, len) = b.execute(&r, 0);
                                    Action::Complete(data, len)
                                }
                            }
                        }
                    }),
                )
            };
            co.borrow_mut().spin_horizon = 8;
            cosim::install(&co);
            let mut out: Vec<(String, String)> = vec![];
            let mut blk = match VirtIOBlk::<LabHal, T>::new(t) {
                Ok(b) => b,
                Err(e) => {
                    cosim::uninstall();
                    return (0, vec![("construction".into(), format!("{:?}", e))]);
                }
            };
            let mut expected = Disk::default();
            let mut n = 0u64;
            let mut i = 0u32;
            // Long requests first: 130 and 257 sectors in one call (one request each, the data
            // part being the caller's whole buffer), read back in one call and sector by sector.
            for (start, nsec) in [(10u64, 130usize), (200, 257)] {
                let buf: Vec<u8> = (0..512 * nsec).map(|k| ((k / 512) as u8).wrapping_mul(3).wrapping_add(k as u8).wrapping_add(nsec as u8)).collect();
                let seen_before = co.borrow().served.len();
                if blk.write_blocks(start as usize, &buf) != Ok(()) {
                    out.push(("long-request".into(), format!("write_blocks({}, {} sectors) failed", start, nsec)));
                    break;
                }
                let emitted = co.borrow().served.len() - seen_before;
                if emitted != 1 {
                    out.push(("request-count".into(), format!("write_blocks({}, {} sectors) sent {} requests, expected one", start, nsec, emitted)));
                }
                for (k, c) in buf.chunks(512).enumerate() {
                    expected.sectors.insert(start + k as u64, c.to_vec());
                }
                let mut back = vec![0u8; 512 * nsec];
                let r = blk.read_blocks(start as usize, &mut back);
                if r != Ok(()) || back != buf {
                    out.push(("long-request".into(), format!("read_blocks({}, {} sectors) -> {:?}, data {} what was written", start, nsec, r, if back == buf { "equal to" } else { "differing from" })));
                }
                for k in [0usize, 1, 127, 128, 129, nsec - 1] {
                    if bd.borrow().disk.read(start + k as u64) != buf[512 * k..512 * k + 512] {
                        out.push(("long-request".into(), format!("after write_blocks({}, {} sectors) sector {} of the device does not hold the caller's sector {}", start, nsec, start + k as u64, k)));
                        break;
                    }
                }
                n += 2;
            }
            while i < self.requests {
                let sector = (i % 7) as u64;
                match i % 5 {
                    0 | 2 => {
                        let buf: Vec<u8> = (0..512).map(|k| (k as u8).wrapping_mul(5).wrapping_add(i as u8)).collect();
                        if blk.write_blocks(sector as usize, &buf) != Ok(()) {
                            out.push(("linear-run".into(), format!("request {}: write_blocks({}) failed", i, sector)));
                            break;
                        }
                        expected.sectors.insert(sector, buf);
                        i += 1;
                    }
                    1 | 3 => {
                        let mut buf = vec![0u8; 512];
                        let r = blk.read_blocks(sector as usize, &mut buf);
                        if r != Ok(()) || buf != expected.read(sector) {
                            out.push(("linear-run".into(), format!("request {}: read_blocks({}) -> {:?} with data {} the disk contents", i, sector, r, if buf == expected.read(sector) { "equal to" } else { "differing from" })));
                            break;
                        }
                        i += 1;
                    }
                    _ => {
                        // Two non-blocking reads in flight, completed newest first.
                        *hold.borrow_mut() = true;
                        let mut reqs = [BlkReq::default(), BlkReq::default()];
                        let mut resps = [BlkResp::default(), BlkResp::default()];
                        let mut bufs = [vec![0u8; 512], vec![0u8; 512]];
                        let mut toks = vec![];
                        let (r0, r1) = reqs.split_at_mut(1);
                        let (p0, p1) = resps.split_at_mut(1);
                        let (b0, b1) = bufs.split_at_mut(1);
                        // SAFETY: the buffers live until both requests are completed below.
                        toks.push(unsafe { blk.read_blocks_nb(sector as usize, &mut r0[0], &mut b0[0], &mut p0[0]) });
                        toks.push(unsafe { blk.read_blocks_nb(sector as usize + 1, &mut r1[0], &mut b1[0], &mut p1[0]) });
                        *hold.borrow_mut() = false;
                        let (Ok(t0), Ok(t1)) = (toks[0], toks[1]) else {
                            out.push(("linear-run".into(), format!("request {}: read_blocks_nb -> {:?}", i, toks)));
                            break;
                        };
                        let mut ok = true;
                        for j in [1usize, 0] {
                            let held: Vec<crate::ring::Chain> = {
                                let mut c = co.borrow_mut();
                                c.service(0);
                                c.held.get(&0).cloned().unwrap_or_default()
                            };
                            let want_head = if j == 1 { t1 } else { t0 };
                            let Some(pos) = held.iter().position(|c| c.head == want_head) else {
                                ok = false;
                                break;
                            };
                            let chain = held[pos].clone();
                            let req = chain.read_all().map_err(|e| e.to_string()).and_then(|r| decode(&chain, &r));
                            let Ok(req) = req else {
                                ok = false;
                                break;
                            };
                            let (data, len) = bd.borrow_mut().execute(&req, 0);
                            co.borrow_mut().complete_held(0, pos, &data, len);
                            if blk.peek_used() != Some(want_head) {
                                ok = false;
                                break;
                            }
                            // SAFETY: the same buffers as submitted.
                            let r = unsafe {
                                if j == 1 {
                                    blk.complete_read_blocks(t1, &r1[0], &mut b1[0], &mut p1[0])
                                } else {
                                    blk.complete_read_blocks(t0, &r0[0], &mut b0[0], &mut p0[0])
                                }
                            };
                            let got = if j == 1 { &b1[0] } else { &b0[0] };
                            if r != Ok(()) || *got != expected.read(sector + j as u64) {
                                ok = false;
                                break;
                            }
                        }
                        if !ok {
                            out.push(("linear-run".into(), format!("requests {}..{}: two non-blocking reads completed newest first were not both delivered with their own data", i, i + 1)));
                            break;
                        }
                        i += 2;
                    }
                }
                n += 1;
                if !bd.borrow().decode_errors.is_empty() {
                    out.push(("request-malformed".into(), bd.borrow().decode_errors[0].clone()));
                    break;
                }
                if n % 2048 == 0 {
                    hal::with(|h| h.compact());
                    co.borrow_mut().served.clear();
                    bd.borrow_mut().seen.clear();
                }
            }
            drop(blk);
            cosim::uninstall();
            (n, out)
        }
    }
    hal::reset();
    let mut cfg = Kind::Blk.default_config();
    cfg[0..8].copy_from_slice(&0x1_0000_0008u64.to_le_bytes());
    let w = DWorld::new(Kind::Blk, tkind, F_VERSION_1 | F_FLUSH | F_INDIRECT | F_EVENT_IDX, cfg);
    let r = w.with_transport(VL { requests });
    mmio::set_handler(None);
    r
}
