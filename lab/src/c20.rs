//! C20 (part 1): GPU, entropy, clock and 9P command/response drivers against reference devices
//! decoding every chain from the specification's structures.

use crate::cosim::{self, Action, CoDevice, CoRc};
use crate::drivers::{DWorld, Kind, TKind, TransportVisitor, F_EVENT_IDX, F_INDIRECT, F_VERSION_1};
use crate::engine::chooser::{choose, deviate, obs, report, tag};
use crate::engine::Violation;
use crate::hal::{self, LabHal};
use crate::mmio;
use crate::tlog;
use std::cell::RefCell;
use std::collections::BTreeMap;
use std::rc::Rc;
use virtio_drivers::device::gpu::VirtIOGpu;
use virtio_drivers::device::rng::VirtIORng;
use virtio_drivers::device::rtc::{ClockType, SmearingVariant, VirtIORtc};
use virtio_drivers::device::virtio_9p::VirtIO9p;
use virtio_drivers::transport::Transport;
use virtio_drivers::{Error, PAGE_SIZE};

fn viol(kind: &str, d: String) {
    report(Violation::new("C20", kind, d));
}

fn u32at(b: &[u8], o: usize) -> u32 {
    u32::from_le_bytes(b[o..o + 4].try_into().unwrap())
}
fn u64at(b: &[u8], o: usize) -> u64 {
    u64::from_le_bytes(b[o..o + 8].try_into().unwrap())
}

// ------------------------------------------------------------------------------------------
// GPU reference device (virtio spec 5.7.6).

pub const CMD_GET_DISPLAY_INFO: u32 = 0x100;
pub const CMD_CREATE_2D: u32 = 0x101;
pub const CMD_UNREF: u32 = 0x102;
pub const CMD_SET_SCANOUT: u32 = 0x103;
pub const CMD_FLUSH: u32 = 0x104;
pub const CMD_TRANSFER: u32 = 0x105;
pub const CMD_ATTACH: u32 = 0x106;
pub const CMD_DETACH: u32 = 0x107;
pub const CMD_GET_EDID: u32 = 0x10a;
pub const CMD_UPDATE_CURSOR: u32 = 0x300;
pub const CMD_MOVE_CURSOR: u32 = 0x301;
pub const RESP_OK_NODATA: u32 = 0x1100;
pub const RESP_OK_DISPLAY_INFO: u32 = 0x1101;
pub const RESP_OK_EDID: u32 = 0x1104;
pub const RESP_ERR_UNSPEC: u32 = 0x1200;
pub const RESP_ERR_INVALID_RESOURCE: u32 = 0x1203;

#[derive(Clone, Debug, PartialEq, Eq)]
pub enum GpuCmd {
    GetDisplayInfo,
    Create2D { id: u32, format: u32, w: u32, h: u32 },
    Unref { id: u32 },
    SetScanout { x: u32, y: u32, w: u32, h: u32, scanout: u32, id: u32 },
    Flush { x: u32, y: u32, w: u32, h: u32, id: u32 },
    Transfer { x: u32, y: u32, w: u32, h: u32, offset: u64, id: u32 },
    Attach { id: u32, entries: Vec<(u64, u32)> },
    Detach { id: u32 },
    GetEdid { scanout: u32 },
    UpdateCursor { scanout: u32, x: u32, y: u32, id: u32, hot_x: u32, hot_y: u32 },
    MoveCursor { scanout: u32, x: u32, y: u32, id: u32 },
    Unknown(u32),
}

pub fn decode_gpu(b: &[u8], errs: &mut Vec<String>) -> GpuCmd {
    if b.len() < 24 {
        errs.push(format!("GPU request of {} bytes is shorter than a control header", b.len()));
        return GpuCmd::Unknown(0);
    }
    let typ = u32at(b, 0);
    if u32at(b, 4) != 0 || u64at(b, 8) != 0 || u32at(b, 16) != 0 {
        errs.push(format!("control header of command {:#x} has flags {:#x} fence {:#x} ctx {:#x}; all must be zero without fencing", typ, u32at(b, 4), u64at(b, 8), u32at(b, 16)));
    }
    let need = |n: usize, errs: &mut Vec<String>| {
        if b.len() < n {
            errs.push(format!("command {:#x} needs {} bytes, chain has {}", typ, n, b.len()));
            false
        } else {
            true
        }
    };
    match typ {
        CMD_GET_DISPLAY_INFO => GpuCmd::GetDisplayInfo,
        CMD_CREATE_2D if need(40, errs) => GpuCmd::Create2D { id: u32at(b, 24), format: u32at(b, 28), w: u32at(b, 32), h: u32at(b, 36) },
        CMD_UNREF if need(32, errs) => GpuCmd::Unref { id: u32at(b, 24) },
        CMD_SET_SCANOUT if need(48, errs) => GpuCmd::SetScanout { x: u32at(b, 24), y: u32at(b, 28), w: u32at(b, 32), h: u32at(b, 36), scanout: u32at(b, 40), id: u32at(b, 44) },
        CMD_FLUSH if need(48, errs) => GpuCmd::Flush { x: u32at(b, 24), y: u32at(b, 28), w: u32at(b, 32), h: u32at(b, 36), id: u32at(b, 40) },
        CMD_TRANSFER if need(56, errs) => GpuCmd::Transfer { x: u32at(b, 24), y: u32at(b, 28), w: u32at(b, 32), h: u32at(b, 36), offset: u64at(b, 40), id: u32at(b, 48) },
        CMD_ATTACH if need(32, errs) => {
            let n = u32at(b, 28) as usize;
            let mut entries = vec![];
            for i in 0..n.min(8) {
                if need(32 + 16 * (i + 1), errs) {
                    entries.push((u64at(b, 32 + 16 * i), u32at(b, 40 + 16 * i)));
                }
            }
            GpuCmd::Attach { id: u32at(b, 24), entries }
        }
        CMD_DETACH if need(32, errs) => GpuCmd::Detach { id: u32at(b, 24) },
        CMD_GET_EDID if need(32, errs) => GpuCmd::GetEdid { scanout: u32at(b, 24) },
        CMD_UPDATE_CURSOR if need(56, errs) => GpuCmd::UpdateCursor { scanout: u32at(b, 24), x: u32at(b, 28), y: u32at(b, 32), id: u32at(b, 40), hot_x: u32at(b, 44), hot_y: u32at(b, 48) },
        CMD_MOVE_CURSOR if need(56, errs) => GpuCmd::MoveCursor { scanout: u32at(b, 24), x: u32at(b, 28), y: u32at(b, 32), id: u32at(b, 40) },
        t => GpuCmd::Unknown(t),
    }
}

#[derive(Clone, Debug, Default)]
pub struct GpuRes {
    pub w: u32,
    pub h: u32,
    pub backing: Vec<(u64, u32)>,
    pub transferred: bool,
}

#[derive(Default)]
pub struct GpuDev {
    pub res: BTreeMap<u32, GpuRes>,
    pub scanout: Option<(u32, (u32, u32, u32, u32))>,
    pub display: (u32, u32),
    pub edid: Vec<u8>,
    pub edid_size: u32,
    pub log: Vec<(u16, GpuCmd, u32)>,
    pub errs: Vec<String>,
    /// Response override for the n-th next command: (countdown, response type).
    pub inject: Option<u32>,
    pub flush_without_transfer: u32,
}

fn ctrl(typ: u32) -> Vec<u8> {
    let mut v = typ.to_le_bytes().to_vec();
    v.extend([0u8; 20]);
    v
}

impl GpuDev {
    /// Executes a command; returns the response bytes.
    pub fn exec(&mut self, q: u16, cmd: &GpuCmd, inject: Option<u32>) -> Vec<u8> {
        if let Some(r) = inject {
            self.log.push((q, cmd.clone(), r));
            return ctrl(r);
        }
        let mut resp = ctrl(RESP_OK_NODATA);
        let mut status = RESP_OK_NODATA;
        match cmd {
            GpuCmd::GetDisplayInfo => {
                resp = ctrl(RESP_OK_DISPLAY_INFO);
                for i in 0..16 {
                    let (w, h, en) = if i == 0 { (self.display.0, self.display.1, 1u32) } else { (0, 0, 0) };
                    resp.extend(0u32.to_le_bytes());
                    resp.extend(0u32.to_le_bytes());
                    resp.extend(w.to_le_bytes());
                    resp.extend(h.to_le_bytes());
                    resp.extend(en.to_le_bytes());
                    resp.extend(0u32.to_le_bytes());
                }
                status = RESP_OK_DISPLAY_INFO;
            }
            GpuCmd::Create2D { id, w, h, .. } => {
                if *id == 0 || self.res.contains_key(id) {
                    status = RESP_ERR_INVALID_RESOURCE;
                } else {
                    self.res.insert(*id, GpuRes { w: *w, h: *h, ..Default::default() });
                }
            }
            GpuCmd::Unref { id } => {
                if self.res.remove(id).is_none() {
                    status = RESP_ERR_INVALID_RESOURCE;
                }
                if self.scanout.map(|s| s.0) == Some(*id) {
                    self.scanout = None;
                }
            }
            GpuCmd::SetScanout { x, y, w, h, id, .. } => {
                if *id == 0 {
                    self.scanout = None;
                } else if self.res.contains_key(id) {
                    self.scanout = Some((*id, (*x, *y, *w, *h)));
                } else {
                    status = RESP_ERR_INVALID_RESOURCE;
                }
            }
            GpuCmd::Flush { id, .. } => match self.res.get(id) {
                Some(r) => {
                    if !r.transferred {
                        self.flush_without_transfer += 1;
                    }
                }
                None => status = RESP_ERR_INVALID_RESOURCE,
            },
            GpuCmd::Transfer { id, .. } => match self.res.get_mut(id) {
                Some(r) if !r.backing.is_empty() => r.transferred = true,
                _ => status = RESP_ERR_INVALID_RESOURCE,
            },
            GpuCmd::Attach { id, entries } => match self.res.get_mut(id) {
                Some(r) => r.backing = entries.clone(),
                None => status = RESP_ERR_INVALID_RESOURCE,
            },
            GpuCmd::Detach { id } => match self.res.get_mut(id) {
                Some(r) => r.backing.clear(),
                None => status = RESP_ERR_INVALID_RESOURCE,
            },
            GpuCmd::GetEdid { .. } => {
                resp = ctrl(RESP_OK_EDID);
                resp.extend(self.edid_size.to_le_bytes());
                resp.extend(0u32.to_le_bytes());
                let mut e = self.edid.clone();
                e.resize(1024, 0);
                resp.extend(e);
                status = RESP_OK_EDID;
            }
            GpuCmd::UpdateCursor { .. } | GpuCmd::MoveCursor { .. } => {}
            GpuCmd::Unknown(_) => status = RESP_ERR_UNSPEC,
        }
        if status != RESP_OK_NODATA && status != RESP_OK_DISPLAY_INFO && status != RESP_OK_EDID {
            resp = ctrl(status);
        }
        self.log.push((q, cmd.clone(), status));
        resp
    }
    /// All regions currently attached as backing of some resource.
    pub fn attached(&self) -> Vec<(u32, u64, u32)> {
        self.res.iter().flat_map(|(id, r)| r.backing.iter().map(move |b| (*id, b.0, b.1))).collect()
    }
}

pub const RES_FB: u32 = 0xbabe;
pub const RES_CURSOR: u32 = 0xdade;

struct VGpu {
    depth: usize,
}

const RESOLUTIONS: [(u32, u32); 4] = [(1, 1), (32, 32), (33, 32), (1024, 2)];

impl TransportVisitor for VGpu {
    type Out = ();
    fn visit<T: Transport + 'static>(self, t: T, w: &DWorld) {
        let gd = Rc::new(RefCell::new(GpuDev { display: (80, 60), ..Default::default() }));
        let device_errors = Rc::new(RefCell::new(0u32));
        let co: CoRc = {
            let gd = gd.clone();
            let de = device_errors.clone();
            CoDevice::new(
                w.dev.clone(),
                Box::new(move |q, chain, readable| {
                    let mut g = gd.borrow_mut();
                    let mut errs = vec![];
                    let cmd = decode_gpu(readable, &mut errs);
                    g.errs.extend(errs);
                    if q == 0 && chain.writable_len() < 24 {
                        g.errs.push(format!("control request has only {} writable bytes for the response", chain.writable_len()));
                    }
                    if q == 1 && chain.writable_len() != 0 {
                        g.errs.push("cursor request has a device-writable part".into());
                    }
                    // Device response: default honest; deviations = error / wrong success type.
                    let inj = if q == 0 {
                        match deviate(3, "GPU response (default: honest)") {
                            0 => None,
                            1 => Some(RESP_ERR_UNSPEC),
                            _ => Some(if cmd == GpuCmd::GetDisplayInfo { RESP_OK_NODATA } else { RESP_OK_DISPLAY_INFO }),
                        }
                    } else {
                        None
                    };
                    if inj.is_some() {
                        *de.borrow_mut() += 1;
                    }
                    if let GpuCmd::Attach { id, entries } = &cmd {
                        for (a, l) in entries {
                            if !hal::with(|h| h.dma_containing(*a, *l as usize).is_some()) {
                                g.errs.push(format!("backing {:#x}+{} attached to resource {:#x} is not wholly inside live DMA memory", a, l, id));
                            }
                        }
                    }
                    let resp = g.exec(q, &cmd, inj);
                    let n = resp.len().min(chain.writable_len());
                    Action::Complete(resp[..n].to_vec(), n as u32)
                }),
            )
        };
        co.borrow_mut().spin_horizon = 8;
        cosim::install(&co);
        // Backing must stay allocated while attached (absent device errors).
        {
            let gd = gd.clone();
            let de = device_errors.clone();
            let vdev = w.dev.clone();
            hal::with(|h| {
                h.dealloc_hook = Some(Box::new(move |paddr, pages| {
                    let Ok(g) = gd.try_borrow() else { return None };
                    if *de.borrow() != 0 {
                        return None;
                    }
                    // A reset device has forgotten all its resources.
                    if vdev.try_borrow().map(|d| d.status & crate::dev::ST_DRIVER_OK == 0).unwrap_or(true) {
                        return None;
                    }
                    let end = paddr + (pages * PAGE_SIZE) as u64;
                    for (id, a, l) in g.attached() {
                        if a < end && paddr < a + l as u64 {
                            return Some(("backing-freed-while-attached".to_string(), format!("DMA region {:#x} (+{} pages) returned to the platform while it is attached as backing of resource {:#x}", paddr, pages, id)));
                        }
                    }
                    None
                }));
            });
        }
        let mut gpu = match VirtIOGpu::<LabHal, T>::new(t) {
            Ok(g) => g,
            Err(e) => {
                viol("construction", format!("{:?}", e));
                cosim::uninstall();
                return;
            }
        };
        // Model of the driver's own view: the rectangle it remembers and whether it holds a
        // framebuffer allocation.
        let mut have_fb: Option<(u32, u32)> = None;
        let mut drv_fb = false;
        let mut have_cursor = false;
        for step in 0..self.depth {
            let log_before = gd.borrow().log.len();
            let errs_before = *device_errors.borrow();
            let op = choose(4 + RESOLUTIONS.len() + 2, "GPU operation");
            let mut expect: Vec<GpuCmd> = vec![];
            let res: Result<(), Error>;
            let mut what = String::new();
            match op {
                0 => {
                    let r = gpu.resolution();
                    what = format!("resolution() -> {:?}", r);
                    expect.push(GpuCmd::GetDisplayInfo);
                    if let Ok(v) = r {
                        if *device_errors.borrow() == errs_before && v != (80, 60) {
                            viol("resolution-value", format!("resolution() = {:?}, device reported 80x60", v));
                        }
                    }
                    res = r.map(|_| ());
                    tag("gpu:resolution");
                }
                1 => {
                    let r = gpu.flush();
                    what = format!("flush() -> {:?}", r);
                    match have_fb {
                        Some((w_, h_)) => {
                            expect.push(GpuCmd::Transfer { x: 0, y: 0, w: w_, h: h_, offset: 0, id: RES_FB });
                            expect.push(GpuCmd::Flush { x: 0, y: 0, w: w_, h: h_, id: RES_FB });
                        }
                        None => {
                            if r != Err(Error::NotReady) || gd.borrow().log.len() != log_before {
                                viol("flush-without-framebuffer", format!("flush() before any resolution was set -> {:?}", r));
                            }
                        }
                    }
                    res = r;
                    tag("gpu:flush");
                }
                2 => {
                    let img = vec![0x7fu8; 64 * 64 * 4];
                    let r = gpu.setup_cursor(&img, 10, 20, 3, 4);
                    what = format!("setup_cursor -> {:?}", r);
                    expect.push(GpuCmd::Create2D { id: RES_CURSOR, format: 1, w: 64, h: 64 });
                    expect.push(GpuCmd::Attach { id: RES_CURSOR, entries: vec![(0, 64 * 64 * 4)] });
                    expect.push(GpuCmd::Transfer { x: 0, y: 0, w: 64, h: 64, offset: 0, id: RES_CURSOR });
                    expect.push(GpuCmd::UpdateCursor { scanout: 0, x: 10, y: 20, id: RES_CURSOR, hot_x: 3, hot_y: 4 });
                    if r.is_ok() {
                        have_cursor = true;
                    }
                    res = r;
                    tag("gpu:setup_cursor");
                }
                3 => {
                    let r = gpu.move_cursor(7, 9);
                    what = format!("move_cursor -> {:?}", r);
                    expect.push(GpuCmd::MoveCursor { scanout: 0, x: 7, y: 9, id: RES_CURSOR });
                    res = r;
                    tag("gpu:move_cursor");
                }
                x if x < 4 + RESOLUTIONS.len() => {
                    let (w_, h_) = RESOLUTIONS[x - 4];
                    let r = gpu.change_resolution(w_, h_).map(|fb| fb.len());
                    what = format!("change_resolution({}, {}) -> {:?}", w_, h_, r);
                    if drv_fb {
                        expect.push(GpuCmd::SetScanout { x: 0, y: 0, w: 0, h: 0, scanout: 0, id: 0 });
                        expect.push(GpuCmd::Detach { id: RES_FB });
                        expect.push(GpuCmd::Unref { id: RES_FB });
                    }
                    expect.push(GpuCmd::Create2D { id: RES_FB, format: 1, w: w_, h: h_ });
                    expect.push(GpuCmd::Attach { id: RES_FB, entries: vec![(0, w_ * h_ * 4)] });
                    expect.push(GpuCmd::SetScanout { x: 0, y: 0, w: w_, h: h_, scanout: 0, id: RES_FB });
                    match &r {
                        Ok(len) => {
                            if *len < (w_ * h_ * 4) as usize {
                                viol("framebuffer-size", format!("framebuffer slice of {} bytes for {}x{}", len, w_, h_));
                            }
                        }
                        Err(_) => {}
                    }
                    res = r.map(|_| ());
                    tag("gpu:change_resolution");
                }
                x if x == 4 + RESOLUTIONS.len() => {
                    let r = gpu.setup_framebuffer().map(|fb| fb.len());
                    what = format!("setup_framebuffer -> {:?}", r);
                    expect.push(GpuCmd::GetDisplayInfo);
                    if drv_fb {
                        expect.push(GpuCmd::SetScanout { x: 0, y: 0, w: 0, h: 0, scanout: 0, id: 0 });
                        expect.push(GpuCmd::Detach { id: RES_FB });
                        expect.push(GpuCmd::Unref { id: RES_FB });
                    }
                    expect.push(GpuCmd::Create2D { id: RES_FB, format: 1, w: 80, h: 60 });
                    expect.push(GpuCmd::Attach { id: RES_FB, entries: vec![(0, 80 * 60 * 4)] });
                    expect.push(GpuCmd::SetScanout { x: 0, y: 0, w: 80, h: 60, scanout: 0, id: RES_FB });
                    res = r.map(|_| ());
                    tag("gpu:setup_framebuffer");
                }
                _ => {
                    let r = gpu.get_edid(0);
                    what = format!("get_edid -> {:?}", r.as_ref().map(|_| ()));
                    // EDID not negotiated in this harness part unless offered.
                    if w.dev.borrow().driver_features & 2 != 0 {
                        expect.push(GpuCmd::GetEdid { scanout: 0 });
                    } else if !matches!(r, Err(Error::Unsupported)) {
                        viol("edid-gating", "get_edid without EDID negotiated did not return Unsupported".into());
                    }
                    res = r.map(|_| ());
                    tag("gpu:get_edid");
                }
            }
            tlog!("step {}: {}", step, what);
            if op >= 4 && op <= 4 + RESOLUTIONS.len() {
                // The driver forgets its old framebuffer once the old resource was unreferenced,
                // remembers the new rectangle from then on, and holds the new one on success.
                let g = gd.borrow();
                let ops_log = &g.log[log_before..];
                let teardown_failed = drv_fb && !ops_log.iter().any(|l| matches!(l.1, GpuCmd::Unref { .. }) && l.2 == RESP_OK_NODATA);
                let display_failed = op == 4 + RESOLUTIONS.len() && ops_log.first().map(|l| l.2 != RESP_OK_DISPLAY_INFO).unwrap_or(true);
                if !teardown_failed && !display_failed {
                    drv_fb = res.is_ok();
                    let target = if op == 4 + RESOLUTIONS.len() { (80, 60) } else { RESOLUTIONS[op - 4] };
                    have_fb = Some(target);
                }
            }
            let g = gd.borrow();
            let got: Vec<(GpuCmd, u32)> = g.log[log_before..].iter().map(|l| (l.1.clone(), l.2)).collect();
            let injected = *device_errors.borrow() != errs_before;
            // Every non-success response must surface as an error.
            let first_bad = got.iter().position(|(c, st)| {
                let ok = match c {
                    GpuCmd::GetDisplayInfo => *st == RESP_OK_DISPLAY_INFO,
                    GpuCmd::GetEdid { .. } => *st == RESP_OK_EDID,
                    GpuCmd::UpdateCursor { .. } | GpuCmd::MoveCursor { .. } => true,
                    _ => *st == RESP_OK_NODATA,
                };
                !ok
            });
            if let Some(i) = first_bad {
                if res.is_ok() {
                    viol("error-response-ignored", format!("{}: the device answered {:#x} to {:?} but the operation reported success", what, got[i].1, got[i].0));
                }
                if got.len() > i + 1 {
                    viol("continued-after-error", format!("{}: commands {:?} were sent after the device answered {:#x} to {:?}", what, &got[i + 1..].iter().map(|g| &g.0).collect::<Vec<_>>(), got[i].1, got[i].0));
                }
            } else if res.is_err() && !expect.is_empty() && got.len() == expect.len() {
                viol("spurious-error", format!("{}: every response was the expected success type", what));
            }
            // Command sequence and encodings (addresses of backing are checked against the ledger).
            let upto = first_bad.map(|i| i + 1).unwrap_or(got.len());
            let gotc: Vec<GpuCmd> = got[..upto].iter().map(|g| g.0.clone()).collect();
            let mut expn = expect.clone();
            expn.truncate(upto.max(if first_bad.is_some() { upto } else { expect.len() }));
            let norm = |c: &GpuCmd| -> GpuCmd {
                match c {
                    GpuCmd::Attach { id, entries } => GpuCmd::Attach { id: *id, entries: entries.iter().map(|e| (0, e.1)).collect() },
                    c => c.clone(),
                }
            };
            let gn: Vec<GpuCmd> = gotc.iter().map(norm).collect();
            if first_bad.is_none() && gn != expn || first_bad.is_some() && gn[..] != expn[..upto.min(expn.len())] {
                viol("command-sequence", format!("{}: device decoded {:?}, the operation must emit {:?}", what, gn, expn));
            }
            if g.flush_without_transfer != 0 && !injected {
                viol("flush-before-transfer", "RESOURCE_FLUSH before any TRANSFER_TO_HOST_2D of that resource".into());
            }
            for e in &g.errs {
                viol("request-malformed", e.clone());
            }
            drop(g);
            gd.borrow_mut().errs.clear();
            for (k, d) in hal::with(|h| std::mem::take(&mut h.faults)) {
                if k != "dma_alloc-zero-pages" {
                    viol(&k, d);
                }
            }
            for e in co.borrow_mut().errors.drain(..) {
                viol("chain-malformed", e);
            }
            let _ = have_cursor;
            obs(gd.borrow().log.len() as u64);
            if crate::engine::chooser::has_violation() {
                break;
            }
        }
        drop(gpu);
        for (k, d) in hal::with(|h| std::mem::take(&mut h.faults)) {
            if k != "dma_alloc-zero-pages" {
                viol(&k, d);
            }
        }
        if hal::with(|h| h.live_dma_count()) != 0 {
            viol("dma-leak", "DMA regions still allocated after the GPU driver was dropped".into());
        }
        cosim::uninstall();
    }
}

pub fn run_gpu(tkind: TKind, depth: usize) {
    hal::reset();
    // The driver keeps its command and response buffers to itself: a buffer that is rewritten
    // while a request naming it is still shared with the device shows at unshare.
    hal::with(|h| h.watch_writes = true);
    let feats = [F_VERSION_1 | 2, F_VERSION_1 | F_INDIRECT | F_EVENT_IDX];
    let offered = feats[choose(feats.len(), "offered features")];
    let w = DWorld::new(Kind::Gpu, tkind, offered, Kind::Gpu.default_config());
    w.with_transport(VGpu { depth });
    mmio::set_handler(None);
}

// ------------------------------------------------------------------------------------------
// Entropy, clock, 9P.

struct VSmall {
    kind: Kind,
}

impl TransportVisitor for VSmall {
    type Out = ();
    fn visit<T: Transport + 'static>(self, t: T, w: &DWorld) {
        let seen: Rc<RefCell<Vec<(Vec<u8>, usize)>>> = Rc::new(RefCell::new(vec![]));
        let plan: Rc<RefCell<Option<(Vec<u8>, u32)>>> = Rc::new(RefCell::new(None));
        let co: CoRc = {
            let seen = seen.clone();
            let plan = plan.clone();
            CoDevice::new(
                w.dev.clone(),
                Box::new(move |_q, chain, readable| {
                    seen.borrow_mut().push((readable.to_vec(), chain.writable_len()));
                    let (data, len) = plan.borrow().clone().unwrap_or((vec![], 0));
                    Action::Complete(data, len)
                }),
            )
        };
        co.borrow_mut().spin_horizon = 8;
        cosim::install(&co);
        match self.kind {
            Kind::Rng => {
                let mut rng = VirtIORng::<LabHal, T>::new(t).expect("rng");
                for n in [1usize, 7, 64] {
                    let k = [n, 0, 1][choose(3, "bytes of entropy supplied")].min(n);
                    let data: Vec<u8> = (0..k).map(|i| 0x80 + i as u8).collect();
                    *plan.borrow_mut() = Some((data.clone(), k as u32));
                    let mut dst = vec![0u8; n];
                    let r = rng.request_entropy(&mut dst);
                    tag("rng:request");
                    let s = seen.borrow();
                    let last = s.last().unwrap();
                    if !last.0.is_empty() || last.1 != n {
                        viol("rng-request-shape", format!("entropy request has {} readable and {} writable bytes for a {}-byte buffer", last.0.len(), last.1, n));
                    }
                    if r != Ok(k) || dst[..k] != data[..] {
                        viol("rng-result", format!("request_entropy({}) -> {:?}, device supplied {} bytes", n, r, k));
                    }
                    obs(k as u64);
                }
                drop(rng);
            }
            Kind::Rtc => {
                let mut rtc = VirtIORtc::<LabHal, T>::new(t).expect("rtc");
                let statuses = [0u8, 2, 3, 4, 5, 9];
                let want_err = |st: u8| match st {
                    0 => None,
                    2 => Some(Error::Unsupported),
                    3 | 4 => Some(Error::InvalidParam),
                    _ => Some(Error::IoError),
                };
                // num_clocks
                let st = statuses[deviate(statuses.len(), "clock device status")];
                let mut resp = vec![st, 0, 0, 0, 0, 0, 0, 0];
                resp.extend(7u16.to_le_bytes());
                resp.extend([0u8; 6]);
                *plan.borrow_mut() = Some((resp.clone(), 16));
                let r = rtc.num_clocks();
                tag("rtc:num_clocks");
                {
                    let s = seen.borrow();
                    let (req, wl) = s.last().unwrap();
                    if req[..] != [0x00, 0x10, 0, 0, 0, 0, 0, 0] || *wl != 16 {
                        viol("rtc-encoding", format!("CFG request is {:x?} with {} writable bytes", req, wl));
                    }
                }
                match (want_err(st), r) {
                    (None, Ok(7)) => {}
                    (Some(e), Err(g)) if e == g => {}
                    (w_, g) => viol("rtc-result", format!("num_clocks with status {} -> {:?}, expected {:?}", st, g, w_)),
                }
                // clock_cap over types and smearing values
                for clock in [0u16, 0x1234] {
                    let (typ, smear, flags) = if clock == 0 { (choose(6, "clock type") as u8, choose(4, "smearing") as u8, choose(2, "alarm flag") as u8) } else { (3, 2, 1) };
                    let st = statuses[deviate(statuses.len(), "clock device status")];
                    let mut resp = vec![st, 0, 0, 0, 0, 0, 0, 0, typ, smear, flags, 0, 0, 0, 0, 0];
                    resp.truncate(16);
                    *plan.borrow_mut() = Some((resp, 16));
                    let r = rtc.clock_cap(clock);
                    tag("rtc:clock_cap");
                    {
                        let s = seen.borrow();
                        let (req, wl) = s.last().unwrap();
                        let mut want = vec![0x01, 0x10, 0, 0, 0, 0, 0, 0];
                        want.extend(clock.to_le_bytes());
                        want.extend([0u8; 6]);
                        if *req != want || *wl != 16 {
                            viol("rtc-encoding", format!("CLOCK_CAP request is {:x?} (expected {:x?}) with {} writable bytes", req, want, wl));
                        }
                    }
                    let want_kind = match typ {
                        0 => Some(ClockType::Utc),
                        1 => Some(ClockType::Tai),
                        2 => Some(ClockType::Monotonic),
                        3 => Some(ClockType::UtcSmeared),
                        4 => Some(ClockType::UtcMaybeSmeared),
                        _ => None,
                    };
                    match (want_err(st), want_kind, &r) {
                        (Some(e), _, Err(g)) if e == *g => {}
                        (None, None, Err(Error::Unsupported)) => {}
                        (None, Some(k), Ok(c)) if c.kind == k && c.alarm_capability == (flags & 1 != 0) => {
                            let ws = if k == ClockType::UtcSmeared {
                                match smear {
                                    0 => Ok(None),
                                    1 => Ok(Some(SmearingVariant::NoonLinear)),
                                    2 => Ok(Some(SmearingVariant::UtcSls)),
                                    _ => Err(()),
                                }
                            } else {
                                Ok(None)
                            };
                            if ws != Ok(c.leap_second_smearing) {
                                viol("rtc-result", format!("clock_cap smearing {:?} for device value {}", c.leap_second_smearing, smear));
                            }
                        }
                        (None, Some(ClockType::UtcSmeared), Err(Error::Unsupported)) if smear == 3 => {}
                        (w_, k, g) => viol("rtc-result", format!("clock_cap with status {} type {} smear {} -> {:?} (expected error {:?} kind {:?})", st, typ, smear, g, w_, k)),
                    }
                }
                // read
                // (Readings at the edges too: 0 and all ones are readings like any other.)
                for (clock, reading) in [(0u16, 0x0123_4567_89ab_cdefu64), (0x12fe, 0x0123_4567_89ab_cdefu64 ^ 0x12fe), (7, 0), (8, u64::MAX)] {
                    let st = statuses[deviate(statuses.len(), "clock device status")];
                    let mut resp = vec![st, 0, 0, 0, 0, 0, 0, 0];
                    resp.extend(reading.to_le_bytes());
                    *plan.borrow_mut() = Some((resp, 16));
                    let r = rtc.read(clock);
                    tag("rtc:read");
                    {
                        let s = seen.borrow();
                        let (req, wl) = s.last().unwrap();
                        let mut want = vec![0x01, 0x00, 0, 0, 0, 0, 0, 0];
                        want.extend(clock.to_le_bytes());
                        want.extend([0u8; 6]);
                        if *req != want || *wl != 16 {
                            viol("rtc-encoding", format!("READ request is {:x?} (expected {:x?}) with {} writable bytes", req, want, wl));
                        }
                    }
                    match (want_err(st), r) {
                        (None, Ok(v)) if v == reading => {}
                        (Some(e), Err(g)) if e == g => {}
                        (w_, g) => viol("rtc-result", format!("read({}) with status {} -> {:x?}, expected {:?} / {:#x}", clock, st, g, w_, reading)),
                    }
                }
                drop(rtc);
            }
            _ => {
                let mut p9 = VirtIO9p::<LabHal, T>::new(t).expect("9p");
                if p9.mount_tag() != "root" {
                    viol("9p-mount-tag", format!("mount_tag() = {:?}, device configuration says \"root\"", p9.mount_tag()));
                }
                for (req, rlen) in [(vec![7u8, 0, 0, 0, 100, 1, 0], 16usize), (vec![0xaa; 33], 7), (vec![1], 64)] {
                    // Device replies with a message whose size field is right, short or long.
                    let sz = [rlen.min(11), 3, rlen + 5][deviate(3, "9P reply size field vs used length")] as u32;
                    let used = rlen.min(11) as u32;
                    let mut resp = sz.to_le_bytes().to_vec();
                    resp.extend([101u8, 1, 0, 9, 9, 9, 9]);
                    resp.truncate(used as usize);
                    *plan.borrow_mut() = Some((resp.clone(), used));
                    let mut buf = vec![0u8; rlen];
                    let r = p9.request(&req, &mut buf);
                    tag("9p:request");
                    {
                        let s = seen.borrow();
                        let (rq, wl) = s.last().unwrap();
                        if *rq != req || *wl != rlen {
                            viol("9p-encoding", format!("9P request chain carries {:x?} with {} writable bytes; caller passed {:x?} and a {}-byte buffer", rq, wl, req, rlen));
                        }
                    }
                    if sz == used {
                        if r != Ok(used) || buf[..used as usize] != resp[..] {
                            viol("9p-result", format!("request -> {:?}, device replied {} bytes", r, used));
                        }
                    } else if r != Err(Error::IoError) {
                        viol("9p-result", format!("request -> {:?} although the reply's size field {} differs from the used length {}", r, sz, used));
                    }
                }
                let mut small = [0u8; 6];
                if p9.request(&[1], &mut small) != Err(Error::InvalidParam) || p9.request(&[], &mut [0u8; 16]) != Err(Error::InvalidParam) {
                    viol("9p-params", "request with an empty message or a reply buffer below 7 bytes must be refused".into());
                }
                drop(p9);
            }
        }
        for e in co.borrow_mut().errors.drain(..) {
            viol("chain-malformed", e);
        }
        cosim::uninstall();
    }
}

pub fn run_small(tkind: TKind, kind: Kind) {
    hal::reset();
    let feats = [F_VERSION_1, F_VERSION_1 | F_INDIRECT | F_EVENT_IDX];
    let offered = feats[choose(feats.len(), "offered features")];
    let w = DWorld::new(kind, tkind, offered, kind.default_config());
    w.with_transport(VSmall { kind });
    mmio::set_handler(None);
}

// ------------------------------------------------------------------------------------------
// EDID decoding through the real get_edid path.

/// Independent decoder of the fields the driver reports (VESA E-EDID A.2: 3.10.2, 3.9).
pub fn ref_preferred(edid: &[u8], size: u32) -> Option<(u32, u32)> {
    if size < 128 {
        return None;
    }
    let d = &edid[54..72];
    let h = d[2] as u32 | ((d[4] as u32 >> 4) << 8);
    let v = d[5] as u32 | ((d[7] as u32 >> 4) << 8);
    if h == 0 || v == 0 { None } else { Some((h, v)) }
}

pub fn ref_standard(edid: &[u8], size: u32) -> Vec<(u32, u32)> {
    if size < 128 {
        return vec![];
    }
    let mut v = vec![];
    for i in 0..8 {
        let (a, b) = (edid[38 + 2 * i], edid[39 + 2 * i]);
        if (a, b) == (1, 1) {
            continue;
        }
        let h = (a as u32 + 31) * 8;
        let vv = match b >> 6 {
            0 => h * 10 / 16,
            1 => h * 3 / 4,
            2 => h * 4 / 5,
            _ => h * 9 / 16,
        };
        v.push((h, vv));
    }
    // Largest area first; equal areas keep their order in the blob.
    v.sort_by(|x, y| (y.0 as u64 * y.1 as u64).cmp(&(x.0 as u64 * x.1 as u64)));
    v
}

pub struct EdidOut {
    pub evals: u64,
    pub distinct: u64,
    pub viols: Vec<(String, String)>,
}

struct VEdid {
    lo: u32,
    hi: u32,
    mode: u8,
}

impl TransportVisitor for VEdid {
    type Out = EdidOut;
    fn visit<T: Transport + 'static>(self, t: T, w: &DWorld) -> EdidOut {
        let gd = Rc::new(RefCell::new(GpuDev { display: (800, 600), edid: vec![0u8; 1024], edid_size: 128, ..Default::default() }));
        let co: CoRc = {
            let gd = gd.clone();
            CoDevice::new(
                w.dev.clone(),
                Box::new(move |q, chain, readable| {
                    let mut g = gd.borrow_mut();
                    let mut errs = vec![];
                    let cmd = decode_gpu(readable, &mut errs);
                    let resp = g.exec(q, &cmd, None);
                    g.log.clear();
                    let n = resp.len().min(chain.writable_len());
                    Action::Complete(resp[..n].to_vec(), n as u32)
                }),
            )
        };
        cosim::install(&co);
        let mut gpu = VirtIOGpu::<LabHal, T>::new(t).expect("gpu");
        let mut out = EdidOut { evals: 0, distinct: 0, viols: vec![] };
        let mut seen = std::collections::HashSet::new();
        let mut check = |gpu: &mut VirtIOGpu<LabHal, T>, gd: &Rc<RefCell<GpuDev>>, out: &mut EdidOut, what: &str| {
            let (edid, size) = {
                let g = gd.borrow();
                (g.edid.clone(), g.edid_size)
            };
            let p = gpu.edid_preferred_resolution();
            let wantp = ref_preferred(&edid, size);
            out.evals += 1;
            match (&p, wantp) {
                (Ok(a), Some(b)) if *a == b => {}
                (Err(Error::IoError), None) => {}
                _ => {
                    if out.viols.len() < 5 {
                        out.viols.push(("edid-preferred".into(), format!("{}: edid_preferred_resolution() = {:?}, the blob encodes {:?}", what, p, wantp)));
                    }
                }
            }
            seen.insert(wantp);
            hal::with(|h| h.compact());
        };
        match self.mode {
            0 => {
                // All combinations of the bits of the first detailed timing that are decoded.
                for x in self.lo..self.hi {
                    {
                        let mut g = gd.borrow_mut();
                        g.edid[54 + 2] = x as u8;
                        g.edid[54 + 5] = (x >> 8) as u8;
                        g.edid[54 + 4] = ((x >> 16) as u8 & 0xf) << 4 | 0x5;
                        g.edid[54 + 7] = ((x >> 20) as u8 & 0xf) << 4 | 0xa;
                    }
                    check(&mut gpu, &gd, &mut out, &format!("DTD bits {:#08x}", x));
                }
            }
            1 => {
                // All 65536 values of one standard timing entry (entry 3), others fixed.
                for x in self.lo..self.hi {
                    {
                        let mut g = gd.borrow_mut();
                        for i in 0..8 {
                            g.edid[38 + 2 * i] = 1;
                            g.edid[39 + 2 * i] = 1;
                        }
                        g.edid[38] = 0x81;
                        g.edid[39] = 0x80;
                        g.edid[38 + 6] = x as u8;
                        g.edid[39 + 6] = (x >> 8) as u8;
                    }
                    let (edid, size) = {
                        let g = gd.borrow();
                        (g.edid.clone(), g.edid_size)
                    };
                    let got = gpu.edid_supported_resolutions();
                    let want = ref_standard(&edid, size);
                    out.evals += 1;
                    if got.as_ref().ok() != Some(&want) && out.viols.len() < 5 {
                        out.viols.push(("edid-standard-timings".into(), format!("standard timing entry {:#06x}: edid_supported_resolutions() = {:?}, the blob encodes {:?}", x, got, want)));
                    }
                    hal::with(|h| h.compact());
                }
            }
            _ => {
                // Ordering: all pairs from a 16-value set in entries 0 and 7; then the size field.
                let vals: [(u8, u8); 16] = [(0x00, 0x00), (0x01, 0x01), (0x01, 0x00), (0x00, 0x01), (0xff, 0xff), (0xff, 0x00), (0x81, 0x80), (0x81, 0xc0), (0xd1, 0xc0), (0xd1, 0x00), (0xa9, 0x40), (0x61, 0x40), (0x45, 0x40), (0x31, 0x40), (0x81, 0x40), (0xb3, 0x00)];
                for a in vals {
                    for b in vals {
                        {
                            let mut g = gd.borrow_mut();
                            for i in 0..8 {
                                g.edid[38 + 2 * i] = 1;
                                g.edid[39 + 2 * i] = 1;
                            }
                            g.edid[38] = a.0;
                            g.edid[39] = a.1;
                            g.edid[52] = b.0;
                            g.edid[53] = b.1;
                            g.edid[44] = 0x81;
                            g.edid[45] = 0x80;
                        }
                        let (edid, size) = {
                            let g = gd.borrow();
                            (g.edid.clone(), g.edid_size)
                        };
                        let got = gpu.edid_supported_resolutions();
                        let want = ref_standard(&edid, size);
                        out.evals += 1;
                        if got.as_ref().ok() != Some(&want) && out.viols.len() < 5 {
                            out.viols.push(("edid-standard-timings".into(), format!("entries {:x?},{:x?}: edid_supported_resolutions() = {:?}, expected {:?}", a, b, got, want)));
                        }
                    }
                }
                for size in [0u32, 127, 128, 129, 1024, u32::MAX] {
                    {
                        let mut g = gd.borrow_mut();
                        g.edid_size = size;
                        g.edid[54 + 2] = 0x80;
                        g.edid[54 + 4] = 0x70;
                        g.edid[54 + 5] = 0x38;
                        g.edid[54 + 7] = 0x40;
                    }
                    check(&mut gpu, &gd, &mut out, &format!("size field {}", size));
                    let (edid, sz) = {
                        let g = gd.borrow();
                        (g.edid.clone(), g.edid_size)
                    };
                    let got = gpu.edid_supported_resolutions();
                    if got.as_ref().ok() != Some(&ref_standard(&edid, sz)) {
                        out.viols.push(("edid-size".into(), format!("size {}: edid_supported_resolutions() = {:?}", size, got)));
                    }
                    if let Ok(e) = gpu.get_edid(0) {
                        let _ = e;
                    }
                }
            }
        }
        out.distinct = seen.len() as u64;
        drop(gpu);
        cosim::uninstall();
        out
    }
}

pub fn run_edid(lo: u32, hi: u32, mode: u8) -> EdidOut {
    hal::reset();
    let w = DWorld::new(Kind::Gpu, TKind::Model, F_VERSION_1 | 2, Kind::Gpu.default_config());
    let r = w.with_transport(VEdid { lo, hi, mode });
    mmio::set_handler(None);
    r
}
