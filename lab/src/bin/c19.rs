use std::time::Duration;
use vlab::c19::{self, Which};
use vlab::drivers::TKind;
use vlab::engine::dfs::{self, DfsConfig};
use vlab::engine::report::{self, Check, Tier};

fn parts(tier: Tier) -> Vec<(TKind, Which, usize, usize)> {
    match tier {
        Tier::Quick => vec![(TKind::Model, Which::VsockRx, 32, 2), (TKind::Model, Which::Input, 128, 1), (TKind::Model, Which::Sound, 128, 1), (TKind::Pci, Which::VsockRx, 20, 1), (TKind::MmioLegacy, Which::Input, 40, 1), (TKind::Model, Which::VsockRxLarge, 24, 2)],
        Tier::Thorough => vec![(TKind::Model, Which::VsockRx, 32, 3), (TKind::Model, Which::Input, 96, 2), (TKind::Model, Which::Sound, 96, 2), (TKind::Model, Which::Input, 128, 1), (TKind::Model, Which::Sound, 128, 1), (TKind::Model, Which::VsockRxLarge, 32, 2), (TKind::Pci, Which::VsockRx, 32, 2), (TKind::MmioLegacy, Which::Input, 64, 2), (TKind::MmioModern, Which::Sound, 64, 2)],
    }
}

fn main() {
    let args = report::parse_args();
    vlab::util::install_quiet_panic_hook();
    if let Some(p) = &args.replay {
        let doc = report::load_replay(p).unwrap_or_else(|e| {
            eprintln!("{}", e);
            std::process::exit(2)
        });
        for tier in [Tier::Quick, Tier::Thorough] {
            for (t, wh, n, dev) in parts(tier) {
                if doc.part == format!("events:{}:{}:n={}:dev={}", wh.name(), t.name(), n, dev) {
                    std::process::exit(vlab::replay::replay_dfs(&doc, &move || c19::run(t, wh, n)));
                }
            }
        }
        for n in [66_000usize, 140_000] {
            for wh in [Which::VsockRx, Which::Input, Which::Sound] {
                if doc.part == format!("linear-run:{}:model:events={}", wh.name(), n) {
                    std::process::exit(vlab::replay::replay_dfs(&doc, &move || c19::run_linear(TKind::Model, wh, n)));
                }
            }
        }
        eprintln!("unknown part {}", doc.part);
        std::process::exit(2);
    }
    let mut c = Check::new("C19", args.tier, "model_checking");
    c.rule = "deviation-bounded DFS: runs of 4x the queue size events through the vsock receive queue (size 8), the input event queue (size 32) and the sound event queue (size 32); defaults = the device uses the oldest posted buffer, bursts of 1, full-length writes; deviations (bounded per run) = any other posted buffer, any burst size up to the queue size, written lengths header-only / 1 payload byte. After each burst the driver polls until empty plus once. Plus linear runs (parts linear-run:*): single deterministic histories of more than 65 536 events per queue and feature set with pseudo-randomly varied burst sizes, buffer choices and lengths, so that the 16-bit ring indices wrap; these are single executions, not explorations. distinct = distinct observation signatures".into();
    for (t, wh, n, dev) in parts(args.tier) {
        let part = format!("events:{}:{}:n={}:dev={}", wh.name(), t.name(), n, dev);
        let mut cfg = DfsConfig::new(&part, dev);
        cfg.wall_cap = Duration::from_secs(if args.tier == Tier::Quick { 25 } else { 1800 });
        let st = dfs::explore(&cfg, &move || c19::run(t, wh, n));
        c.add_dfs(&part, &st);
    }
    // Linear runs: one long deterministic history per queue and feature set (not an exhaustive
    // exploration; reported as what it is). More than 65 536 events make both ring indices of the
    // stocked queue wrap while the same few buffers are recycled thousands of times.
    let n = if args.tier == Tier::Quick { 66_000 } else { 140_000 };
    for wh in [Which::VsockRx, Which::Input, Which::Sound] {
        let part = format!("linear-run:{}:model:events={}", wh.name(), n);
        let mut cfg = DfsConfig::new(&part, 0);
        cfg.wall_cap = Duration::from_secs(120);
        let st = dfs::explore(&cfg, &move || c19::run_linear(TKind::Model, wh, n));
        c.add_dfs(&part, &st);
    }
    c.finish();
}
