use std::time::Duration;
use vlab::engine::report::{self, Check, Tier};
use vlab::qcheck;

fn main() {
    let args = report::parse_args();
    if let Some(p) = &args.replay {
        let doc = report::load_replay(p).unwrap_or_else(|e| {
            eprintln!("{}", e);
            std::process::exit(2)
        });
        std::process::exit(qcheck::replay(&doc));
    }
    let mut c = Check::new("C03", args.tier, "model_checking");
    c.rule = "BFS over histories of add(shape)/device-complete(any in-flight chain)/pop_used(right, wrong outstanding, wrong free, empty) on the real VirtQueue; a state is distinct by the hash of its complete concrete snapshot (private fields, device-visible memory, ledger, reference device); every transition re-executes the history on the implementation and the reference device validates the published chain".into();
    c.assumptions = qcheck::standard_assumptions();
    let plans = qcheck::tier_plans(args.tier, false);
    let budget = if args.tier == Tier::Quick { Duration::from_secs(40) } else { Duration::from_secs(1500) };
    qcheck::run_plans(&mut c, &plans, budget);
    // Linear histories (runs longer than 65536 submissions, queue sizes up to 1024) and the
    // faithfulness of the warp shortcut used by the BFS parts.
    qcheck::run_linear(&mut c, args.tier);
    {
        use vlab::engine::chooser;
        use vlab::qcore::{self, QCfg};
        use vlab::util::J;
        for (ind, ev) in [(false, false), (true, true)] {
            let cfg = QCfg { indirect: ind, event_idx: ev, ap: false, legacy: false, start_off: 0, notify_ops: false, abstract_idx: false, trace: false, reduced: false, preroll: 0, wait_pop: false, oom: false, bad_args: false, drop_op: false };
            chooser::begin(&[], false);
            let r = vlab::util::catch(|| qcore::warp_faithfulness::<4>(cfg, 65536 + 5));
            let _ = chooser::end();
            c.add_sweep(&format!("warp-faithfulness:N=4,indirect={},event_idx={}", ind as u8, ev as u8), 3 * 65541, 1, true, J::obj());
            match r {
                Ok(Ok(())) => {}
                Ok(Err(e)) => c.machinery_error(format!("warp hook is not faithful: {}", e)),
                Err(p) => c.machinery_error(format!("warp faithfulness run panicked: {}", p)),
            }
        }
    }
    c.finish();
}
