use std::time::Duration;
use vlab::engine::report::{self, Check, Tier};
use vlab::qcheck;

fn main() {
    let args = report::parse_args();
    if let Some(p) = &args.replay {
        let doc = report::load_replay(p).unwrap_or_else(|e| {
            eprintln!("{}", e);
            std::process::exit(2)
        });
        std::process::exit(qcheck::replay(&doc));
    }
    let mut c = Check::new("C03", args.tier, "model_checking");
    c.rule = "BFS over histories of add(shape)/device-complete(any in-flight chain)/pop_used(right, wrong outstanding, wrong free, empty) on the real VirtQueue; a state is distinct by the hash of its complete concrete snapshot (private fields, device-visible memory, ledger, reference device); every transition re-executes the history on the implementation and the reference device validates the published chain".into();
    c.assumptions = qcheck::standard_assumptions();
    let plans = qcheck::tier_plans(args.tier, false);
    let budget = if args.tier == Tier::Quick { Duration::from_secs(40) } else { Duration::from_secs(1500) };
    qcheck::run_plans(&mut c, &plans, budget);
    // Runs longer than 65536 submissions on one live queue, every step checked, and the
    // faithfulness of the warp shortcut used by the BFS parts.
    {
        use vlab::engine::chooser;
        use vlab::qcore::{self, QCfg};
        use vlab::util::J;
        let cycles = if args.tier == Tier::Quick { 24_000 } else { 120_000 };
        for (ind, ev) in [(false, false), (true, true)] {
            let cfg = QCfg { indirect: ind, event_idx: ev, ap: false, legacy: false, start_off: 0, notify_ops: false, abstract_idx: false, trace: false, reduced: false };
            let part = format!("linear-run:N=4,indirect={},event_idx={},cycles={}", ind as u8, ev as u8, cycles);
            chooser::begin(&[], false);
            let steps = vlab::util::catch(|| qcore::linear_run::<4>(cfg, cycles));
            let out = chooser::end();
            let steps = steps.unwrap_or(0);
            let subs = out.tags.iter().filter(|t| t.as_ref() == "add:ok").count() as u64;
            c.add_sweep(&part, steps, 1, true, J::obj().set("successful_submissions", J::i(subs)).set("index_wraps", J::i(subs / 65536)));
            for v in out.violations.into_iter().take(3) {
                c.add_violation(v, &part, J::obj().set("kind", J::s("linear")).set("note", J::s("deterministic linear history; re-run the check")), vec![]);
            }
            chooser::begin(&[], false);
            let r = vlab::util::catch(|| qcore::warp_faithfulness::<4>(cfg, 65536 + 5));
            let _ = chooser::end();
            c.add_sweep(&format!("warp-faithfulness:N=4,indirect={},event_idx={}", ind as u8, ev as u8), 3 * 65541, 1, true, J::obj());
            match r {
                Ok(Ok(())) => {}
                Ok(Err(e)) => c.machinery_error(format!("warp hook is not faithful: {}", e)),
                Err(p) => c.machinery_error(format!("warp faithfulness run panicked: {}", p)),
            }
        }
    }
    c.finish();
}
