use vlab::c13;
use vlab::drivers::{Kind, TKind};
use vlab::engine::dfs::{self, DfsConfig};
use vlab::engine::report::{self, Check};
use vlab::engine::Violation;
use vlab::util::J;

fn parts() -> Vec<(Kind, TKind)> {
    let mut v = vec![];
    for k in [Kind::Blk, Kind::Socket, Kind::Console, Kind::NetRaw, Kind::P9] {
        // Legacy MMIO: version 1 of the register layout defines no ConfigGeneration, but the
        // driver reads offset 0xfc on every version; a legacy device that does keep a generation
        // counter there (as the register model does) is therefore protected too.
        for t in [TKind::MmioModern, TKind::Pci, TKind::MmioLegacy] {
            v.push((k, t));
        }
    }
    v
}

fn main() {
    let args = report::parse_args();
    vlab::util::install_quiet_panic_hook();
    if let Some(p) = &args.replay {
        let doc = report::load_replay(p).unwrap_or_else(|e| {
            eprintln!("{}", e);
            std::process::exit(2)
        });
        for (k, t) in parts() {
            if doc.part == format!("tear:{}:{}", k.name(), t.name()) {
                std::process::exit(vlab::replay::replay_dfs(&doc, &move || c13::run_tear(k, t)));
            }
        }
        eprintln!("bounds replays are self-describing; re-run the quick check");
        std::process::exit(2);
    }
    let mut c = Check::new("C13", args.tier, "model_checking");
    c.rule = "(a) every transport (MMIO legacy/modern, PCI) x window size 0..24 (and no window) x 7 access types x every aligned offset up to window+8 plus offsets near usize::MAX, 2^63 and 2^32, reads and writes; (b) DFS over schedules: the device may bump its configuration generation before any individual register read of a multi-field read (at most 3 updates in the quick tier, 6 in the thorough tier), for block capacity, socket CID, console size, MAC and 9P tag on MMIO and PCI. distinct = distinct observation signatures".into();
    c.assumptions = vec!["legacy MMIO: the register layout of version 1 defines no configuration generation; the tear exploration there assumes a device that keeps one at offset 0xfc, which is where the driver reads it on every version (against a legacy device returning a constant no implementation can exclude tearing)".into(), "the PCI transport's effective window is a whole number of 32-bit words; refusing the 1-3 tail bytes is permitted".into()];
    // (a)
    let mut ev = 0;
    let mut okc = 0;
    let mut refused = 0;
    for tk in [TKind::MmioLegacy, TKind::MmioModern, TKind::Pci] {
        let mut windows: Vec<Option<usize>> = (0..=24).map(Some).collect();
        if tk == TKind::Pci {
            windows = (4..=24).map(Some).collect();
            windows.push(None);
        }
        // Windows beyond 0x100 bytes (nothing limits a device's configuration space to the size
        // of the register block in front of it).
        windows.extend([Some(0xfc), Some(0x100), Some(0x104), Some(0x182)]);
        for wnd in windows {
            let r = c13::bounds_case(tk, wnd);
            ev += r.evals;
            okc += r.ok;
            refused += r.refused;
            let mut seen = std::collections::HashSet::new();
            for (k, d) in r.viols {
                if seen.insert(k.clone()) {
                    c.add_violation(Violation::new("C13", k, d.clone()), "bounds", J::obj().set("kind", J::s("case")).set("case", J::s(d)), vec![]);
                }
            }
        }
    }
    c.add_sweep("bounds: transports x windows x types x offsets x {read,write}", ev, 2, true, J::obj().set("succeeded", J::i(okc)).set("refused", J::i(refused)));
    c.add_sample(J::obj().set("case", J::s("read of [u32; 3] at offset usize::MAX-3 with a 16-byte window on pci -> must fail with ConfigSpaceTooSmall and perform no access")));
    // (b)
    for (k, t) in parts() {
        let part = format!("tear:{}:{}", k.name(), t.name());
        let maxu = if args.tier == vlab::engine::report::Tier::Thorough { 6 } else { c13::MAX_UPDATES };
        c13::MAX_UPDATES_RT.store(maxu, std::sync::atomic::Ordering::Relaxed);
        let cfg = DfsConfig::new(&part, maxu as usize);
        let st = dfs::explore(&cfg, &move || c13::run_tear(k, t));
        c.add_dfs(&part, &st);
    }
    c.finish();
}
