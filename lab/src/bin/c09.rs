use std::collections::BTreeMap;
use vlab::c09::{self, Case};
use vlab::drivers::{Kind, TKind, ALL_KINDS, ALL_TKINDS, F_ACCESS_PLATFORM, F_EVENT_IDX, F_INDIRECT, F_VERSION_1};
use vlab::engine::report::{self, Check, Tier};
use vlab::engine::Violation;
use vlab::util::J;

fn main() {
    let args = report::parse_args();
    vlab::util::install_quiet_panic_hook();
    if args.replay.is_some() {
        eprintln!("C09 replay files are self-describing (driver, transport, fault index); re-run the quick check");
        std::process::exit(2);
    }
    let thorough = args.tier == Tier::Thorough;
    let mut c = Check::new("C09", args.tier, "fault_enumeration");
    c.rule = "for every driver x transport (model, MMIO legacy, MMIO modern, PCI) x feature variant: the fault-free construction counts K DMA allocations, then each k in 0..K is made to fail (also on a device that its previous owner left running and whose reset shows late in the status register); the configuration space is truncated to every length below the full size (and the 9P tag emptied); fault-free usage histories of 0..3 steps (GPU: 0..6, every allocating operation twice, and additionally each single command of that history answered with an error: what an earlier successful operation attached must still not be freed while attached; buffered net: 0..7, a burst received, recycled oldest first, every buffer used once more, a runt completion while a buffer is held, the held buffer recycled afterwards) are followed by drop. Oracles: error not panic, every DMA region returned exactly once with original arguments, none returned (and no posted driver-owned heap buffer freed) while the device is live on that queue, and no GPU backing region returned while the live device has it attached. distinct = distinct (driver, transport, outcome class)".into();
    c.assumptions = vec!["buffers of requests that are still outstanding when a driver is dropped stay shared (not covered by this property)".into(), "GPU operations that allocate after construction are exercised by the C20 harness with the same ledger oracles".into()];
    let mut ev = 0u64;
    let mut classes: BTreeMap<String, u64> = BTreeMap::new();
    let feature_variants: Vec<u64> = if thorough { vec![0, F_VERSION_1, F_VERSION_1 | F_INDIRECT | F_EVENT_IDX, F_VERSION_1 | F_ACCESS_PLATFORM, F_INDIRECT] } else { vec![F_VERSION_1, F_VERSION_1 | F_INDIRECT | F_EVENT_IDX | F_ACCESS_PLATFORM] };
    for kind in ALL_KINDS {
        for tkind in ALL_TKINDS {
            let part = format!("construct+drop:{}:{}", kind.name(), tkind.name());
            let mut seen = std::collections::HashSet::new();
            let gpu_cmds = std::cell::Cell::new(0usize);
            let mut run = |case: &Case, what: String, c: &mut Check, ev: &mut u64, classes: &mut BTreeMap<String, u64>| -> usize {
                let o = c09::run_case(case);
                gpu_cmds.set(o.gpu_cmds);
                *ev += 1;
                *classes.entry(format!("{}:{}", part, o.class)).or_insert(0) += 1;
                for (k, d) in o.viols {
                    if seen.insert(k.clone()) {
                        c.add_violation(Violation::new("C09", k, format!("{}: {}", what, d)), &part, J::obj().set("kind", J::s("case")).set("case", J::s(format!("{:?}", case))), vec![]);
                    }
                }
                o.dma_calls
            };
            for fv in &feature_variants {
                let mut base = c09::base_case(kind, tkind);
                base.offered = *fv | kind.device_specific_supported();
                // Fault-free, with usage histories.
                let mut k_allocs = 0;
                let max_usage = match kind {
                    Kind::Gpu => 6,
                    Kind::NetBuf => 7,
                    Kind::Sound => 4,
                    Kind::Blk => 4,
                    _ => 3,
                };
                let mut k_construct = 0;
                for usage in 0..=max_usage {
                    let mut cs = base.clone();
                    cs.usage = usage;
                    k_allocs = run(&cs, format!("fault-free, {} usage steps then drop", usage), &mut c, &mut ev, &mut classes);
                    if usage == 0 {
                        k_construct = k_allocs;
                    }
                }
                let n_cmds = gpu_cmds.get();
                // Every k-th allocation failing.
                for k in 0..k_allocs {
                    let mut cs = base.clone();
                    // Allocations made by operations after construction (GPU) are included.
                    cs.usage = max_usage;
                    cs.fail_at = Some(k);
                    run(&cs, format!("DMA allocation #{} of {} fails", k, k_allocs), &mut c, &mut ev, &mut classes);
                    // One of the constructor's own allocations: construction must report it
                    // (without a usage history the case is judged for "failure ignored").
                    if k < k_construct {
                        let mut c0 = base.clone();
                        c0.fail_at = Some(k);
                        run(&c0, format!("DMA allocation #{} of the constructor's {} fails", k, k_construct), &mut c, &mut ev, &mut classes);
                    }
                    // The same on a device that a previous owner left running and whose reset
                    // takes a moment to show in the status register.
                    cs.left_running = true;
                    run(&cs, format!("DMA allocation #{} of {} fails on a device left running by its previous owner (slow reset)", k, k_allocs), &mut c, &mut ev, &mut classes);
                }
                {
                    let mut cs = base.clone();
                    cs.usage = max_usage;
                    cs.left_running = true;
                    run(&cs, "fault-free on a device left running by its previous owner (slow reset)".to_string(), &mut c, &mut ev, &mut classes);
                }
                // GPU: each command of the full usage history answered with an error.
                if kind == Kind::Gpu {
                    for k in 0..n_cmds {
                        let mut cs = base.clone();
                        cs.usage = max_usage;
                        cs.gpu_err_at = Some(k);
                        run(&cs, format!("GPU command #{} of {} answered with an error", k, n_cmds), &mut c, &mut ev, &mut classes);
                    }
                }
            }
            // Configuration space too small / missing.
            let full = kind.default_config().len();
            for l in 0..full {
                let mut cs = c09::base_case(kind, tkind);
                cs.config_len = Some(l);
                run(&cs, format!("configuration space truncated to {} of {} bytes", l, full), &mut c, &mut ev, &mut classes);
            }
            if kind == Kind::P9 {
                for cfg in [vec![0u8, 0, b'x', b'y', 0, 0, 0, 0], vec![2u8, 0, 0xff, 0xfe, 0, 0, 0, 0], vec![200u8, 0, b'a', b'b', b'c', b'd', b'e', b'f']] {
                    let mut cs = c09::base_case(kind, tkind);
                    cs.config = Some(cfg.clone());
                    run(&cs, format!("9P configuration {:?} (empty, non-UTF-8 or over-long tag)", cfg), &mut c, &mut ev, &mut classes);
                }
            }
        }
    }
    c.add_sweep("construction faults, configuration faults and usage-then-drop over drivers x transports", ev, classes.len() as u64, true, J::obj());
    c.add_tags(&classes);
    c.add_sample(J::obj().set("case", J::s("console on mmio-modern: fault-free run makes 4 dma_alloc calls; failing #2 -> Err(DmaError), regions #0,#1 returned once each after the transport reset the device")));
    c.finish();
}
