use std::time::Duration;
use vlab::c17;
use vlab::drivers::TKind;
use vlab::engine::dfs::{self, DfsConfig};
use vlab::engine::report::{self, Check, Tier};

fn parts(tier: Tier) -> Vec<(TKind, usize, u32)> {
    match tier {
        Tier::Quick => vec![(TKind::Model, 5, 4), (TKind::Model, 4, 3), (TKind::Pci, 3, 4)],
        Tier::Thorough => vec![(TKind::Model, 6, 4), (TKind::Model, 6, 3), (TKind::Model, 6, 1), (TKind::Pci, 4, 4), (TKind::MmioLegacy, 4, 4)],
    }
}

fn ring_parts(tier: Tier) -> Vec<(usize, u32)> {
    match tier {
        Tier::Quick => vec![(6, 3), (6, 4)],
        Tier::Thorough => vec![(8, 3), (8, 4), (7, 5), (8, 2)],
    }
}

fn main() {
    let args = report::parse_args();
    vlab::util::install_quiet_panic_hook();
    if let Some(p) = &args.replay {
        let doc = report::load_replay(p).unwrap_or_else(|e| {
            eprintln!("{}", e);
            std::process::exit(2)
        });
        for tier in [Tier::Quick, Tier::Thorough] {
            for (t, d, cap) in parts(tier) {
                if doc.part == format!("vsock-credit:{}:depth={}:cap={}", t.name(), d, cap) {
                    std::process::exit(vlab::replay::replay_dfs(&doc, &move || c17::run(t, d, cap)));
                }
            }
        }
        for tier in [Tier::Quick, Tier::Thorough] {
            for (d, cap) in ring_parts(tier) {
                if doc.part == format!("vsock-ring:depth={}:cap={}", d, cap) {
                    std::process::exit(vlab::replay::replay_dfs(&doc, &move || c17::run_mode(TKind::Model, d, cap, true)));
                }
            }
        }
        for d in [4usize, 6] {
            if doc.part == format!("vsock-large-buffers:model:depth={}", d) {
                std::process::exit(vlab::replay::replay_dfs(&doc, &move || c17::run_large(TKind::Model, d)));
            }
        }
        eprintln!("unknown part {}", doc.part);
        std::process::exit(2);
    }
    let mut c = Check::new("C17", args.tier, "model_checking");
    c.rule = "DFS over every interleaving (bounded depth) of send(0,1,2,cap), recv(1,3,cap), update_credit, poll and peer packets (RW of 1,3,cap bytes only within the advertised credit, CREDIT_UPDATE after consuming / shrinking buf_alloc to 1 / growing to 8, CREDIT_REQUEST) on one established connection, per-connection capacities 1,3,4, with both byte counters preset (hook) to 0, 2^32-2/-3, 2^32-1 and 2^31 boundaries so that they wrap inside the window; reference peer tracks both credit windows and both byte streams. Ring-buffer parts: reduced alphabet (peer RW of 1,2,cap bytes polled at once, recv of 1,2,cap, update_credit) to greater depth, reaching every (start, used) state of the receive ring with wrapping reads and writes. Large-buffer part: the driver instantiated with 2048-byte receive buffers and a 2048-byte connection buffer, peer packets of 468, 469 and 2004 bytes, sends of 469 and 2048 bytes. The alphabet includes the peer's shutdown (buffered data stays readable, the closing reset carries the final counters). distinct = distinct observation signatures".into();
    c.assumptions = vec!["the peer honours the credit the driver advertised (a dishonest peer is C07's subject)".into()];
    for (t, d, cap) in parts(args.tier) {
        let part = format!("vsock-credit:{}:depth={}:cap={}", t.name(), d, cap);
        let mut cfg = DfsConfig::new(&part, 0);
        cfg.wall_cap = Duration::from_secs(if args.tier == Tier::Quick { 30 } else { 900 });
        let st = dfs::explore(&cfg, &move || c17::run(t, d, cap));
        c.add_dfs(&part, &st);
    }
    for (d, cap) in ring_parts(args.tier) {
        let part = format!("vsock-ring:depth={}:cap={}", d, cap);
        let mut cfg = DfsConfig::new(&part, 0);
        cfg.wall_cap = Duration::from_secs(if args.tier == Tier::Quick { 30 } else { 900 });
        let st = dfs::explore(&cfg, &move || c17::run_mode(TKind::Model, d, cap, true));
        c.add_dfs(&part, &st);
    }
    // Large receive buffers (2048 bytes) and packets of several hundred bytes.
    {
        let d = if args.tier == Tier::Quick { 4 } else { 6 };
        let part = format!("vsock-large-buffers:model:depth={}", d);
        let mut cfg = DfsConfig::new(&part, 0);
        cfg.wall_cap = Duration::from_secs(if args.tier == Tier::Quick { 30 } else { 900 });
        let st = dfs::explore(&cfg, &move || c17::run_large(TKind::Model, d));
        c.add_dfs(&part, &st);
    }
    // A connection created with a 96 KiB buffer, filled to the advertised credit and read back.
    for cap in [96 * 1024u32, 65536 + 1] {
        let (n, v) = match vlab::util::catch(|| c17::run_big_capacity(TKind::Model, cap)) {
            Ok(r) => r,
            Err(p) => {
                if vlab::util::is_driver_panic(&p) {
                    (1, vec![("driver-panic".to_string(), p)])
                } else {
                    c.machinery_error(format!("big-capacity run: harness panic: {}", p));
                    (0, vec![])
                }
            }
        };
        c.add_sweep(&format!("big-capacity:{}: the peer fills the advertised receive space completely, then everything is read back", cap), n, 1, true, vlab::util::J::obj());
        for (k, d) in v {
            c.add_violation(vlab::engine::Violation::new("C17", k, d.clone()), "big-capacity", vlab::util::J::obj().set("kind", vlab::util::J::s("case")).set("case", vlab::util::J::s(d)), vec![]);
        }
    }
    // Connections closed with unread data, followed by new ones between the same endpoints.
    for cap in [4u32, 7, 16, 1024] {
        let (n, v) = match vlab::util::catch(|| c17::run_reconnect(TKind::Model, cap)) {
            Ok(r) => r,
            Err(p) => {
                if vlab::util::is_driver_panic(&p) {
                    (1, vec![("driver-panic".to_string(), p)])
                } else {
                    c.machinery_error(format!("reconnect run: harness panic: {}", p));
                    (0, vec![])
                }
            }
        };
        c.add_sweep(&format!("reconnect:{}: three connections in a row between the same endpoints, each filled to the advertised credit, partly read and force-closed", cap), n, 1, true, vlab::util::J::obj());
        for (k, d) in v {
            c.add_violation(vlab::engine::Violation::new("C17", k, d.clone()), "reconnect", vlab::util::J::obj().set("kind", vlab::util::J::s("case")).set("case", vlab::util::J::s(d)), vec![]);
        }
    }
    c.finish();
}
