use std::time::Duration;
use vlab::engine::report::{self, Check, Tier};
use vlab::qcheck;

fn main() {
    let args = report::parse_args();
    if let Some(p) = &args.replay {
        let doc = report::load_replay(p).unwrap_or_else(|e| {
            eprintln!("{}", e);
            std::process::exit(2)
        });
        std::process::exit(qcheck::replay(&doc));
    }
    let mut c = Check::new("C01", args.tier, "model_checking");
    c.rule = "BFS over histories of add(shape)/device-complete(any in-flight chain)/pop_used(right, wrong outstanding, wrong free, empty) on the real VirtQueue; a state is distinct by the hash of its complete concrete snapshot (private fields, device-visible memory, ledger, reference device); every transition re-executes the history on the implementation and the reference device validates the published chain".into();
    c.assumptions = qcheck::standard_assumptions();
    let plans = qcheck::tier_plans(args.tier, false);
    let budget = if args.tier == Tier::Quick { Duration::from_secs(40) } else { Duration::from_secs(1500) };
    qcheck::run_plans(&mut c, &plans, budget);
    qcheck::run_linear(&mut c, args.tier);
    // The queues the drivers create: with a co-simulated reference device walking every chain of
    // a script that touches every queue of every driver, for feature sets with and without
    // INDIRECT_DESC / EVENT_IDX / VERSION_1. A chain the reference walker rejects (an indirect
    // table on a queue for which the feature was not negotiated, a malformed chain) is a
    // violation here as in the queue-core exploration.
    {
        use vlab::drivers::{TKind, ALL_KINDS, F_EVENT_IDX, F_INDIRECT, F_VERSION_1};
        let mut ev = 0u64;
        let mut clean = 0u64;
        for kind in ALL_KINDS {
            for offered in [0u64, F_VERSION_1, F_INDIRECT, F_VERSION_1 | F_INDIRECT, F_VERSION_1 | F_EVENT_IDX, F_VERSION_1 | F_INDIRECT | F_EVENT_IDX, u64::MAX & !F_INDIRECT, u64::MAX] {
                for tk in [TKind::Model, TKind::Pci] {
                    let out = vlab::c08::run_case(kind, tk, false, offered);
                    ev += 1;
                    let mut any = false;
                    for (k, d) in out.viols {
                        if k == "indirect-without-negotiation" || k == "chain-malformed" {
                            any = true;
                            c.add_violation(vlab::engine::Violation::new("C01", format!("driver:{}", k), format!("{} driver on {}, offered features {:#x}: {}", kind.name(), tk.name(), offered, d)), "driver-chains", vlab::util::J::obj().set("kind", vlab::util::J::s("driver-chains")).set("driver", vlab::util::J::s(kind.name())).set("offered", vlab::util::J::i(offered)), vec![]);
                        }
                    }
                    if !any {
                        clean += 1;
                    }
                }
            }
        }
        c.add_sweep("driver-chains: every driver on the model and PCI transports under 8 offered feature sets, a script touching every queue; the co-simulated reference device walks every published chain (indirect tables only where negotiated, well-formed chains)", ev, clean, true, vlab::util::J::obj());
    }
    c.finish();
}
