use std::time::Duration;
use vlab::c16;
use vlab::drivers::TKind;
use vlab::engine::dfs::{self, DfsConfig};
use vlab::engine::report::{self, Check, Tier};

fn parts(tier: Tier) -> Vec<(TKind, bool, usize)> {
    match tier {
        Tier::Quick => vec![(TKind::Model, false, 5), (TKind::Model, true, 6), (TKind::Pci, false, 3), (TKind::MmioLegacy, true, 4)],
        Tier::Thorough => vec![(TKind::Model, false, 6), (TKind::Model, true, 8), (TKind::Pci, false, 4), (TKind::Pci, true, 4), (TKind::MmioLegacy, false, 4), (TKind::MmioLegacy, true, 4), (TKind::MmioModern, false, 4)],
    }
}

fn main() {
    let args = report::parse_args();
    vlab::util::install_quiet_panic_hook();
    if let Some(p) = &args.replay {
        let doc = report::load_replay(p).unwrap_or_else(|e| {
            eprintln!("{}", e);
            std::process::exit(2)
        });
        for tier in [Tier::Quick, Tier::Thorough] {
            for (t, raw, d) in parts(tier) {
                if doc.part == format!("net:{}:raw={}:depth={}", t.name(), raw as u8, d) {
                    std::process::exit(vlab::replay::replay_dfs(&doc, &move || c16::run(t, raw, d)));
                }
            }
        }
        for d in [2usize, 3] {
            if doc.part == format!("net-raw-slow-device:model:depth={}", d) {
                std::process::exit(vlab::replay::replay_dfs(&doc, &move || c16::run_slow(TKind::Model, d)));
            }
        }
        for d in [4usize, 6] {
            if doc.part == format!("net-large-buffers:model:depth={}", d) {
                std::process::exit(vlab::replay::replay_dfs(&doc, &move || c16::run_large(TKind::Model, d)));
            }
        }
        for (d, dv) in [(8usize, 1usize), (10, 2)] {
            if doc.part == format!("net-deep:model:depth={}:dev={}", d, dv) {
                std::process::exit(vlab::replay::replay_dfs(&doc, &move || c16::run_mode(TKind::Model, false, d, true)));
            }
        }
        eprintln!("unknown part {}", doc.part);
        std::process::exit(2);
    }
    let mut c = Check::new("C16", args.tier, "model_checking");
    c.rule = "DFS over every sequence (bounded depth) of sends (0,1,60,1514 bytes), receives, recycles of any held buffer, non-blocking transmit/receive begin/poll/complete, receive_wait, and device deliveries of frames (0,1,1514 bytes or the whole buffer) into any posted buffer, for the raw and the buffer-managing driver, queue size 4, with and without VERSION_1. distinct = distinct observation signatures".into();
    {
        // Deeper histories of the buffer-managing driver: operation types are free choices,
        // buffer indices deviate from "oldest first" at most twice.
        let (d, dv) = if args.tier == Tier::Quick { (8usize, 1usize) } else { (10, 2) };
        let part = format!("net-deep:model:depth={}:dev={}", d, dv);
        let mut cfg = DfsConfig::new(&part, dv);
        cfg.wall_cap = Duration::from_secs(if args.tier == Tier::Quick { 30 } else { 1800 });
        let st = dfs::explore(&cfg, &move || c16::run_mode(TKind::Model, false, d, true));
        c.add_dfs(&part, &st);
    }
    {
        let d = if args.tier == Tier::Quick { 4 } else { 6 };
        let part = format!("net-large-buffers:model:depth={}", d);
        let mut cfg = DfsConfig::new(&part, 1);
        cfg.wall_cap = Duration::from_secs(if args.tier == Tier::Quick { 20 } else { 900 });
        let st = dfs::explore(&cfg, &move || c16::run_large(TKind::Model, d));
        c.add_dfs(&part, &st);
    }
    {
        let d = if args.tier == Tier::Quick { 2 } else { 3 };
        let part = format!("net-raw-slow-device:model:depth={}", d);
        let mut cfg = DfsConfig::new(&part, 0);
        cfg.wall_cap = Duration::from_secs(if args.tier == Tier::Quick { 20 } else { 900 });
        let st = dfs::explore(&cfg, &move || c16::run_slow(TKind::Model, d));
        c.add_dfs(&part, &st);
    }
    for (t, raw, d) in parts(args.tier) {
        let part = format!("net:{}:raw={}:depth={}", t.name(), raw as u8, d);
        let mut cfg = DfsConfig::new(&part, 0);
        cfg.wall_cap = Duration::from_secs(if args.tier == Tier::Quick { 30 } else { 1800 });
        let st = dfs::explore(&cfg, &move || c16::run(t, raw, d));
        c.add_dfs(&part, &st);
    }
    // Long sessions (ring indices wrap on both queues).
    {
        let frames = if args.tier == Tier::Quick { 70_000 } else { 200_000 };
        let (n, v) = match vlab::util::catch(|| c16::run_linear(TKind::Model, frames)) {
            Ok(r) => r,
            Err(p) => {
                if p.contains("LAB-LIVELOCK") || vlab::util::is_driver_panic(&p) {
                    (1, vec![("linear-run".to_string(), format!("long session: {}", p))])
                } else {
                    c.machinery_error(format!("linear run: harness panic: {}", p));
                    (0, vec![])
                }
            }
        };
        c.add_sweep(&format!("linear-run: one session of {} received frames (any posted buffer, recycled at once) and as many transmissions", frames), n, 1, true, vlab::util::J::obj());
        for (k, d) in v {
            c.add_violation(vlab::engine::Violation::new("C16", k, d.clone()), "linear-run", vlab::util::J::obj().set("kind", vlab::util::J::s("case")).set("case", vlab::util::J::s(d)), vec![]);
        }
    }
    c.finish();
}
