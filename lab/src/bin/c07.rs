use std::time::Duration;
use vlab::c07;
use vlab::drivers::{Kind, TKind, ALL_KINDS};
use vlab::engine::dfs::{self, DfsConfig};
use vlab::engine::report::{self, Check, Tier};
use vlab::engine::Violation;
use vlab::util::J;

#[derive(Clone, Copy)]
enum P {
    Queue(usize),
    Driver(Kind, TKind, usize),
    /// A peer that ignores the advertised receive credit: (depth, per-connection capacity).
    VsockOverrun(usize, u32),
}

fn parts(tier: Tier) -> Vec<(String, P)> {
    let mut v = vec![];
    let dq = if tier == Tier::Quick { 2 } else { 4 };
    v.push((format!("raw-queue:dev={}", dq), P::Queue(dq)));
    for k in ALL_KINDS {
        // Thorough: 4 deviations everywhere, 5 for the drivers with short scripts.
        let d = if tier == Tier::Quick {
            2
        } else if matches!(k, Kind::Gpu | Kind::Sound | Kind::Socket) {
            4
        } else {
            5
        };
        v.push((format!("driver:{}:model:dev={}", k.name(), d), P::Driver(k, TKind::Model, d)));
    }
    if tier == Tier::Thorough {
        for k in ALL_KINDS {
            v.push((format!("driver:{}:pci:dev=3", k.name()), P::Driver(k, TKind::Pci, 3)));
            v.push((format!("driver:{}:mmio-legacy:dev=3", k.name()), P::Driver(k, TKind::MmioLegacy, 3)));
            v.push((format!("driver:{}:mmio-modern:dev=2", k.name()), P::Driver(k, TKind::MmioModern, 2)));
        }
    } else {
        v.push(("driver:blk:pci:dev=1".into(), P::Driver(Kind::Blk, TKind::Pci, 1)));
        v.push(("driver:socket:mmio-legacy:dev=1".into(), P::Driver(Kind::Socket, TKind::MmioLegacy, 1)));
    }
    for (d, cap) in if tier == Tier::Quick { vec![(5usize, 4u32), (4, 8)] } else { vec![(7, 4), (6, 8), (5, 16)] } {
        v.push((format!("vsock-credit-overrun:depth={}:cap={}", d, cap), P::VsockOverrun(d, cap)));
    }
    v
}

fn runner(p: P) -> Box<dyn Fn() + Sync> {
    match p {
        P::Queue(_) => Box::new(c07::run_queue),
        P::Driver(k, t, _) => Box::new(move || c07::run_driver(k, t)),
        P::VsockOverrun(d, cap) => Box::new(move || vlab::c07_vsock::run(TKind::Model, d, cap)),
    }
}

fn main() {
    let args = report::parse_args();
    vlab::util::install_quiet_panic_hook();
    if let Some(p) = &args.replay {
        let doc = report::load_replay(p).unwrap_or_else(|e| {
            eprintln!("{}", e);
            std::process::exit(2)
        });
        for tier in [Tier::Quick, Tier::Thorough] {
            for (name, p) in parts(tier) {
                if doc.part == name {
                    let f = runner(p);
                    std::process::exit(vlab::replay::replay_dfs(&doc, &*f));
                }
            }
        }
        eprintln!("unknown or self-describing part {}", doc.part);
        std::process::exit(2);
    }
    let mut c = Check::new("C07", args.tier, "fault_enumeration");
    c.rule = "deviation-bounded DFS over a device-fault alphabet applied at every device action point: used id (>= queue size, 0xffff, 2^32-1, not outstanding, non-head, another chain's), used length (0, +1, 65536, 2^32-1), used index jumps (+2 with garbage, +N+1, backwards), scribbling over descriptor table and available ring (all ones, zeros, rotated next fields), arbitrary response bytes and receive contents (ones, pattern, plausible-but-absurd structures), for the raw VirtQueue (store tracer armed: any load from driver-owned areas is reported; differential re-run without scribbling) and for short scripts of every driver; absurd configuration values each in a forked child with a 3 GiB address-space limit and a 20 s watchdog. distinct = distinct observation signatures".into();
    c.assumptions = vec![
        "the adversary is finitely bad: after its deviation budget it answers honestly, so specified waits terminate".into(),
        "a caught panic is a permitted outcome; leaks after device misbehaviour are not forbidden by the property".into(),
        "memory errors that neither the fatal-signal reporter, the platform ledger nor the tracer expose are not detected in the quick tier".into(),
    ];
    // Part C first (forks must happen before worker threads exist).
    let mut ev = 0u64;
    for k in ALL_KINDS {
        for (name, cfg) in c07::config_variants(k) {
            ev += 1;
            if let Some(death) = c07::run_config_case_isolated(k, &cfg) {
                let kind = format!("config-value:{}:{}", k.name(), name);
                c.add_violation(Violation::new("C07", kind, format!("{} driver with configuration space {} ({:x?}...): {}", k.name(), name, &cfg[..cfg.len().min(12)], death)), "config-values", J::obj().set("kind", J::s("config")).set("driver", J::s(k.name())).set("variant", J::s(name.clone())), vec![]);
            }
        }
    }
    c.add_sweep("config-values: absurd configuration spaces per driver, each in an isolated child", ev, ev, true, J::obj());
    // Part D: window geometry reported by a PCI device (capability lengths that are not a
    // multiple of the access width): no MMIO access may leave the windows the device declared.
    {
        let bars: Vec<(usize, vlab::pci_model::BarKind, u64)> = vec![(vlab::c11::GOOD_BAR as usize, vlab::pci_model::BarKind::Mem64 { size: vlab::c11::GOOD_BAR_SIZE, prefetch: true }, vlab::c11::GOOD_BAR_ADDR)];
        let mut ev = 0u64;
        let mut cases = 0u64;
        for nl in [2u32, 3, 5, 7] {
            for dl in [4u32, 5, 7, 10, 11, 17] {
                let (n, v) = vlab::c11::run_odd_windows(&bars, nl, 2, dl);
                ev += n;
                cases += 1;
                for (k, d) in v {
                    if k == "access-outside-windows" || k == "config-access-beyond-window" {
                        c.add_violation(Violation::new("C07", format!("pci-window:{}", k), format!("PCI device declaring a notify window of {} bytes and a device configuration window of {} bytes: {}", nl, dl, d)), "pci-window-geometry", J::obj().set("kind", J::s("case")).set("case", J::s(d)), vec![]);
                    }
                }
            }
        }
        c.add_sweep("pci-window-geometry: notifications and configuration accesses of width 1/2/4 up to 8 bytes past windows whose declared length is not a multiple of the access width", ev, cases, true, J::obj());
    }
    // Part E: configuration-space accesses against the window the device declares (MMIO: the
    // region size; PCI: the capability length). An access that does not lie wholly inside the
    // window must not reach the device's memory, whatever length the device reports.
    {
        let mut ev = 0u64;
        let mut cases = 0u64;
        for tk in [TKind::MmioLegacy, TKind::MmioModern, TKind::Pci] {
            for wnd in [0usize, 1, 2, 3, 4, 7, 8, 9, 12, 16, 17, 24] {
                if tk == TKind::Pci && wnd < 4 {
                    continue;
                }
                let r = vlab::c13::bounds_case(tk, Some(wnd));
                ev += r.evals;
                cases += 1;
                let mut seen = std::collections::HashSet::new();
                for (k, d) in r.viols {
                    if (k.starts_with("config-access-out-of-window") || k.starts_with("config-access-stray")) && seen.insert(k.clone()) {
                        c.add_violation(Violation::new("C07", format!("config-window:{}", k), format!("{} transport, configuration window of {} bytes: {}", tk.name(), wnd, d)), "config-window-bounds", J::obj().set("kind", J::s("case")).set("case", J::s(d)), vec![]);
                    }
                }
            }
        }
        c.add_sweep("config-window-bounds: every access type at every aligned offset up to 8 bytes past configuration windows of 0..24 bytes on MMIO (legacy, modern) and PCI", ev, cases, true, J::obj());
    }
    // Part F: configuration spaces that are shorter than the driver expects (any length below the
    // full size, on every transport): construction fails with an error, and no DMA region is
    // released while the device is still live on a queue in it or released twice.
    {
        let mut ev = 0u64;
        let mut classes = std::collections::HashSet::new();
        for kind in vlab::drivers::ALL_KINDS {
            for tk in vlab::drivers::ALL_TKINDS {
                let full = kind.default_config().len();
                let mut seen = std::collections::HashSet::new();
                for l in 0..full {
                    let mut cs = vlab::c09::base_case(kind, tk);
                    cs.config_len = Some(l);
                    let o = vlab::c09::run_case(&cs);
                    ev += 1;
                    classes.insert(format!("{}:{}:{}", kind.name(), tk.name(), o.class));
                    for (k, d) in o.viols {
                        if seen.insert(k.clone()) {
                            c.add_violation(Violation::new("C07", format!("short-config:{}", k), format!("{} driver on {}, configuration space of {} of {} bytes: {}", kind.name(), tk.name(), l, full, d)), "short-config-construction", J::obj().set("kind", J::s("case")).set("case", J::s(format!("{:?}", cs))), vec![]);
                        }
                    }
                }
            }
        }
        c.add_sweep("short-config-construction: every driver on every transport with the configuration space truncated to every length below its full size", ev, classes.len() as u64, true, J::obj());
    }
    // Part H: sessions long enough for the 16-bit ring indices to wrap (single executions).
    {
        let n = if args.tier == Tier::Quick { 66_000 } else { 140_000 };
        let mut ev = 0u64;
        let mut ok = 0u64;
        for (tk, feats) in [(vlab::drivers::TKind::Model, vlab::drivers::F_VERSION_1), (vlab::drivers::TKind::Model, vlab::drivers::F_VERSION_1 | vlab::drivers::F_EVENT_IDX | vlab::drivers::F_INDIRECT), (vlab::drivers::TKind::Pci, vlab::drivers::F_VERSION_1 | vlab::drivers::F_EVENT_IDX)] {
            let (made, v) = vlab::c07::run_long_session(tk, n, feats);
            ev += made;
            if v.is_empty() {
                ok += 1;
            }
            for (k, d) in v {
                c.add_violation(Violation::new("C07", k, format!("entropy driver on {} with features {:#x}: {}", tk.name(), feats, d)), "long-session", J::obj().set("kind", J::s("long-session")).set("transport", J::s(tk.name())).set("features", J::i(feats)).set("requests", J::i(n)), vec![]);
            }
        }
        c.add_sweep(&format!("long-session: {} blocking entropy requests in a row against an honest device on 3 transport/feature combinations (single deterministic histories; the ring indices wrap): every call returns the device's bytes", n), ev, ok, true, J::obj());
    }
    vlab::tracer::install_handlers();
    vlab::crash::install();
    for (name, p) in parts(args.tier) {
        let dev = match p {
            P::Queue(d) | P::Driver(_, _, d) => d,
            P::VsockOverrun(_, _) => 0,
        };
        vlab::crash::set_context("C07", &name);
        let mut cfg = DfsConfig::new(&name, dev);
        cfg.wall_cap = Duration::from_secs(if args.tier == Tier::Quick { 20 } else { 1200 });
        let f = runner(p);
        let st = dfs::explore(&cfg, &*f);
        c.add_dfs(&name, &st);
    }
    c.finish();
}
