use std::time::Duration;
use vlab::c05;
use vlab::engine::dfs::{self, DfsConfig};
use vlab::engine::report::{self, Check, Tier};
use vlab::engine::Violation;
use vlab::qcheck;
use vlab::util::J;

fn sweep<const N: usize>(c: &mut Check, full: bool) {
    let threads = 16u32;
    let chunk = 65536 / threads;
    let results: Vec<c05::SweepResult> = std::thread::scope(|s| {
        let hs: Vec<_> = (0..threads).map(|t| s.spawn(move || c05::sweep_event_idx::<N>(t * chunk, (t + 1) * chunk, full))).collect();
        hs.into_iter().map(|h| h.join().unwrap()).collect()
    });
    let mut ev = 0;
    let mut must = 0;
    let mut notified = 0;
    let mut fails = 0;
    let mut first = vec![];
    for r in results {
        ev += r.evaluations;
        must += r.must_notify_cases;
        notified += r.notified;
        fails += r.failures;
        for f in r.first_failures {
            if first.len() < 3 {
                first.push(f);
            }
        }
    }
    let part = format!("should_notify-sweep:N={},event_idx=1,{}", N, if full { "all 2^16 x 2^16 (avail_idx, avail_event) pairs" } else { "all 2^16 avail_idx x events within +-(N+2) and boundary values" });
    c.add_sweep(&part, ev, must, true, J::obj().set("must_notify_cases", J::i(must)).set("driver_answered_notify", J::i(notified)).set("failures", J::i(fails)));
    for (new, event, b) in first {
        // Classify by whether the batch straddles the 16-bit wrap: that is the specific input class.
        let old = new.wrapping_sub(b as u16);
        let straddles = old > new;
        let kind = if straddles { format!("should_notify-false-negative:batch-straddles-index-wrap") } else { "should_notify-false-negative".to_string() };
        c.add_violation(
            Violation::new("C05", kind, format!("N={} avail_idx={:#06x} (previous check at {:#06x}, batch {}) avail_event={:#06x}: specification requires a notification, should_notify() = false", N, new, old, b, event)),
            &part,
            J::obj().set("kind", J::s("sweep")).set("avail_idx", J::i(new)).set("avail_event", J::i(event)).set("batch", J::i(b)).set("N", J::i(N)),
            vec![],
        );
    }
    c.add_sample(J::obj().set("part", J::s(part)).set("case", J::s(format!("N={} avail_idx=0x0001 avail_event=0xfffe batch<=N -> compare should_notify() with vring_need_event", N))));
}

fn flags<const N: usize>(c: &mut Check) {
    let (ev, distinct, fails) = c05::sweep_flags::<N>();
    let part = format!("should_notify-sweep:N={},event_idx=0,all 2^16 avail_idx x flag in {{0,1}} x 3 stale event values", N);
    c.add_sweep(&part, ev, distinct, true, J::obj());
    for f in fails {
        c.add_violation(Violation::new("C05", "should_notify-flag", f), &part, J::obj().set("kind", J::s("sweep")), vec![]);
    }
}

fn replay_sweep(doc: &report::ReplayDoc) -> i32 {
    // Re-evaluates the single recorded input on the real queue.
    let get = |k: &str| report::json_int_array_field(&doc.raw.replace(&format!("\"{}\": ", k), &format!("\"{}\": [", k)).replace(",\n", "],\n"), k).and_then(|v| v.first().copied());
    let (Some(new), Some(ev), Some(n)) = (get("avail_idx"), get("avail_event"), get("N")) else {
        eprintln!("cannot parse sweep replay");
        return 2;
    };
    let r = match n {
        1 => c05::sweep_point::<1>(new as u16, ev as u16),
        2 => c05::sweep_point::<2>(new as u16, ev as u16),
        4 => c05::sweep_point::<4>(new as u16, ev as u16),
        _ => c05::sweep_point::<8>(new as u16, ev as u16),
    };
    println!("N={} avail_idx={:#06x} avail_event={:#06x}: should_notify() = {}, specification (largest batch) requires = {}", n, new, ev, r.0, r.1);
    if r.1 && !r.0 { 1 } else { 0 }
}

fn main() {
    let args = report::parse_args();
    if let Some(p) = &args.replay {
        let doc = report::load_replay(p).unwrap_or_else(|e| {
            eprintln!("{}", e);
            std::process::exit(2)
        });
        vlab::util::install_quiet_panic_hook();
        let rc = match doc.kind.as_str() {
            "bfs" => qcheck::replay(&doc),
            "sweep" => replay_sweep(&doc),
            _ if doc.part.starts_with("rx-restock") => vlab::replay::replay_dfs(&doc, &c05::run_rx_restock),
            _ if doc.part.starts_with("driver-notify:") => {
                let name = doc.part.split(':').nth(1).unwrap_or("").to_string();
                let tname = doc.part.split(':').nth(2).unwrap_or("model").to_string();
                let t = vlab::drivers::ALL_TKINDS.into_iter().find(|t| t.name() == tname).unwrap_or(vlab::drivers::TKind::Model);
                match vlab::drivers::ALL_KINDS.into_iter().find(|k| k.name() == name) {
                    Some(k) => vlab::replay::replay_dfs(&doc, &move || vlab::c05_drivers::run_driver_notify(k, t)),
                    None => 2,
                }
            }
            _ => vlab::replay::replay_dfs(&doc, &|| c05::run_wait_pop::<4>()),
        };
        std::process::exit(rc);
    }
    let mut c = Check::new("C05", args.tier, "model_checking");
    c.rule = "(a) exhaustive sweep of should_notify() against the specification's vring_need_event over (avail_idx, avail_event) pairs and all batch sizes up to N, with used.flags (to be ignored under event index) set to NO_NOTIFY for every other input; (b) BFS histories including set_dev_notify with the device-visible suppression state checked after every step; (c) deviation-free DFS over device servicing policies for the blocking helper with the device co-simulated inside notify and inside the busy-wait hook; (e) for every driver, every subset of its queues with notifications suppressed (flag form, or a far-away event index) and polled by the device while the others are served on notification only, a script touching every queue with a per-queue check after every operation (available buffers on an unsuppressed queue must have been announced; a queue with the suppression flag set must not be notified). Distinct = must-notify input pairs / distinct states / distinct observation signatures".into();
    c.assumptions = qcheck::standard_assumptions();
    c.assumptions.push("the missing store->load barrier between publishing avail.idx and reading the suppression word is a hardware-ordering matter invisible to a sequentially consistent explorer; not claimed".into());
    let full = args.tier == Tier::Thorough;
    sweep::<1>(&mut c, full);
    sweep::<2>(&mut c, full);
    sweep::<4>(&mut c, full);
    sweep::<8>(&mut c, full);
    flags::<4>(&mut c);
    // (b) histories with interrupt-suppression operations.
    let plans = if full {
        qcheck::tier_plans(Tier::Thorough, true).into_iter().take(3).collect::<Vec<_>>()
    } else {
        qcheck::tier_plans(Tier::Quick, true)
    };
    qcheck::run_plans(&mut c, &plans, if full { Duration::from_secs(1200) } else { Duration::from_secs(25) });
    // (c) blocking helper co-simulation.
    let cfg = DfsConfig::new("wait_pop:N=4", 0);
    let st = dfs::explore(&cfg, &|| c05::run_wait_pop::<4>());
    c.add_dfs("wait_pop:N=4", &st);
    // (c') stocked receive queue + wait_for_event against a notify-only device.
    let cfg = DfsConfig::new("rx-restock+wait_for_event", 0);
    let st = dfs::explore(&cfg, &c05::run_rx_restock);
    c.add_dfs("rx-restock+wait_for_event", &st);
    // (e) notification discipline of every driver, queue by queue, for every set of suppressed queues.
    // On the model transport and on the real ones (PCI: every queue has its own doorbell offset,
    // so a notification computed for the wrong queue reaches another queue).
    for t in vlab::drivers::ALL_TKINDS {
        for k in vlab::drivers::ALL_KINDS {
            let part = format!("driver-notify:{}:{}", k.name(), t.name());
            let cfg = DfsConfig::new(&part, 0);
            let st = dfs::explore(&cfg, &move || vlab::c05_drivers::run_driver_notify(k, t));
            c.add_dfs(&part, &st);
        }
    }
    c.finish();
}
