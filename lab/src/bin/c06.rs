use std::collections::BTreeMap;
use vlab::c06::{self, Case};
use vlab::engine::report::{self, Check};
use vlab::engine::Violation;
use vlab::util::J;

fn run_size<const N: usize>(legacy_only: Option<bool>) -> (u64, BTreeMap<String, u64>, Vec<(Case, String, String)>) {
    let mut evals = 0;
    let mut outcomes = BTreeMap::new();
    let mut viols = vec![];
    for legacy in [false, true] {
        if let Some(l) = legacy_only {
            if l != legacy {
                continue;
            }
        }
        for bits in 0..8u8 {
            for in_use in [false, true] {
                for max in c06::max_values(N) {
                    for (skew, fail_alloc) in [(0u32, 0u32), (0xF_FFFF, 0), (1, 0), (0, 1), (0, 2)] {
                        let c = Case { legacy, indirect: bits & 1 != 0, event_idx: bits & 2 != 0, ap: bits & 4 != 0, in_use, max, skew, fail_alloc };
                        let (o, v) = c06::run_case::<N>(c);
                        evals += 1;
                        *outcomes.entry(format!("N={}:{}", N, o)).or_insert(0) += 1;
                        for (k, d) in v {
                            if viols.len() < 8 {
                                viols.push((c, k, d));
                            }
                        }
                    }
                }
            }
        }
    }
    (evals, outcomes, viols)
}

fn replay_case(n: u64, c: Case) -> Vec<(String, String)> {
    macro_rules! go { ($($n:literal),*) => { match n { $($n => c06::run_case::<$n>(c).1,)* _ => vec![("bad-N".into(), format!("{}", n))] } } }
    go!(1, 2, 4, 8, 16, 32, 64, 128, 256, 512, 1024, 2048, 4096, 8192, 16384, 32768)
}

fn main() {
    let args = report::parse_args();
    vlab::util::install_quiet_panic_hook();
    if let Some(p) = &args.replay {
        let s = std::fs::read_to_string(p).expect("replay file");
        let g = |k: &str| -> u64 {
            let pat = format!("\"{}\": ", k);
            let i = s.find(&pat).map(|i| i + pat.len()).unwrap_or(0);
            s[i..].chars().take_while(|c| c.is_ascii_digit()).collect::<String>().parse().unwrap_or(0)
        };
        if s.contains("\"kind\": \"straddle\"") || s.contains("\"kind\": \"registration\"") {
            let tk = *vlab::drivers::ALL_TKINDS.iter().find(|t| s.contains(&format!("\"transport\": \"{}\"", t.name()))).expect("transport");
            let (n, bits) = (g("N"), g("bits") as u8);
            let v = if s.contains("\"kind\": \"straddle\"") {
                match n {
                    256 => c06::run_registration_straddling::<256>(tk, g("below"), bits),
                    _ => c06::run_registration_straddling::<1024>(tk, g("below"), bits),
                }
            } else {
                let (pre, skew) = (g("pre") as usize, g("skew") as u32);
                match n {
                    1 => c06::run_registration::<1>(tk, pre, skew, bits),
                    8 => c06::run_registration::<8>(tk, pre, skew, bits),
                    64 => c06::run_registration::<64>(tk, pre, skew, bits),
                    _ => c06::run_registration::<256>(tk, pre, skew, bits),
                }
            };
            println!("replay registration N={} on {}", n, tk.name());
            for (k, d) in &v {
                println!("VIOLATION property=C06 kind={} detail={}", k, d);
            }
            std::process::exit(if v.is_empty() { 0 } else { 1 });
        }
        let c = Case { legacy: g("legacy") != 0, indirect: g("indirect") != 0, event_idx: g("event_idx") != 0, ap: g("ap") != 0, in_use: g("in_use") != 0, max: g("max") as u32, skew: g("skew") as u32, fail_alloc: g("fail_alloc") as u32 };
        let n = g("N");
        let h = std::thread::Builder::new().stack_size(512 << 20).spawn(move || replay_case(n, c)).unwrap();
        let v = h.join().unwrap();
        println!("replay N={} {:?}", n, c);
        for (k, d) in &v {
            println!("VIOLATION property=C06 kind={} detail={}", k, d);
        }
        std::process::exit(if v.is_empty() { 0 } else { 1 });
    }
    let mut c = Check::new("C06", args.tier, "exploration");
    c.rule = "complete enumeration of the configuration space: queue size (16 powers of two) x layout x 8 flag combinations x queue_used answer x max_queue_size (every value 0..N+1 for N<=64, boundary representatives otherwise: behaviour depends on the maximum only through max<N); distinct = distinct (size, outcome class) pairs".into();
    c.assumptions = vec!["the full size range is enumerated on the model transport; the real transports (parts registration:*) are exercised with N = 1, 8, 64".into()];
    macro_rules! sizes {
        ($($n:literal),*) => {{
            let hs: Vec<std::thread::JoinHandle<(u64, BTreeMap<String, u64>, Vec<(Case, String, String)>, usize)>> = vec![
                $(std::thread::Builder::new().stack_size(512 << 20).spawn(|| { let r = run_size::<$n>(None); (r.0, r.1, r.2, $n) }).unwrap(),)*
            ];
            hs
        }};
    }
    let hs = sizes!(1, 2, 4, 8, 16, 32, 64, 128, 256, 512, 1024, 2048, 4096, 8192, 16384, 32768);
    for h in hs {
        let (ev, outcomes, viols, n) = h.join().expect("size thread");
        let part = format!("layout:N={}", n);
        c.add_sweep(&part, ev, outcomes.len() as u64, true, J::obj().set("outcomes", J::Obj(outcomes.iter().map(|(k, v)| (k.clone(), J::i(*v))).collect())));
        c.add_tags(&outcomes);
        for (case, k, d) in viols {
            let replay = J::obj()
                .set("kind", J::s("case"))
                .set("N", J::i(n))
                .set("legacy", J::i(case.legacy as u8))
                .set("indirect", J::i(case.indirect as u8))
                .set("event_idx", J::i(case.event_idx as u8))
                .set("ap", J::i(case.ap as u8))
                .set("in_use", J::i(case.in_use as u8))
                .set("max", J::i(case.max))
                .set("skew", J::i(case.skew))
                .set("fail_alloc", J::i(case.fail_alloc));
            c.add_violation(Violation::new("C06", k, format!("N={} {:?}: {}", n, case, d)), &part, replay, vec![]);
        }
    }
    // Registration through the real transports: what the device ends up with.
    {
        use vlab::drivers::ALL_TKINDS;
        let mut ev = 0u64;
        let mut classes = std::collections::HashSet::new();
        for tk in ALL_TKINDS {
            let part = format!("registration:{}", tk.name());
            let mut seen = std::collections::HashSet::new();
            for pre in 0..7usize {
                for skew in [0u32, 0xFFFFF] {
                    for bits in 0..8u8 {
                        for n in [1usize, 8, 64, 256] {
                            let mut v = match n {
                                1 => vlab::c06::run_registration::<1>(tk, pre, skew, bits),
                                8 => vlab::c06::run_registration::<8>(tk, pre, skew, bits),
                                64 => vlab::c06::run_registration::<64>(tk, pre, skew, bits),
                                _ => vlab::c06::run_registration::<256>(tk, pre, skew, bits),
                            };
                            // The second queue of the device, also created a second time after
                            // the device was re-initialised (reset) in between.
                            if n == 8 && skew == 0 {
                                for twice in [false, true] {
                                    v.extend(vlab::c06::run_registration_of::<8>(tk, pre, skew, bits, 1, twice));
                                    ev += 1;
                                }
                            }
                            ev += 1;
                            classes.insert((tk.name(), n, v.is_empty()));
                            for (k, d) in v {
                                if seen.insert(k.clone()) {
                                    c.add_violation(Violation::new("C06", k, format!("{} transport, N={}, {} earlier allocations, skew {:#x}, flags {:#b}: {}", tk.name(), n, pre, skew, bits, d)), &part, J::obj().set("kind", J::s("registration")).set("transport", J::s(tk.name())).set("N", J::i(n)).set("pre", J::i(pre)).set("skew", J::i(skew)).set("bits", J::i(bits)), vec![]);
                                }
                            }
                        }
                    }
                }
            }
        }
        // Regions that straddle a 4 GiB boundary of device address space (N = 256 and 1024: the
        // descriptor table fills whole pages, so the available ring / used ring start on the
        // other side of the boundary).
        for tk in ALL_TKINDS {
            let part = format!("registration:{}", tk.name());
            let mut seen = std::collections::HashSet::new();
            for below in 1..=5u64 {
                for bits in 0..8u8 {
                    for n in [256usize, 1024] {
                        let v = match n {
                            256 => vlab::c06::run_registration_straddling::<256>(tk, below, bits),
                            _ => vlab::c06::run_registration_straddling::<1024>(tk, below, bits),
                        };
                        ev += 1;
                        classes.insert((tk.name(), n + 1, v.is_empty()));
                        for (k, d) in v {
                            if seen.insert(k.clone()) {
                                c.add_violation(Violation::new("C06", k, format!("{} transport, N={}, first region starting {} pages below a 4 GiB boundary, flags {:#b}: {}", tk.name(), n, below, bits, d)), &part, J::obj().set("kind", J::s("straddle")).set("transport", J::s(tk.name())).set("N", J::i(n)).set("below", J::i(below)).set("bits", J::i(bits)), vec![]);
                            }
                        }
                    }
                }
            }
        }
        // Maximum sizes that are not powers of two, through the real transports.
        for tk in ALL_TKINDS {
            let part = format!("registration:{}", tk.name());
            let mut seen = std::collections::HashSet::new();
            for max in [0u32, 1, 3, 5, 6, 7, 8, 9, 12, 15, 16, 17, 100, 0x7fff, 0x8000, 0xffff] {
                let v = vlab::c06::run_refusal::<8>(tk, max);
                ev += 1;
                for (k, d) in v {
                    if seen.insert(k.clone()) {
                        c.add_violation(Violation::new("C06", k, format!("{} transport, N=8, device maximum {}: {}", tk.name(), max, d)), &part, J::obj().set("kind", J::s("refusal")).set("transport", J::s(tk.name())).set("max", J::i(max)), vec![]);
                    }
                }
            }
        }
        // Per-queue maxima: queue 1 asked for with 8 entries after queue 0 was created, the two
        // queues allowing different sizes (not on PCI, whose register model copies the maxima when
        // the world is built).
        for tk in ALL_TKINDS {
            if tk == vlab::drivers::TKind::Pci {
                continue;
            }
            let part = format!("registration:{}", tk.name());
            for (max0, max1) in [(256u32, 4u32), (4, 256), (8, 8), (256, 7), (4, 8)] {
                let v = vlab::c06::run_refusal_second::<8>(tk, max0, max1);
                ev += 1;
                for (k, d) in v {
                    c.add_violation(Violation::new("C06", k, format!("{} transport, maxima {} (queue 0) and {} (queue 1): {}", tk.name(), max0, max1, d)), &part, J::obj().set("kind", J::s("refusal-second")).set("transport", J::s(tk.name())).set("max0", J::i(max0)).set("max1", J::i(max1)), vec![]);
                }
            }
        }
        // DMA memory at and above 2^44.
        for tk in ALL_TKINDS {
            let part = format!("registration:{}", tk.name());
            let v = vlab::c06::run_high_memory::<8>(tk);
            ev += 1;
            for (k, d) in v {
                c.add_violation(Violation::new("C06", k, format!("{} transport, N=8, DMA memory above 2^44: {}", tk.name(), d)), &part, J::obj().set("kind", J::s("high-memory")).set("transport", J::s(tk.name())), vec![]);
            }
        }
        // A second creation while the first queue is live (at several places in memory).
        for tk in ALL_TKINDS {
            let part = format!("registration:{}", tk.name());
            let mut seen = std::collections::HashSet::new();
            for pre in 0..4usize {
                let v = vlab::c06::run_in_use::<8>(tk, pre);
                ev += 1;
                for (k, d) in v {
                    if seen.insert(k.clone()) {
                        c.add_violation(Violation::new("C06", k, format!("{} transport, N=8, {} earlier allocations, queue already in use: {}", tk.name(), pre, d)), &part, J::obj().set("kind", J::s("in-use")).set("transport", J::s(tk.name())).set("pre", J::i(pre)), vec![]);
                    }
                }
            }
        }
        c.add_sweep("registration: VirtQueue::new (N = 1, 8, 64, 256; 8 flag combinations) on the model, MMIO legacy, MMIO modern and PCI transports with the queue's regions starting in each of 7 different 4 GiB windows and two platform address skews; the addresses the register-level device received are held against the layout oracle; queue 1 of a two-queue device also created a second time after a re-initialisation; N = 256 and 1024 with the first region starting 1-5 pages below a 4 GiB boundary; N = 8 against 16 device maxima including values that are not powers of two; queue 1 against its own maximum after queue 0 (with another maximum) was created; a second creation of a live queue; DMA memory above 2^44", ev, classes.len() as u64, true, J::obj());
    }
    c.add_sample(J::obj().set("case", J::s("N=256 legacy=true indirect=false event_idx=true ap=false in_use=false max=256 -> created; queue_set(desc=P, driver=P+4096, device=P+8192), 3 pages freed once")));
    c.finish();
}
