use std::time::Duration;
use vlab::c20;
use vlab::c20_sound;
use vlab::drivers::{Kind, TKind};
use vlab::engine::dfs::{self, DfsConfig};
use vlab::engine::report::{self, Check, Tier};
use vlab::engine::Violation;
use vlab::util::J;

#[derive(Clone, Copy)]
enum P {
    Gpu(TKind, usize, usize),
    Small(TKind, Kind),
    Sound(TKind, usize, usize),
    Pcm(TKind, usize, usize),
    /// The 9P mount tag while the device changes it (up to 3 updates between register reads).
    Tag(TKind),
}

fn parts(tier: Tier) -> Vec<(String, P)> {
    let mut v = vec![];
    let mut add = |p: P| {
        let name = match p {
            P::Gpu(t, d, dev) => format!("gpu:{}:depth={}:dev={}", t.name(), d, dev),
            P::Small(t, k) => format!("{}:{}", k.name(), t.name()),
            P::Sound(t, d, dev) => format!("sound:{}:depth={}:dev={}", t.name(), d, dev),
            P::Pcm(t, d, dev) => format!("sound-pcm:{}:depth={}:dev={}", t.name(), d, dev),
            P::Tag(t) => format!("9p-mount-tag-under-updates:{}", t.name()),
        };
        v.push((name, p));
    };
    match tier {
        Tier::Quick => {
            add(P::Gpu(TKind::Model, 3, 2));
            add(P::Gpu(TKind::Pci, 2, 1));
            add(P::Sound(TKind::Model, 3, 2));
            add(P::Sound(TKind::MmioModern, 2, 1));
            add(P::Pcm(TKind::Model, 5, 2));
        }
        Tier::Thorough => {
            add(P::Gpu(TKind::Model, 4, 2));
            add(P::Gpu(TKind::Pci, 3, 2));
            add(P::Gpu(TKind::MmioLegacy, 3, 2));
            add(P::Sound(TKind::Model, 4, 2));
            add(P::Sound(TKind::Model, 5, 1));
            add(P::Sound(TKind::Pci, 3, 2));
            add(P::Pcm(TKind::Model, 8, 2));
            add(P::Pcm(TKind::Pci, 6, 2));
        }
    }
    for t in [TKind::Model, TKind::MmioLegacy, TKind::Pci] {
        for k in [Kind::Rng, Kind::Rtc, Kind::P9] {
            add(P::Small(t, k));
        }
    }
    add(P::Tag(TKind::MmioModern));
    add(P::Tag(TKind::Pci));
    v
}

fn runner(p: P) -> Box<dyn Fn() + Sync> {
    match p {
        P::Gpu(t, d, _) => Box::new(move || c20::run_gpu(t, d)),
        P::Small(t, k) => Box::new(move || c20::run_small(t, k)),
        P::Sound(t, d, _) => Box::new(move || c20_sound::run_sound(t, d, false)),
        P::Pcm(t, d, _) => Box::new(move || c20_sound::run_sound(t, d, true)),
        P::Tag(t) => Box::new(move || vlab::c13::run_tear_as("C20", "mount-tag", Kind::P9, t)),
    }
}

fn main() {
    let args = report::parse_args();
    vlab::util::install_quiet_panic_hook();
    if let Some(p) = &args.replay {
        let doc = report::load_replay(p).unwrap_or_else(|e| {
            eprintln!("{}", e);
            std::process::exit(2)
        });
        for tier in [Tier::Quick, Tier::Thorough] {
            for (name, p) in parts(tier) {
                if doc.part == name {
                    let f = runner(p);
                    std::process::exit(vlab::replay::replay_dfs(&doc, &*f));
                }
            }
        }
        eprintln!("unknown or self-describing part {}", doc.part);
        std::process::exit(2);
    }
    let thorough = args.tier == Tier::Thorough;
    let mut c = Check::new("C20", args.tier, "model_checking");
    c.rule = "deviation-bounded DFS over sequences of public operations of the GPU driver (resolution, flush, setup_cursor, move_cursor, change_resolution over 4 sizes, setup_framebuffer, get_edid) and the sound driver (set_params valid/invalid, prepare/release/start/stop, blocking and non-blocking PCM transfers with any completion order, pcm_xfer_ok right/wrong token, jack_remap) with the device's response a bounded deviation (honest / error / wrong success type; per-period PCM status; for the blocking transfer also the device pace: served when notified, late oldest first, late newest first); the 9P mount tag read while the device changes it (up to 3 updates placed between the individual register reads); fixed scripts with explored device answers for entropy, clock and 9P on 3 transports; exhaustive EDID sweeps through the real get_edid path. distinct = distinct observation signatures".into();
    c.assumptions = vec!["EDID: 2^8192 blobs are projected onto the bits the decoders read: all 2^24 (quick: 2^18) combinations for the preferred timing, all 2^16 values of one standard timing, all pairs of 16 values for ordering, 6 size values".into()];
    for (name, p) in parts(args.tier) {
        let dev = match p {
            P::Gpu(_, _, d) | P::Sound(_, _, d) | P::Pcm(_, _, d) => d,
            P::Small(..) => 2,
            P::Tag(..) => 3,
        };
        let mut cfg = DfsConfig::new(&name, dev);
        cfg.wall_cap = Duration::from_secs(if thorough { 1500 } else { 30 });
        let f = runner(p);
        let st = dfs::explore(&cfg, &*f);
        c.add_dfs(&name, &st);
    }
    // Sound devices with many streams (single executions per count and transport).
    {
        let mut ev = 0u64;
        let mut ok = 0u64;
        for tk in [vlab::drivers::TKind::Model, vlab::drivers::TKind::Pci] {
            for n in [1u32, 2, 63, 64, 65, 70, 127] {
                let v = c20_sound::run_many_streams(tk, n);
                ev += 1;
                if v.is_empty() {
                    ok += 1;
                }
                for (k, d) in v {
                    c.add_violation(vlab::engine::Violation::new("C20", k, format!("sound device with {} streams on {}: {}", n, tk.name(), d)), "sound-many-streams", vlab::util::J::obj().set("kind", vlab::util::J::s("many-streams")).set("streams", vlab::util::J::i(n)).set("transport", vlab::util::J::s(tk.name())), vec![]);
                }
            }
        }
        c.add_sweep("sound-many-streams: devices with 1..127 PCM streams (the driver answers more with a clean panic: its response buffer is one page) on 2 transports; directions and capabilities of every stream id against what the device reported for that id", ev, ok, true, vlab::util::J::obj());
    }
    // EDID sweeps.
    let total: u32 = if thorough { 1 << 24 } else { 1 << 18 };
    let threads = 16u32;
    let results: Vec<c20::EdidOut> = std::thread::scope(|s| {
        let hs: Vec<_> = (0..threads)
            .map(|i| {
                std::thread::Builder::new()
                    .stack_size(32 << 20)
                    .spawn_scoped(s, move || {
                        vlab::util::install_quiet_panic_hook();
                        c20::run_edid(i * (total / threads), (i + 1) * (total / threads), 0)
                    })
                    .unwrap()
            })
            .collect();
        hs.into_iter().map(|h| h.join().unwrap()).collect()
    });
    let mut ev = 0;
    let mut di = 0;
    for r in results {
        ev += r.evals;
        di += r.distinct;
        for (k, d) in r.viols {
            c.add_violation(Violation::new("C20", k, d.clone()), "edid-preferred", J::obj().set("kind", J::s("case")).set("case", J::s(d)), vec![]);
        }
    }
    c.add_sweep(&format!("edid-preferred: {} combinations of the decoded detailed-timing bits through get_edid", total), ev, di, true, J::obj());
    for (mode, name) in [(1u8, "edid-standard: all 65536 values of one standard timing entry"), (2u8, "edid-ordering+size: all pairs of 16 values in two entries; 6 size values")] {
        let r = c20::run_edid(0, 65536, mode);
        c.add_sweep(name, r.evals, r.evals.min(65536), true, J::obj());
        for (k, d) in r.viols {
            c.add_violation(Violation::new("C20", k, d.clone()), "edid-standard", J::obj().set("kind", J::s("case")).set("case", J::s(d)), vec![]);
        }
    }
    c.finish();
}
