use std::collections::HashSet;
use vlab::c10::{self, Env, Op};
use vlab::engine::report::{self, Check, Tier};
use vlab::engine::Violation;
use vlab::util::{H128, J};

fn feature_words() -> Vec<u64> {
    let mut v = vec![0u64, 1, 1 << 31, 1 << 32, 1 << 63, u64::MAX, 0x1_3000_0021, 0xdead_beef_0bad_f00d];
    for i in 0..64 {
        v.push(1u64 << i);
    }
    v
}

fn modern_triples() -> Vec<(u64, u64, u64)> {
    vec![
        (0x1000, 0x2000, 0x3000),
        (0x1_0000_0000, 0x2_0000_0000, 0x3_0000_0000),
        (0xffff_f000, 0x1_0000_0000, 0x1_0000_1000),
        (0x7fff_fff0, 0x8000_0002, 0xffff_fffc),
        (0xffff_ffff_ffff_f000, 0xffff_ffff_0000_0002, 0x0000_0001_ffff_fffc),
        (0x1234_5678_9abc_def0, 0x0fed_cba9_8765_4322, 0x1111_2222_3333_4444),
        (0x10, 0x2, 0x4),
    ]
}

fn legacy_triples(n: u64) -> Vec<(u64, u64, u64)> {
    let used_off = |n: u64| ((16 * n + 2 * (n + 3)) + 4096) & !4095;
    let mut v = vec![];
    for base in [0x1000u64, 0xffff_f000, 0x1_0000_0000, 0xfff_ffff_f000, 0x1000_0000_0000] {
        v.push((base, base + 16 * n, base + used_off(n)));
    }
    // Violating the legacy layout relation or alignment.
    v.push((0x1000, 0x1000 + 16 * n + 2, 0x1000 + used_off(n)));
    v.push((0x1000, 0x1000 + 16 * n, 0x1000 + used_off(n) + 4096));
    v.push((0x1010, 0x1010 + 16 * n, 0x1010 + used_off(n)));
    v
}

struct Acc<'a> {
    c: &'a mut Check,
    evals: u64,
    sigs: HashSet<u64>,
    shown: usize,
}

impl Acc<'_> {
    fn run(&mut self, part: &str, env: &Env, ops: &[Op]) {
        let (v, tr) = c10::run_ops(env, ops);
        self.evals += 1;
        let mut h = H128::new();
        for a in &tr {
            h.u64(a.off | (a.write as u64) << 32 | (a.width as u64) << 40);
            h.u64(a.value);
        }
        h.u64(env.version as u64);
        self.sigs.insert(h.finish64());
        // SomeTransport must produce the identical trace.
        if !env.wrap_some {
            let mut e2 = env.clone();
            e2.wrap_some = true;
            let (v2, tr2) = c10::run_ops(&e2, ops);
            self.evals += 1;
            if tr2 != tr {
                self.c.add_violation(Violation::new("C10", "some-transport-differs", format!("SomeTransport trace differs for {:?}: {:?} vs {:?}", ops, tr2, tr)), part, J::obj().set("kind", J::s("ops")).set("ops", J::s(format!("{:?}", ops))).set("env", J::s(format!("{:?}", env))), vec![]);
            }
            for (k, d) in v2 {
                self.c.add_violation(Violation::new("C10", k, format!("[SomeTransport] version {} {:?}: {}", env.version, ops, d)), part, J::obj().set("kind", J::s("ops")).set("ops", J::s(format!("{:?}", ops))).set("env", J::s(format!("{:?}", e2))), vec![]);
            }
        }
        for (k, d) in v {
            self.c.add_violation(Violation::new("C10", k, format!("version {} {:?}: {}", env.version, ops, d)), part, J::obj().set("kind", J::s("ops")).set("ops", J::s(format!("{:?}", ops))).set("env", J::s(format!("{:?}", env))), vec![]);
        }
        if self.shown < 3 && ops.len() == 1 && matches!(ops[0], Op::QueueSet { .. }) {
            self.shown += 1;
            self.c.add_sample(J::obj().set("ops", J::s(format!("{:?}", ops))).set("version", J::i(env.version)).set("trace", J::strs(tr.iter().map(|a| format!("{} {:#05x} = {:#x}", if a.write { "W" } else { "R" }, a.off, a.value)))));
        }
    }
}

fn main() {
    let args = report::parse_args();
    vlab::util::install_quiet_panic_hook();
    if args.replay.is_some() {
        eprintln!("C10 replays are self-describing (ops and env are in the replay file); re-run the quick check to reproduce");
        std::process::exit(2);
    }
    let mut c = Check::new("C10", args.tier, "exploration");
    c.rule = "complete product of transport operations x version x queue index x queue size x address triples x feature words (and all ordered pairs of 8 feature words written back to back) x status / interrupt-status values x device lag, all ordered pairs of a reduced operation list, all pairs of per-queue operations on the same queue with a device reset in between, and all probe headers (magic flips x versions x device ids x region sizes); every case run twice (plain and through SomeTransport); distinct = distinct register traces".into();
    c.assumptions = vec!["reading ConfigGeneration (0xfc) on a legacy device is tolerated (undefined for version 1, reads as 0)".into()];
    let thorough = args.tier == Tier::Thorough;
    let mut acc = Acc { c: &mut c, evals: 0, sigs: HashSet::new(), shown: 0 };
    let qs = [0u16, 1, 2, 0xFFFF];
    for version in [1u32, 2] {
        let part = format!("mmio-ops:version={}", version);
        let mut env = Env { version, ..Default::default() };
        acc.run(&part, &env, &[Op::NoAccessQueries]);
        for f in feature_words() {
            env.offered = f;
            acc.run(&part, &env, &[Op::ReadFeatures]);
            acc.run(&part, &env, &[Op::WriteFeatures(f)]);
        }
        // The feature word is written twice without a reset in between: the device must end up
        // with exactly the second word, whatever the first one left in either half.
        env.offered = u64::MAX;
        for f1 in feature_words().into_iter().take(8) {
            for f2 in feature_words().into_iter().take(8) {
                acc.run(&part, &env, &[Op::WriteFeatures(f1), Op::WriteFeatures(f2)]);
            }
        }
        env = Env { version, ..Default::default() };
        for q in qs {
            for m in [0u32, 1, 8, 32768, 65536, u32::MAX] {
                env.max_sizes = [m, m, m];
                acc.run(&part, &env, &[Op::MaxQueueSize(q)]);
            }
            acc.run(&part, &env, &[Op::Notify(q)]);
            for in_use in [false, true] {
                env.in_use = [in_use; 3];
                acc.run(&part, &env, &[Op::QueueUsed(q)]);
            }
            env.in_use = [false; 3];
            for lag in [0u32, 1, 2] {
                env.ready_lag = lag;
                acc.run(&part, &env, &[Op::QueueUnset(q)]);
                acc.run(&part, &env, &[Op::QueueSet { q, size: 4, desc: 0x4000, driver: 0x4040, device: 0x5000 }, Op::QueueUnset(q), Op::QueueUsed(q)]);
            }
            env.ready_lag = 0;
        }
        for s in [0u32, 1, 3, 11, 15, 64, 128, 255, u32::MAX] {
            env.status = s;
            acc.run(&part, &env, &[Op::GetStatus]);
            acc.run(&part, &env, &[Op::SetStatus(s)]);
        }
        env.status = 0;
        for isr in [0u32, 1, 2, 3, u32::MAX] {
            env.isr = isr;
            acc.run(&part, &env, &[Op::AckInterrupt]);
        }
        env.isr = 0;
        for g in [0u32, 7, u32::MAX] {
            env.config_gen = g;
            acc.run(&part, &env, &[Op::ReadConfigGen]);
        }
        for ps in [0u32, 4096, 65536, u32::MAX] {
            acc.run(&part, &env, &[Op::SetGuestPageSize(ps)]);
        }
        // queue_set over sizes and address triples.
        let part_qs = format!("mmio-queue_set:version={}", version);
        for q in qs {
            for sh in 0..16 {
                let n = 1u32 << sh;
                let triples = if version == 1 { legacy_triples(n as u64) } else { modern_triples() };
                for (d, dr, de) in triples {
                    let ops = if version == 1 { vec![Op::SetGuestPageSize(4096), Op::QueueSet { q, size: n, desc: d, driver: dr, device: de }] } else { vec![Op::QueueSet { q, size: n, desc: d, driver: dr, device: de }] };
                    acc.run(&part_qs, &env, &ops);
                }
            }
        }
        // All ordered pairs of a reduced operation list (selector discipline across calls).
        let part_p = format!("mmio-pairs:version={}", version);
        let (d, dr, de) = if version == 1 { legacy_triples(8)[2] } else { modern_triples()[2] };
        let mut small: Vec<Op> = vec![Op::ReadFeatures, Op::WriteFeatures(0x1_0000_0001), Op::WriteFeatures(0x21), Op::GetStatus, Op::SetStatus(3), Op::AckInterrupt, Op::ReadConfigGen, Op::SetGuestPageSize(4096)];
        for q in [0u16, 2] {
            small.push(Op::MaxQueueSize(q));
            small.push(Op::Notify(q));
            small.push(Op::QueueSet { q, size: 8, desc: d, driver: dr, device: de });
            small.push(Op::QueueUnset(q));
            small.push(Op::QueueUsed(q));
        }
        // A device reset between two operations on the same queue: the reset puts the device's
        // queue selector back to 0, so the second operation has to select its queue (again).
        for q in [1u16, 2] {
            let per_queue = [Op::MaxQueueSize(q), Op::QueueUsed(q), Op::QueueSet { q, size: 8, desc: d, driver: dr, device: de }, Op::QueueUnset(q)];
            for a in &per_queue {
                for b in &per_queue {
                    let mut ops = vec![];
                    if version == 1 {
                        ops.push(Op::SetGuestPageSize(4096));
                    }
                    ops.push(a.clone());
                    ops.push(Op::SetStatus(0));
                    if version == 1 {
                        ops.push(Op::SetGuestPageSize(4096));
                    }
                    ops.push(b.clone());
                    acc.run(&part_p, &env, &ops);
                }
            }
        }
        env.isr = 3;
        for a in &small {
            for b in &small {
                let mut ops = vec![];
                if version == 1 {
                    ops.push(Op::SetGuestPageSize(4096));
                }
                ops.push(a.clone());
                ops.push(b.clone());
                acc.run(&part_p, &env, &ops);
                if thorough {
                    for x in &small {
                        let mut o3 = ops.clone();
                        o3.push(x.clone());
                        acc.run(&part_p, &env, &o3);
                    }
                }
            }
        }
    }
    let (evals, distinct) = (acc.evals, acc.sigs.len() as u64);
    c.add_sweep("mmio-ops+queue_set+pairs (versions 1,2; plain and SomeTransport)", evals, distinct, true, J::obj());
    // Real initialisation with a real queue on both versions, several sizes.
    let mut ie = 0u64;
    for version in [1u32, 2] {
        let rs = [c10::run_init_with_queue::<1>(version), c10::run_init_with_queue::<8>(version), c10::run_init_with_queue::<256>(version), c10::run_init_with_queue::<1024>(version)];
        for (i, v) in rs.into_iter().enumerate() {
            ie += 1;
            for (k, d) in v {
                c.add_violation(Violation::new("C10", k, format!("init+queue version {} size-case {}: {}", version, i, d)), "mmio-init+queue", J::obj().set("kind", J::s("init")).set("version", J::i(version)).set("case", J::i(i)), vec![]);
            }
        }
    }
    c.add_sweep("mmio-init+queue: begin_init, VirtQueue::new (N in 1,8,256,1024), finish_init on versions 1 and 2", ie, ie, true, J::obj());
    // Probe.
    let mut magics = vec![0x7472_6976u32, 0, 0x7669_7274];
    for b in 0..32 {
        magics.push(0x7472_6976 ^ (1 << b));
    }
    // Device ids: every small value, every single-bit value, and every known id with bits set
    // above the low byte (an id is a 32-bit register: nothing but the exact value is known).
    let mut ids: Vec<u32> = (0..64).collect();
    ids.push(u32::MAX);
    for b in 6..32 {
        ids.push(1 << b);
    }
    for k in (1u32..=25).filter(|k| c10::known_device_id(*k)) {
        for hi in [0x100u32, 0x1_0000, 0x8000_0000, 0xffff_ff00] {
            ids.push(hi | k);
        }
    }
    let mut pe = 0u64;
    let mut accepted = 0u64;
    let mut classes = HashSet::new();
    for &m in &magics {
        for ver in [0u32, 1, 2, 3, u32::MAX] {
            for &id in &ids {
                for size in [0usize, 0xff, 0x100, 0x101, 0x200] {
                    let (acc_, v) = c10::run_probe(m, ver, id, size);
                    pe += 1;
                    if acc_ {
                        accepted += 1;
                    }
                    classes.insert((acc_, m == 0x7472_6976, ver, c10::known_device_id(id), size >= 0x100));
                    for (k, d) in v {
                        c.add_violation(Violation::new("C10", k, format!("probe magic {:#x} version {} id {} size {:#x}: {}", m, ver, id, size, d)), "mmio-probe", J::obj().set("kind", J::s("probe")).set("magic", J::i(m)).set("version", J::i(ver)).set("id", J::i(id)).set("size", J::i(size)), vec![]);
                    }
                }
            }
        }
    }
    // Configuration-space accesses against the size of the region the transport was given: an
    // access that does not lie wholly inside it must not touch anything beyond the register block.
    {
        let mut ev = 0u64;
        let mut cases = 0u64;
        for tk in [vlab::drivers::TKind::MmioLegacy, vlab::drivers::TKind::MmioModern] {
            for wnd in [0usize, 1, 2, 3, 4, 6, 7, 8, 12, 16] {
                let r = vlab::c13::bounds_case(tk, Some(wnd));
                ev += r.evals;
                cases += 1;
                let mut seen = std::collections::HashSet::new();
                for (k, d) in r.viols {
                    if (k.starts_with("config-access-out-of-window") || k.starts_with("config-access-stray") || k.starts_with("config-access-extra-bytes") || k.starts_with("config-access-after-refusal") || k.starts_with("config-read-value") || k.starts_with("config-write-value") || k.starts_with("config-access-coverage")) && seen.insert(k.clone()) {
                        c.add_violation(Violation::new("C10", format!("config-window:{}", k), format!("{} transport, region of 0x100 + {} bytes: {}", tk.name(), wnd, d)), "mmio-config-window", J::obj().set("kind", J::s("case")).set("case", J::s(d)), vec![]);
                    }
                }
            }
        }
        c.add_sweep("mmio-config-window: every access type (1, 2, 4 bytes and 3-, 6-, 8-, 12-byte arrays) at every aligned offset up to 8 bytes past regions with 0..16 bytes of configuration space, versions 1 and 2", ev, cases, true, J::obj());
    }
    // Devices whose Status register is not 0 when they are probed.
    for status in [1u32, 3, 0xb, 0xf, 0x4f, 0x80] {
        for (m, ver, id, size) in [(0x7472_6976u32, 1u32, 2u32, 0x200usize), (0x7472_6976, 2, 2, 0x200), (0x7472_6976, 2, 19, 0x100), (0x7472_6976, 1, 1, 0x100), (0x7472_6976, 3, 2, 0x200), (0x7472_6976, 2, 0, 0x200), (0, 2, 2, 0x200), (0x7472_6976, 2, 2, 0xff)] {
            let (acc_, v) = c10::run_probe_status(m, ver, id, size, status);
            pe += 1;
            if acc_ {
                accepted += 1;
            }
            classes.insert((acc_, m == 0x7472_6976, ver, c10::known_device_id(id), size >= 0x100));
            for (k, d) in v {
                c.add_violation(Violation::new("C10", k, format!("probe magic {:#x} version {} id {} size {:#x} device status {:#x}: {}", m, ver, id, size, status, d)), "mmio-probe", J::obj().set("kind", J::s("probe")).set("magic", J::i(m)).set("version", J::i(ver)).set("id", J::i(id)).set("size", J::i(size)).set("status", J::i(status)), vec![]);
            }
        }
    }
    c.add_sweep(&format!("mmio-probe: 35 magic values x 5 versions x {} device ids (0..63, single bits, known ids with high bits set, all-ones) x 5 region sizes, and 8 headers x 6 non-zero device status values", ids.len()), pe, classes.len() as u64, true, J::obj().set("accepted", J::i(accepted)));
    c.finish();
}
