use std::time::Duration;
use vlab::c15;
use vlab::drivers::TKind;
use vlab::engine::dfs::{self, DfsConfig};
use vlab::engine::report::{self, Check, Tier};

fn parts(tier: Tier) -> Vec<(TKind, usize)> {
    match tier {
        Tier::Quick => vec![(TKind::Model, 5), (TKind::MmioModern, 3)],
        Tier::Thorough => vec![(TKind::Model, 6), (TKind::MmioLegacy, 4), (TKind::MmioModern, 4), (TKind::Pci, 4)],
    }
}

fn main() {
    let args = report::parse_args();
    vlab::util::install_quiet_panic_hook();
    if let Some(p) = &args.replay {
        let doc = report::load_replay(p).unwrap_or_else(|e| {
            eprintln!("{}", e);
            std::process::exit(2)
        });
        for tier in [Tier::Quick, Tier::Thorough] {
            for (t, d) in parts(tier) {
                if doc.part == format!("console:{}:depth={}", t.name(), d) {
                    std::process::exit(vlab::replay::replay_dfs(&doc, &move || c15::run(t, d)));
                }
            }
        }
        eprintln!("unknown part {}", doc.part);
        std::process::exit(2);
    }
    let mut c = Check::new("C15", args.tier, "model_checking");
    c.rule = "DFS over every interleaving (bounded depth) of device chunks (1, 3, 4096 bytes; also delivered while a blocking read waits, with every chunk size) and driver calls recv(peek), recv(pop), read(1|5), fill_buf+consume(0|1|all), read_ready, ack_interrupt, send, send_bytes, embedded-io Write::write (2 and 4097 bytes, empty), write_all (8193 bytes), fmt::Write::write_str, plus a sweep of fmt::Write::write_char over every Unicode scalar value and formatted output with character arguments and fill characters; the device stream is 1,2,3,... so loss, duplication and reordering are visible. distinct = distinct observation signatures".into();
    for (t, d) in parts(args.tier) {
        let part = format!("console:{}:depth={}", t.name(), d);
        let mut cfg = DfsConfig::new(&part, 0);
        cfg.wall_cap = Duration::from_secs(if args.tier == Tier::Quick { 40 } else { 2400 });
        let st = dfs::explore(&cfg, &move || c15::run(t, d));
        c.add_dfs(&part, &st);
    }
    // fmt::Write: every Unicode scalar value through write_char, and formatted output that passes
    // characters (arguments, fill characters).
    {
        let (n, v) = match vlab::util::catch(|| c15::sweep_fmt(TKind::Model)) {
            Ok(r) => r,
            Err(p) => {
                if p.contains("LAB-LIVELOCK") {
                    // More than 65536 transmissions go through the queue in this sweep: a wait
                    // that never ends although the device has used the buffer is a verdict.
                    (1, vec![("fmt-write-livelock".to_string(), format!("the console keeps waiting for a transmission the device has completed: {}", p))])
                } else if vlab::util::is_driver_panic(&p) {
                    (1, vec![("fmt-write-panic".to_string(), format!("the library panicked during the formatting sweep: {}", p))])
                } else {
                    c.machinery_error(format!("fmt-write sweep: harness panic: {}", p));
                    (0, vec![])
                }
            }
        };
        c.add_sweep("fmt-write: write_char for all 1112064 Unicode scalar values and formatted output with character arguments and non-ASCII fill", n, n, true, vlab::util::J::obj());
        for (k, d) in v {
            c.add_violation(vlab::engine::Violation::new("C15", k, d.clone()), "fmt-write", vlab::util::J::obj().set("kind", vlab::util::J::s("case")).set("case", vlab::util::J::s(d)), vec![]);
        }
    }
    // A receive session of more than 65536 chunks (the ring indices wrap).
    {
        let chunks = if args.tier == vlab::engine::report::Tier::Quick { 70_000 } else { 200_000 };
        let (n, v) = match vlab::util::catch(|| c15::run_linear_rx(TKind::Model, chunks)) {
            Ok(r) => r,
            Err(p) => {
                if p.contains("LAB-LIVELOCK") || vlab::util::is_driver_panic(&p) {
                    (1, vec![("linear-receive".to_string(), format!("long receive session: {}", p))])
                } else {
                    c.machinery_error(format!("linear receive run: harness panic: {}", p));
                    (0, vec![])
                }
            }
        };
        c.add_sweep(&format!("linear-receive: one session of {} chunks of 1-3 bytes, every byte taken with recv(true)", chunks), n, 1, true, vlab::util::J::obj());
        for (k, d) in v {
            c.add_violation(vlab::engine::Violation::new("C15", k, d.clone()), "linear-receive", vlab::util::J::obj().set("kind", vlab::util::J::s("case")).set("case", vlab::util::J::s(d)), vec![]);
        }
    }
    c.finish();
}
