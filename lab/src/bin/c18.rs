use std::time::Duration;
use vlab::c18;
use vlab::drivers::TKind;
use vlab::engine::dfs::{self, DfsConfig};
use vlab::engine::report::{self, Check, Tier};

fn parts(tier: Tier) -> Vec<(TKind, usize, u8)> {
    match tier {
        Tier::Quick => vec![(TKind::Model, 3, 1), (TKind::Model, 3, 3), (TKind::Model, 5, 0), (TKind::MmioModern, 3, 0), (TKind::Model, 5, 4), (TKind::Model, 6, 5)],
        Tier::Thorough => vec![(TKind::Model, 4, 1), (TKind::Model, 4, 3), (TKind::Model, 7, 0), (TKind::Pci, 3, 1), (TKind::MmioLegacy, 3, 1), (TKind::Model, 7, 4), (TKind::Model, 8, 5)],
    }
}

fn main() {
    let args = report::parse_args();
    vlab::util::install_quiet_panic_hook();
    if let Some(p) = &args.replay {
        let doc = report::load_replay(p).unwrap_or_else(|e| {
            eprintln!("{}", e);
            std::process::exit(2)
        });
        for tier in [Tier::Quick, Tier::Thorough] {
            for (t, d, l) in parts(tier) {
                if doc.part == format!("vsock-state:{}:depth={}:alphabet={}", t.name(), d, l) {
                    std::process::exit(vlab::replay::replay_dfs(&doc, &move || c18::run(t, d, l)));
                }
            }
        }
        eprintln!("unknown part {}", doc.part);
        std::process::exit(2);
    }
    let mut c = Check::new("C18", args.tier, "model_checking");
    c.rule = "DFS over every sequence (bounded depth) of local operations (listen, unlisten, connect, send, recv, shutdown, force_close, update_credit, poll) and peer packets (REQUEST, RESPONSE, RST, SHUTDOWN, RW, CREDIT_UPDATE, CREDIT_REQUEST, op 0, op 9; for our cid and a foreign cid) over 2 peers x 2 local ports (alphabets 1 and 3: 56 events; the second peer differs from the first in its port only, resp. its cid only) or 1 peer x 1 port (alphabet 0: 20 events, deeper), or the listening table (alphabet 4: listen and unlisten of 3 ports in any order, connection requests to those and to a port never listened on; 10 events, deeper), or the life cycle of one connection (alphabet 5: connect, send, recv into a 3-byte and into an exactly fitting buffer, shutdown, force_close and the peer's RESPONSE, RST, SHUTDOWN (both hints, receive only, send only), RW in any order; 12 events, deeper), against a lock-step reference model of the connection table. distinct = distinct observation signatures".into();
    for (t, d, l) in parts(args.tier) {
        let part = format!("vsock-state:{}:depth={}:alphabet={}", t.name(), d, l);
        let mut cfg = DfsConfig::new(&part, 0);
        cfg.wall_cap = Duration::from_secs(if args.tier == Tier::Quick { 30 } else { 2400 });
        let st = dfs::explore(&cfg, &move || c18::run(t, d, l));
        c.add_dfs(&part, &st);
    }
    c.finish();
}
