use std::time::Duration;
use vlab::engine::report::{self, Check, Tier};
use vlab::qcheck;

fn main() {
    let args = report::parse_args();
    if let Some(p) = &args.replay {
        let doc = report::load_replay(p).unwrap_or_else(|e| {
            eprintln!("{}", e);
            std::process::exit(2)
        });
        std::process::exit(qcheck::replay(&doc));
    }
    let mut c = Check::new("C04", args.tier, "model_checking");
    c.rule = "BFS over histories of add(shape)/device-complete(any in-flight chain)/pop_used(right, wrong outstanding, wrong free, empty) on the real VirtQueue; a state is distinct by the hash of its complete concrete snapshot (private fields, device-visible memory, ledger, reference device); every transition re-executes the history on the implementation and the reference device validates the published chain".into();
    c.assumptions = qcheck::standard_assumptions();
    let plans = qcheck::tier_plans(args.tier, false);
    let budget = if args.tier == Tier::Quick { Duration::from_secs(40) } else { Duration::from_secs(1500) };
    qcheck::run_plans(&mut c, &plans, budget);
    qcheck::run_linear(&mut c, args.tier);
    c.finish();
}
