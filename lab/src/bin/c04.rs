use std::time::Duration;
use vlab::engine::report::{self, Check, Tier};
use vlab::qcheck;

fn main() {
    let args = report::parse_args();
    if let Some(p) = &args.replay {
        let doc = report::load_replay(p).unwrap_or_else(|e| {
            eprintln!("{}", e);
            std::process::exit(2)
        });
        if doc.part.starts_with("driver-ledger:") {
            let name = doc.part.split(':').nth(1).unwrap_or("").to_string();
            vlab::util::install_quiet_panic_hook();
            match vlab::drivers::ALL_KINDS.into_iter().find(|k| k.name() == name) {
                Some(k) => std::process::exit(vlab::replay::replay_dfs(&doc, &move || vlab::c05_drivers::run_driver_ledger(k, vlab::drivers::TKind::Model))),
                None => std::process::exit(2),
            }
        }
        if doc.part.starts_with("transports:") {
            let name = doc.part.split(':').nth(1).unwrap_or("").to_string();
            let rounds: usize = doc.part.rsplit('=').next().and_then(|x| x.parse().ok()).unwrap_or(6);
            vlab::util::install_quiet_panic_hook();
            match vlab::drivers::ALL_TKINDS.into_iter().find(|t| t.name() == name) {
                Some(t) => std::process::exit(vlab::replay::replay_dfs(&doc, &move || vlab::c04_transports::run(t, rounds))),
                None => std::process::exit(2),
            }
        }
        std::process::exit(qcheck::replay(&doc));
    }
    let mut c = Check::new("C04", args.tier, "model_checking");
    c.rule = "BFS over histories of add(shape)/device-complete(any in-flight chain)/pop_used(right, wrong outstanding, wrong free, empty) on the real VirtQueue; a state is distinct by the hash of its complete concrete snapshot (private fields, device-visible memory, ledger, reference device); every transition re-executes the history on the implementation and the reference device validates the published chain. Parts transports:*: a VirtQueue on each real transport (model, MMIO legacy/modern, PCI) with the platform handing out DMA regions in different 4 GiB windows; the reference device learns the queue areas only from the transport registers and must resolve every address through the platform ledger. Parts driver-ledger:*: every driver's script (every queue, buffers handed back in several orders) with unshare mismatches, unknown or repeated unshares reported after every operation".into();
    c.assumptions = qcheck::standard_assumptions();
    let plans = qcheck::tier_plans(args.tier, false);
    let budget = if args.tier == Tier::Quick { Duration::from_secs(40) } else { Duration::from_secs(1500) };
    qcheck::run_plans(&mut c, &plans, budget);
    qcheck::run_linear(&mut c, args.tier);
    // The same property through the register encodings of the real transports.
    for t in vlab::drivers::ALL_TKINDS {
        let rounds = if args.tier == Tier::Quick { 6 } else { 24 };
        let part = format!("transports:{}:rounds={}", t.name(), rounds);
        let cfg = vlab::engine::dfs::DfsConfig::new(&part, 0);
        let st = vlab::engine::dfs::explore(&cfg, &move || vlab::c04_transports::run(t, rounds));
        c.add_dfs(&part, &st);
    }
    // The same discipline one level up: every driver's script (every queue touched, buffers handed
    // back in several orders, rejected packets, late polls) with the ledger's verdict after every
    // operation.
    for k in vlab::drivers::ALL_KINDS {
        let part = format!("driver-ledger:{}:model", k.name());
        let cfg = vlab::engine::dfs::DfsConfig::new(&part, 0);
        let st = vlab::engine::dfs::explore(&cfg, &move || vlab::c05_drivers::run_driver_ledger(k, vlab::drivers::TKind::Model));
        c.add_dfs(&part, &st);
    }
    c.finish();
}
