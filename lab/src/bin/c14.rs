use std::time::Duration;
use vlab::c14;
use vlab::drivers::TKind;
use vlab::engine::dfs::{self, DfsConfig};
use vlab::engine::report::{self, Check, Tier};

fn parts(tier: Tier) -> Vec<(TKind, usize, usize, bool)> {
    match tier {
        Tier::Quick => vec![(TKind::Model, 3, 2, false), (TKind::Pci, 2, 1, false), (TKind::Model, 7, 2, true)],
        Tier::Thorough => vec![(TKind::Model, 4, 2, false), (TKind::Model, 5, 1, false), (TKind::MmioLegacy, 3, 2, false), (TKind::MmioModern, 3, 2, false), (TKind::Pci, 3, 2, false), (TKind::Model, 9, 2, true), (TKind::Pci, 7, 2, true)],
    }
}

fn full_parts(tier: Tier) -> Vec<(TKind, usize, usize)> {
    match tier {
        Tier::Quick => vec![(TKind::Model, 2, 2), (TKind::Pci, 1, 1)],
        Tier::Thorough => vec![(TKind::Model, 2, 3), (TKind::Model, 3, 2), (TKind::Pci, 2, 2), (TKind::MmioLegacy, 2, 2)],
    }
}

fn main() {
    let args = report::parse_args();
    vlab::util::install_quiet_panic_hook();
    if let Some(p) = &args.replay {
        let doc = report::load_replay(p).unwrap_or_else(|e| {
            eprintln!("{}", e);
            std::process::exit(2)
        });
        for tier in [Tier::Quick, Tier::Thorough] {
            for (t, d, dev, nb) in parts(tier) {
                if doc.part == format!("blk:{}:depth={}:dev={}:nb={}", t.name(), d, dev, nb as u8) {
                    std::process::exit(vlab::replay::replay_dfs(&doc, &move || c14::run(t, d, nb)));
                }
            }
        }
        for tier in [Tier::Quick, Tier::Thorough] {
            for (t, rounds, dev) in full_parts(tier) {
                if doc.part == format!("blk-queue-full:{}:rounds={}:dev={}", t.name(), rounds, dev) {
                    std::process::exit(vlab::replay::replay_dfs(&doc, &move || c14::run_full(t, rounds)));
                }
            }
        }
        for nb in [false, true] {
            if doc.part == format!("status-sweep:model:nb={}", nb as u8) {
                std::process::exit(vlab::replay::replay_dfs(&doc, &move || c14::run_status_sweep(TKind::Model, nb)));
            }
        }
        for t in [TKind::MmioModern, TKind::Pci] {
            if doc.part == format!("capacity-under-resize:{}", t.name()) {
                std::process::exit(vlab::replay::replay_dfs(&doc, &move || vlab::c13::run_tear_as("C14", "capacity", vlab::drivers::Kind::Blk, t)));
            }
        }
        eprintln!("unknown part {}", doc.part);
        std::process::exit(2);
    }
    let mut c = Check::new("C14", args.tier, "model_checking");
    c.rule = "DFS over operation sequences (read/write over 5 sector/length variants incl. 2^32 and 2^64-1, flush, device_id, non-blocking read/write with up to 3 outstanding, device completion of any held request, consumption of the next completion) x 4 feature sets, with the device's status a bounded deviation (OK default; IOERR, UNSUPP, 0xff, 3 = the driver's own not-ready placeholder). Parts status-sweep: every status byte 0..=255 for every request kind (blocking calls at depth 1; non-blocking submit / complete / consume at depth 3) must map to Ok / IoError / Unsupported / NotReady as documented; reference in-memory disk decoding every chain. Parts blk-queue-full: non-blocking requests are submitted until the driver refuses (exactly 5 fit directly and 16 with indirect descriptors on the 16-descriptor queue; the refusal must be QueueFull without side effects and every outstanding chain must still decode as submitted), the device completes them in an explored order (deviation = not the oldest) with explored statuses, each completion must return its own status and data, and the whole is repeated on the recycled queue. distinct = distinct observation signatures".into();
    c.assumptions = vec!["blocking helpers are only called with nothing else in flight (their documented precondition)".into()];
    for (t, d, dev, nb) in parts(args.tier) {
        let part = format!("blk:{}:depth={}:dev={}:nb={}", t.name(), d, dev, nb as u8);
        let mut cfg = DfsConfig::new(&part, dev);
        cfg.wall_cap = Duration::from_secs(if args.tier == Tier::Quick { 40 } else { 1500 });
        let st = dfs::explore(&cfg, &move || c14::run(t, d, nb));
        c.add_dfs(&part, &st);
    }
    // Every status byte 0..=255 for every request kind.
    for nb in [false, true] {
        let part = format!("status-sweep:model:nb={}", nb as u8);
        let cfg = DfsConfig::new(&part, 0);
        let st = dfs::explore(&cfg, &move || c14::run_status_sweep(TKind::Model, nb));
        c.add_dfs(&part, &st);
    }
    // Capacity under device-side resizes: whatever the placement of up to 3 configuration updates
    // between the driver's individual register reads, capacity() is a value the device exposed.
    for t in [TKind::MmioModern, TKind::Pci] {
        let part = format!("capacity-under-resize:{}", t.name());
        let cfg = DfsConfig::new(&part, 3);
        let st = dfs::explore(&cfg, &move || vlab::c13::run_tear_as("C14", "capacity", vlab::drivers::Kind::Blk, t));
        c.add_dfs(&part, &st);
    }
    // A queue-full of outstanding requests (5 direct, 16 indirect), any completion order, twice.
    for (t, rounds, dev) in full_parts(args.tier) {
        let part = format!("blk-queue-full:{}:rounds={}:dev={}", t.name(), rounds, dev);
        let mut cfg = DfsConfig::new(&part, dev);
        cfg.wall_cap = Duration::from_secs(if args.tier == Tier::Quick { 30 } else { 1500 });
        let st = dfs::explore(&cfg, &move || c14::run_full(t, rounds));
        c.add_dfs(&part, &st);
    }
    // A long session (ring indices wrap).
    {
        let requests = if args.tier == Tier::Quick { 70_000 } else { 200_000 };
        let (n, v) = match vlab::util::catch(|| c14::run_linear(TKind::Model, requests)) {
            Ok(r) => r,
            Err(p) => {
                if p.contains("LAB-LIVELOCK") || vlab::util::is_driver_panic(&p) {
                    (1, vec![("linear-run".to_string(), format!("long session: {}", p))])
                } else {
                    c.machinery_error(format!("linear run: harness panic: {}", p));
                    (0, vec![])
                }
            }
        };
        c.add_sweep(&format!("linear-run: one session of {} requests (blocking writes and reads, pairs of non-blocking reads completed newest first)", requests), n, 1, true, vlab::util::J::obj());
        for (k, d) in v {
            c.add_violation(vlab::engine::Violation::new("C14", k, d.clone()), "linear-run", vlab::util::J::obj().set("kind", vlab::util::J::s("case")).set("case", vlab::util::J::s(d)), vec![]);
        }
    }
    c.finish();
}
