use std::time::Duration;
use vlab::c14;
use vlab::drivers::TKind;
use vlab::engine::dfs::{self, DfsConfig};
use vlab::engine::report::{self, Check, Tier};

fn parts(tier: Tier) -> Vec<(TKind, usize, usize, bool)> {
    match tier {
        Tier::Quick => vec![(TKind::Model, 3, 2, false), (TKind::Pci, 2, 1, false), (TKind::Model, 7, 2, true)],
        Tier::Thorough => vec![(TKind::Model, 4, 2, false), (TKind::Model, 5, 1, false), (TKind::MmioLegacy, 3, 2, false), (TKind::MmioModern, 3, 2, false), (TKind::Pci, 3, 2, false), (TKind::Model, 9, 2, true), (TKind::Pci, 7, 2, true)],
    }
}

fn main() {
    let args = report::parse_args();
    vlab::util::install_quiet_panic_hook();
    if let Some(p) = &args.replay {
        let doc = report::load_replay(p).unwrap_or_else(|e| {
            eprintln!("{}", e);
            std::process::exit(2)
        });
        for tier in [Tier::Quick, Tier::Thorough] {
            for (t, d, dev, nb) in parts(tier) {
                if doc.part == format!("blk:{}:depth={}:dev={}:nb={}", t.name(), d, dev, nb as u8) {
                    std::process::exit(vlab::replay::replay_dfs(&doc, &move || c14::run(t, d, nb)));
                }
            }
        }
        eprintln!("unknown part {}", doc.part);
        std::process::exit(2);
    }
    let mut c = Check::new("C14", args.tier, "model_checking");
    c.rule = "DFS over operation sequences (read/write over 5 sector/length variants incl. 2^32 and 2^64-1, flush, device_id, non-blocking read/write with up to 3 outstanding, device completion of any held request, consumption of the next completion) x 4 feature sets, with the device's status a bounded deviation (OK default; IOERR, UNSUPP, 0xff); reference in-memory disk decoding every chain. distinct = distinct observation signatures".into();
    c.assumptions = vec!["blocking helpers are only called with nothing else in flight (their documented precondition)".into()];
    for (t, d, dev, nb) in parts(args.tier) {
        let part = format!("blk:{}:depth={}:dev={}:nb={}", t.name(), d, dev, nb as u8);
        let mut cfg = DfsConfig::new(&part, dev);
        cfg.wall_cap = Duration::from_secs(if args.tier == Tier::Quick { 40 } else { 1500 });
        let st = dfs::explore(&cfg, &move || c14::run(t, d, nb));
        c.add_dfs(&part, &st);
    }
    c.finish();
}
