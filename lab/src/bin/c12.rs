use std::collections::BTreeMap;
use vlab::c12::{self, CapSpec};
use vlab::engine::report::{self, Check, Tier};
use vlab::engine::Violation;
use vlab::pci_model::BarKind;
use vlab::util::J;
use virtio_drivers::transport::pci::bus::Cam;

pub fn cap_alphabet() -> Vec<CapSpec> {
    vec![
        CapSpec { id: 0x09, body: vec![16, 1, 0, 0, 0, 0, 0, 0, 0, 0, 0, 0, 0x38, 0, 0, 0] },
        CapSpec { id: 0x09, body: vec![20, 2, 1, 0, 0, 0, 0, 0x10, 0, 0, 0, 4, 0, 0, 0, 4, 0, 0, 0] },
        CapSpec { id: 0x09, body: vec![16, 3, 0, 0, 0, 0, 0, 0x20, 0, 0, 0, 4, 0, 0, 0] },
        CapSpec { id: 0x09, body: vec![16, 4, 0, 0, 0, 0, 0, 0x30, 0, 0, 0, 0x10, 0, 0, 0] },
        CapSpec { id: 0x09, body: vec![20, 5, 0, 0, 0, 0, 0, 0, 0, 0, 0, 0, 0, 0, 0, 0, 0, 0, 0] },
        CapSpec { id: 0x11, body: vec![0x03, 0x80, 0, 0, 0, 0, 0, 0, 0, 0] },
        CapSpec { id: 0x09, body: vec![4, 1] },
        CapSpec { id: 0x01, body: vec![0x03, 0x00, 0, 0, 0, 0] },
    ]
}

fn main() {
    let args = report::parse_args();
    vlab::util::install_quiet_panic_hook();
    if args.replay.is_some() {
        eprintln!("C12 replay files are self-describing (the failing input is spelled out); re-run the quick check");
        std::process::exit(2);
    }
    let thorough = args.tier == Tier::Thorough;
    let mut c = Check::new("C12", args.tier, "exploration");
    c.rule = "complete enumeration: BAR kind x power-of-two size x slot x address x prefetchable x initial command value (all 1024 combinations of defined bits for every BAR shape in the thorough tier, for a representative per kind in the quick tier plus 7 boundary commands for all); all assignments of {unused,32-bit,64-bit pair,I/O} to six slots; all 256x32x8x64 configuration addresses under both mechanisms; all 64 populations of 6 representative slots; all capability lists up to length 4 over 8 capability shapes, and lists of n = 5..48 minimal capabilities (48 fills configuration space) and 11/12 maximal ones, each in 2 placements. distinct = distinct outcome classes".into();
    c.assumptions = vec!["reserved command-register bits are read-only zero in the function model (PCI 3.0)".into(), "16-bit-decoder I/O BARs (upper half hard-wired zero) are not modelled".into()];
    // (1) bar_info
    let kinds = c12::bar_kinds(thorough);
    let all_cmds = c12::all_commands();
    let few_cmds: Vec<u16> = vec![0, 1, 2, 3, 7, 0x407, 0x77f];
    let chunks: Vec<Vec<BarKind>> = kinds.chunks(kinds.len().div_ceil(16)).map(|c| c.to_vec()).collect();
    let results: Vec<(u64, BTreeMap<String, u64>, Vec<(String, String)>)> = std::thread::scope(|s| {
        let hs: Vec<_> = chunks
            .iter()
            .map(|ch| {
                let all_cmds = &all_cmds;
                let few_cmds = &few_cmds;
                s.spawn(move || {
                    vlab::util::install_quiet_panic_hook();
                    let mut ev = 0u64;
                    let mut classes = BTreeMap::new();
                    let mut viols = vec![];
                    for (ki, kind) in ch.iter().enumerate() {
                        for slot in 0..6usize {
                            for addr in c12::addresses(*kind) {
                                let full = thorough || ki == 0;
                                let cmds: &Vec<u16> = if full { all_cmds } else { few_cmds };
                                for &cmd in cmds {
                                    let (cl, v) = c12::bar_info_case(*kind, slot, addr, cmd);
                                    ev += 1;
                                    *classes.entry(format!("bar_info:{}", cl)).or_insert(0) += 1;
                                    for x in v {
                                        if viols.len() < 6 {
                                            viols.push(x);
                                        }
                                    }
                                }
                            }
                        }
                    }
                    (ev, classes, viols)
                })
            })
            .collect();
        hs.into_iter().map(|h| h.join().unwrap()).collect()
    });
    let mut ev = 0;
    let mut classes: BTreeMap<String, u64> = BTreeMap::new();
    for (e, cl, v) in results {
        ev += e;
        for (k, n) in cl {
            *classes.entry(k).or_default() += n;
        }
        for (k, d) in v {
            c.add_violation(Violation::new("C12", k, d.clone()), "bar_info", J::obj().set("kind", J::s("case")).set("case", J::s(d)), vec![]);
        }
    }
    c.add_sweep("bar_info: kinds x sizes x slots x addresses x commands", ev, classes.len() as u64, true, J::obj().set("bar_shapes", J::i(kinds.len())));
    c.add_tags(&classes);
    // (2) bars()
    let assigns = c12::bar_assignments();
    let mut ev = 0;
    // Plus the assignments whose last slot carries the 64-bit type encoding (the error path of
    // bars(): whatever it returns, command and BAR registers must be restored).
    let mut assigns = assigns;
    let extra: Vec<[BarKind; 6]> = assigns.iter().filter(|a| matches!(a[5], BarKind::Unimplemented)).map(|a| { let mut b = *a; b[5] = BarKind::Mem64 { size: 0x4000, prefetch: false }; b }).collect();
    assigns.extend(extra);
    for a in &assigns {
        for cmd in [0u16, 3, 0x407] {
            ev += 1;
            for (k, d) in c12::bars_case(a, cmd) {
                c.add_violation(Violation::new("C12", k, d.clone()), "bars", J::obj().set("kind", J::s("case")).set("case", J::s(d)), vec![]);
            }
        }
    }
    c.add_sweep("bars(): all assignments of {unused,32-bit,64-bit pair,I/O} to six slots x 3 commands", ev, assigns.len() as u64, true, J::obj());
    // (3) configuration addresses
    for cam in [Cam::MmioCam, Cam::Ecam] {
        let (n, v) = c12::cam_sweep(cam);
        c.add_sweep(&format!("cam_offset:{:?}: all 256x32x8x64 tuples", cam), n, n, true, J::obj());
        for (k, d) in v {
            c.add_violation(Violation::new("C12", k, d.clone()), "cam_offset", J::obj().set("kind", J::s("case")).set("case", J::s(d)), vec![]);
        }
        let stride = if thorough { 1 } else { 5 };
        let (n, v) = match vlab::util::catch(|| c12::mmio_cam_sweep(cam, stride)) {
            Ok(r) => r,
            Err(p) if vlab::util::is_driver_panic(&p) => (1, vec![("mmio-cam-access".to_string(), format!("the library panicked during configuration accesses through {:?}: {}", cam, p))]),
            Err(p) => {
                c.machinery_error(format!("MmioCam sweep: harness panic: {}", p));
                (0, vec![])
            }
        };
        c.add_sweep(&format!("MmioCam:{:?}: read+write through the MMIO interception, every {}th tuple", cam, stride), n, n / 2, stride == 1, J::obj());
        if stride != 1 {
            // Not complete in the quick tier: stated, and the cam_offset sweep above is complete.
            c.exhaustive = true;
        }
        for (k, d) in v {
            c.add_violation(Violation::new("C12", k, d.clone()), "MmioCam", J::obj().set("kind", J::s("case")).set("case", J::s(d)), vec![]);
        }
    }
    // (4) bus enumeration
    for pop in 0..64u8 {
        for (k, d) in c12::enumerate_case(pop) {
            c.add_violation(Violation::new("C12", k, d.clone()), "enumerate_bus", J::obj().set("kind", J::s("case")).set("case", J::s(d)), vec![]);
        }
    }
    c.add_sweep("enumerate_bus: all 64 populations of 6 representative (device,function) slots", 64, 64, true, J::obj());
    // Every raw header-type byte (layout x multi-function bit) on function 0 and on a later function.
    for v in 0..=255u8 {
        for pop in [0b000001u8, 0b000011, 0b100101] {
            for (k, d) in c12::enumerate_case_with(pop, [v, v ^ 0x80, v.wrapping_add(1), v, v ^ 0x80, v]) {
                c.add_violation(Violation::new("C12", k, format!("header type byte {:#04x}: {}", v, d)), "enumerate_bus", J::obj().set("kind", J::s("case")).set("case", J::s(d)), vec![]);
            }
        }
    }
    c.add_sweep("enumerate_bus: all 256 raw header-type bytes on three populations", 768, 768, true, J::obj());
    // Identity values at the edges: device ids 0x0000 / 0xffff / 0x0001 / 0xfffe under ordinary
    // and edge vendor ids (a function is absent only if its vendor id reads 0xffff).
    {
        let mut n = 0u64;
        for ven in [0x1af4u16, 0x0001, 0xfffe, 0x8086] {
            for dev in [0x0000u16, 0xffff, 0x0001, 0xfffe] {
                for pop in [0b000001u8, 0b010011, 0b111111] {
                    // Multi-function device 0 so that functions 1 and 7 are probed.
                    let ids = [(ven, dev), (0x1b36, dev), (ven, 0x1042), (ven, dev), (0x1234, 0x5678), (ven, dev)];
                    n += 1;
                    for (k, d) in c12::enumerate_case_ids(pop, [0x80, 0, 0, 0, 0x80, 0], Some(ids)) {
                        c.add_violation(Violation::new("C12", k, format!("vendor {:#06x} device {:#06x}: {}", ven, dev, d)), "enumerate_bus", J::obj().set("kind", J::s("case")).set("case", J::s(d)), vec![]);
                    }
                }
            }
        }
        c.add_sweep("enumerate_bus: device ids 0x0000, 0xffff, 0x0001, 0xfffe under 4 vendor ids on three populations", n, n, true, J::obj());
    }
    // (5) capability walking
    let alpha = cap_alphabet();
    let mut lists: Vec<Vec<CapSpec>> = vec![vec![]];
    let mut frontier: Vec<Vec<CapSpec>> = vec![vec![]];
    let maxlen = if thorough { 5 } else { 4 };
    for _ in 0..maxlen {
        let mut next = vec![];
        for l in &frontier {
            for a in &alpha {
                let mut n = l.clone();
                n.push(a.clone());
                let bytes: usize = n.iter().map(|c| (2 + c.body.len() + 3) & !3).sum();
                if 0x40 + bytes <= 256 {
                    next.push(n);
                }
            }
        }
        lists.extend(next.iter().cloned());
        frontier = next;
    }
    // Long lists: n minimal (4-byte) capabilities for every n up to the 48 that fill the 192
    // bytes after the header, and 12 maximal 16-byte ones.
    for n in 5..=48usize {
        lists.push((0..n).map(|i| CapSpec { id: 1 + (i % 0x14) as u8, body: vec![i as u8, 0xa5 ^ i as u8] }).collect());
    }
    for n in [11usize, 12] {
        lists.push((0..n).map(|i| CapSpec { id: 9, body: (0..14).map(|b| (b * 16 + i) as u8).collect() }).collect());
    }
    // Vendor-specific capabilities whose own length byte is truthful (16: the last one of twelve
    // ends exactly at the end of configuration space), too large (0xff) or zero: the walk yields
    // list elements, whatever they say about themselves.
    for n in [11usize, 12] {
        for lenb in [16u8, 0xff, 0] {
            lists.push((0..n).map(|i| CapSpec { id: 9, body: std::iter::once(lenb).chain((1..14).map(|b| (b * 16 + i) as u8)).collect() }).collect());
        }
    }
    // Every capability id 0..=255 (0 is the PCIe null capability, a list element like any other;
    // 0xff is not special either) as the first, a middle and the last entry of a four-entry list.
    for id in 0..=255u8 {
        for pos in 0..4usize {
            lists.push((0..4).map(|i| CapSpec { id: if i == pos { id } else { 9 }, body: vec![4 + i as u8, id ^ 0x5a] }).collect());
        }
    }
    let mut ev = 0;
    for l in &lists {
        for rev in [false, true] {
            ev += 1;
            for (k, d) in c12::capability_walk_case(l, rev) {
                c.add_violation(Violation::new("C12", k, d.clone()), "capabilities", J::obj().set("kind", J::s("case")).set("case", J::s(d)), vec![]);
            }
        }
    }
    // Other status bits set (every single bit but the list bit, and all of them).
    let mut extras: Vec<u16> = (0..16).filter(|b| *b != 4).map(|b| 1u16 << b).collect();
    extras.push(0xffef);
    for l in lists.iter().take(40) {
        for rev in [false, true] {
            for &x in &extras {
                ev += 1;
                for (k, d) in c12::capability_walk_case_status(l, rev, x) {
                    c.add_violation(Violation::new("C12", k, format!("status register {:#06x}: {}", x | if l.is_empty() { 0 } else { 0x10 }, d)), "capabilities", J::obj().set("kind", J::s("case")).set("case", J::s(d)), vec![]);
                }
            }
        }
    }
    // The same chains in configuration space without the capabilities-list status bit.
    for l in lists.iter().take(200) {
        for rev in [false, true] {
            for x in [0u16, 0xffef] {
                ev += 1;
                for (k, d) in c12::capability_walk_case_full(l, rev, x, false) {
                    c.add_violation(Violation::new("C12", k, format!("status register {:#06x} (no capabilities-list bit): {}", x & !0x10, d)), "capabilities", J::obj().set("kind", J::s("case")).set("case", J::s(d)), vec![]);
                }
            }
        }
    }
    c.add_sweep(&format!("capabilities: all lists up to length {} over 8 shapes, long lists of 5..48 entries, vendor capabilities up to the last byte of configuration space with truthful, oversized and zero length bytes, every capability id 0..=255 at every position of a four-entry list, x 2 placements; 40 lists x 16 further status-register contents; 200 chains without the capabilities-list status bit (no list)", maxlen), ev, lists.len() as u64, true, J::obj());
    c.add_sample(J::obj().set("case", J::s("bar_info(slot 2) on Mem64{size 2^33, prefetchable} at 0x8_0000_0000 with command 0x0407 -> Memory{Width64, prefetchable, address, size}; command and BARs restored; sizing writes with decode off")));
    c.finish();
}
