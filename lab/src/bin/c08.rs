use std::collections::BTreeMap;
use vlab::c08;
use vlab::drivers::{Kind, TKind, ALL_KINDS, ALL_TKINDS};
use vlab::engine::report::{self, Check, Tier};
use vlab::engine::Violation;
use vlab::util::J;

fn main() {
    let args = report::parse_args();
    vlab::util::install_quiet_panic_hook();
    if args.replay.is_some() {
        eprintln!("C08 replay files are self-describing (driver, transport, offered features); re-run the quick check");
        std::process::exit(2);
    }
    let thorough = args.tier == Tier::Thorough;
    let mut c = Check::new("C08", args.tier, "exploration");
    c.rule = "every driver (11) x transport (model, MMIO legacy, MMIO modern, PCI; MMIO/PCI also through SomeTransport) x offered-feature set from the complete projection: every subset of the driver's supported bits and three unsupported representatives (a device-specific bit, RING_PACKED, bit 63), every single bit, all ones. Each driver computes offered & SUPPORTED bitwise, so behaviour is a function of these bits. distinct = distinct (driver, transport, outcome class)".into();
    c.assumptions = vec!["2^64 offered sets are projected onto the bits that can influence the driver; the premise (accepted is a subset of offered & supported) is itself checked on every case".into()];
    let mut jobs: Vec<(Kind, TKind, bool)> = vec![];
    for k in ALL_KINDS {
        for t in ALL_TKINDS {
            jobs.push((k, t, false));
            if t != TKind::Model && (thorough || k == Kind::Blk || k == Kind::NetRaw) {
                jobs.push((k, t, true));
            }
        }
    }
    let next = std::sync::atomic::AtomicUsize::new(0);
    let results: Vec<(u64, BTreeMap<String, u64>, Vec<(String, String, String)>)> = std::thread::scope(|s| {
        let hs: Vec<_> = (0..16)
            .map(|_| {
                let jobs = &jobs;
                let next = &next;
                std::thread::Builder::new()
                    .stack_size(64 << 20)
                    .spawn_scoped(s, move || {
                        vlab::util::install_quiet_panic_hook();
                        let mut ev = 0;
                        let mut classes = BTreeMap::new();
                        let mut viols = vec![];
                        loop {
                            let i = next.fetch_add(1, std::sync::atomic::Ordering::Relaxed);
                            if i >= jobs.len() {
                                break;
                            }
                            let (k, t, some) = jobs[i];
                            let part = format!("init:{}:{}{}", k.name(), t.name(), if some { ":some" } else { "" });
                            let mut seen = std::collections::HashSet::new();
                            let sets = c08::offered_sets(k);
                            for f in sets.iter().copied() {
                                let o = c08::run_case(k, t, some, f);
                                ev += 1;
                                *classes.entry(format!("{}:{}", part, o.class)).or_insert(0u64) += 1;
                                for (kk, d) in o.viols {
                                    if seen.insert(kk.clone()) {
                                        viols.push((part.clone(), kk, format!("offered {:#x}: {}", f, d)));
                                    }
                                }
                            }
                            // Devices whose status reads do not simply echo the last write: the
                            // handshake's writes must be the same (a few feature sets suffice).
                            for quirk in [1u8, 2] {
                                for f in [sets[0], *sets.last().unwrap(), k.supported() | vlab::drivers::F_VERSION_1] {
                                    let o = c08::run_case_quirk(k, t, some, f, quirk);
                                    ev += 1;
                                    *classes.entry(format!("{}:quirk{}:{}", part, quirk, o.class)).or_insert(0u64) += 1;
                                    for (kk, d) in o.viols {
                                        if seen.insert(format!("q{}:{}", quirk, kk)) {
                                            viols.push((part.clone(), kk, format!("offered {:#x}, device {}: {}", f, if quirk == 1 { "refusing FEATURES_OK" } else { "with a slow reset" }, d)));
                                        }
                                    }
                                }
                            }
                        }
                        (ev, classes, viols)
                    })
                    .unwrap()
            })
            .collect();
        hs.into_iter().map(|h| h.join().unwrap()).collect()
    });
    let mut ev = 0;
    let mut classes: BTreeMap<String, u64> = BTreeMap::new();
    for (e, cl, v) in results {
        ev += e;
        for (k, n) in cl {
            *classes.entry(k).or_default() += n;
        }
        for (part, k, d) in v {
            c.add_violation(Violation::new("C08", k, d.clone()), &part, J::obj().set("kind", J::s("case")).set("case", J::s(d)), vec![]);
        }
    }
    c.add_sweep("init handshake + post-init gating: drivers x transports x offered sets", ev, classes.len() as u64, true, J::obj().set("jobs", J::i(jobs.len())));
    c.add_sample(J::obj().set("case", J::s("blk on mmio-legacy offered 0x130000220: status 0,3 -> read features -> write 0x130000220 -> status 11 -> queue_set(0) -> status 15; flush emitted because FLUSH negotiated; indirect chains allowed")));
    c.finish();
}
