use std::collections::BTreeMap;
use vlab::c11::{self, VCap, GOOD_BAR, GOOD_BAR_ADDR, GOOD_BAR_SIZE};
use vlab::engine::report::{self, Check, Tier};
use vlab::engine::Violation;
use vlab::pci_model::BarKind;
use vlab::util::J;

type Bars = Vec<(usize, BarKind, u64)>;

fn good_bars() -> Bars {
    vec![(GOOD_BAR as usize, BarKind::Mem64 { size: GOOD_BAR_SIZE, prefetch: true }, GOOD_BAR_ADDR), (0, BarKind::Io { size: 0x40 }, 0xc000), (1, BarKind::Mem32 { size: 0x1000, prefetch: false, below_1m: false }, 0xfebd_1000)]
}

struct Acc {
    evals: u64,
    classes: BTreeMap<String, u64>,
    viols: Vec<(String, String, String)>,
}

impl Acc {
    /// The same function without the capabilities-list status bit: it advertises no capabilities,
    /// so construction must fail whatever lies behind the capabilities pointer.
    fn case_no_list(&mut self, part: &str, bars: &Bars, caps: &[VCap], rev: bool) {
        let mut b = c11::build(bars, caps, rev, 3);
        c11::clear_list_bit(&mut b);
        let (class, v, t) = c11::construct_case(&b, &[]);
        if let Some(t) = t {
            std::mem::forget(t);
        }
        vlab::mmio::set_handler(None);
        self.evals += 1;
        *self.classes.entry(format!("construct-no-list-bit:{}", class)).or_insert(0) += 1;
        for (k, d) in v {
            if self.viols.len() < 40 {
                self.viols.push((part.to_string(), k, format!("bars {:x?} caps {:x?} present but not advertised (status bit 4 clear): {}", bars, caps, d)));
            }
        }
    }
    fn case(&mut self, part: &str, bars: &Bars, caps: &[VCap], rev: bool) {
        let b = c11::build(bars, caps, rev, 3);
        let (class, v, t) = c11::construct_case(&b, caps);
        if let Some(t) = t {
            std::mem::forget(t);
        }
        vlab::mmio::set_handler(None);
        self.evals += 1;
        *self.classes.entry(format!("construct:{}", class)).or_insert(0) += 1;
        for (k, d) in v {
            if self.viols.len() < 40 {
                self.viols.push((part.to_string(), k, format!("bars {:x?} caps {:x?}: {}", bars, caps, d)));
            }
        }
    }
}

fn main() {
    let args = report::parse_args();
    vlab::util::install_quiet_panic_hook();
    if args.replay.is_some() {
        eprintln!("C11 replay files are self-describing (BARs and capability list are spelled out); re-run the quick check");
        std::process::exit(2);
    }
    let thorough = args.tier == Tier::Thorough;
    let mut c = Check::new("C11", args.tier, "exploration");
    c.rule = "capability lists: every sequence up to length 4 (thorough 5) over 11 capability shapes, plus every sequence of length 5 (thorough 6) that contains the three mandatory structures, in 2 placements; lists filling configuration space to its last byte (the first capability of each type ending at offset 0x100, a decoy of the same type later in the list); long lists with the device configuration structure as entry 4..35; BAR kinds x offset/length boundary sets with up to two capabilities deviating from the default; notify multipliers; BAR index values; cyclic lists under a read budget; then the full Transport operation script on every accepted layout with every MMIO access classified against the true windows. Oracle: reference parser in 128-bit arithmetic. distinct = distinct outcome classes x parts".into();
    c.assumptions = vec!["8-byte alignment is required of the common configuration window (the driver uses 64-bit accesses)".into(), "which error is returned is not constrained, only error vs success and the selected windows".into()];
    let mut acc = Acc { evals: 0, classes: BTreeMap::new(), viols: vec![] };
    // Part A: list structure.
    let alpha: Vec<VCap> = vec![
        c11::good_common(),
        c11::good_notify(),
        c11::good_isr(),
        c11::good_device(),
        VCap { cap_id: 9, cap_len: 20, cfg_type: 5, bar: 0, offset: 0, length: 0, mult: 0, idpad: 0 },
        VCap { cap_id: 0x11, cap_len: 3, cfg_type: 0x80, bar: 0, offset: 0, length: 0, mult: 0, idpad: 0 },
        VCap { cap_id: 9, cap_len: 8, cfg_type: 1, bar: GOOD_BAR, offset: 0x800, length: 0x38, mult: 0, idpad: 0 },
        VCap { cap_id: 9, cap_len: 16, cfg_type: 2, bar: GOOD_BAR, offset: 0x2800, length: 0x100, mult: 2, idpad: 0 },
        VCap { cap_id: 9, cap_len: 16, cfg_type: 1, bar: GOOD_BAR, offset: 0x800, length: 0x40, mult: 0, idpad: 0 },
        VCap { cap_id: 9, cap_len: 20, cfg_type: 2, bar: GOOD_BAR, offset: 0x2800, length: 0x80, mult: 8, idpad: 0 },
        VCap { cap_id: 9, cap_len: 16, cfg_type: 4, bar: 1, offset: 0x10, length: 0x20, mult: 0, idpad: 0 },
    ];
    let maxlen = if thorough { 6 } else { 5 };
    let mut frontier: Vec<Vec<VCap>> = vec![vec![]];
    let bars = good_bars();
    acc.case("lists", &bars, &[], false);
    for depth in 0..maxlen {
        let mut next = vec![];
        for l in &frontier {
            for a in &alpha {
                let mut n = l.clone();
                n.push(*a);
                let bytes: usize = n.iter().map(|c| (c.spec().body.len() + 2 + 3) & !3).sum();
                if 0x40 + bytes <= 256 {
                    next.push(n);
                }
            }
        }
        for l in &next {
            // The longest lists are only interesting if construction can get past the three
            // mandatory structures (otherwise they repeat the outcome of a shorter list).
            if depth + 1 == maxlen {
                let has = |t: u8| l.iter().any(|c| c.cap_id == 9 && c.cfg_type == t && c.cap_len >= if t == 2 { 20 } else { 16 });
                if !(has(1) && has(2) && has(3)) {
                    continue;
                }
            }
            acc.case("lists", &bars, l, false);
            acc.case("lists", &bars, l, true);
            acc.case_no_list("lists", &bars, l, false);
        }
        frontier = next;
    }
    // Part A': lists that fill configuration space to its last byte. In the reversed placement
    // the first capability of the list ends exactly at offset 0x100; for each structure type in
    // turn that capability is the (valid) first one of its type and a decoy of the same type with
    // another window comes last in the list. In the forward placement the decoy is the one at
    // the end of configuration space.
    {
        let filler = |len: u8| VCap { cap_id: 0x05, cap_len: len, cfg_type: 0, bar: 0, offset: 0, length: 0, mult: 0, idpad: 0 };
        let goods = [c11::good_common(), c11::good_notify(), c11::good_isr(), c11::good_device()];
        let decoys = [
            VCap { offset: 0x800, length: 0x40, ..c11::good_common() },
            VCap { offset: 0x2800, length: 0x80, mult: 8, ..c11::good_notify() },
            VCap { offset: 0x1800, length: 0x10, ..c11::good_isr() },
            VCap { offset: 0x2400, length: 0x20, ..c11::good_device() },
        ];
        for t in 0..4usize {
            let mut l: Vec<VCap> = vec![goods[t]];
            for (k, g) in goods.iter().enumerate() {
                if k != t {
                    l.push(*g);
                }
            }
            let used: usize = 68 + if t == 1 { 20 } else { 16 };
            let mut rest = 192 - used;
            while rest >= 24 {
                l.push(filler(24));
                rest -= 24;
            }
            if rest > 0 {
                l.push(filler(rest as u8));
            }
            l.push(decoys[t]);
            let bytes: usize = l.iter().map(|c| (c.spec().body.len() + 2 + 3) & !3).sum();
            assert_eq!(bytes, 192);
            acc.case("lists-to-the-last-byte", &bars, &l, true);
            acc.case("lists-to-the-last-byte", &bars, &l, false);
        }
    }
    // Part A'': long lists. The three mandatory structures, then n header-only capabilities of
    // other kinds, then the device configuration structure as entry n + 4 (n up to the 31 that fit
    // configuration space): a well-formed list, every entry of which counts.
    for n in [0usize, 8, 20, 21, 24, 25, 31] {
        let mut l: Vec<VCap> = vec![c11::good_common(), c11::good_notify(), c11::good_isr()];
        for i in 0..n {
            l.push(VCap { cap_id: 0x01 + (i % 8) as u8, cap_len: 4, cfg_type: 0, bar: 0, offset: 0, length: 0, mult: 0, idpad: 0 });
        }
        l.push(c11::good_device());
        let bytes: usize = l.iter().map(|c| (c.spec().body.len() + 2 + 3) & !3).sum();
        assert!(0x40 + bytes <= 256);
        acc.case("long-lists", &bars, &l, false);
        acc.case("long-lists", &bars, &l, true);
    }
    // Part A3: a platform whose MMIO mappings are 1, 2 or 4 bytes off.
    for skew in [1usize, 2, 4] {
        acc.evals += 1;
        for (k, d) in c11::skewed_mapping_case(skew) {
            acc.viols.push(("skewed-mapping".to_string(), k, d));
        }
    }
    // Part B: BAR kinds and offset/length boundaries, one or two deviating capabilities.
    let bar_opts: Vec<(BarKind, u64)> = vec![
        (BarKind::Mem64 { size: GOOD_BAR_SIZE, prefetch: true }, GOOD_BAR_ADDR + 0x1_0000_0000),
        (BarKind::Mem32 { size: 0x4000, prefetch: false, below_1m: false }, 0xfe00_0000),
        (BarKind::Mem64 { size: 1 << 33, prefetch: false }, 0x10_0000_0000),
        // Exactly 4 GiB: the only power-of-two size a 32-bit offset+length can exceed by carrying
        // into bit 32.
        (BarKind::Mem64 { size: 1 << 32, prefetch: false }, 0x20_0000_0000),
        (BarKind::Mem64 { size: 1 << 31, prefetch: false }, 0x30_0000_0000),
        (BarKind::Mem64 { size: 1 << 63, prefetch: false }, 1 << 63),
        (BarKind::Mem64 { size: GOOD_BAR_SIZE, prefetch: true }, 0),
        (BarKind::Io { size: 0x100 }, 0xc000),
        (BarKind::Unimplemented, 0),
        (BarKind::Mem32 { size: 0x10, prefetch: false, below_1m: false }, 0xfe00_0000),
    ];
    let vals = |size: u64, len: u32| -> Vec<u32> {
        let s = size.min(u32::MAX as u64 + 1);
        let mut v: Vec<u64> = vec![0, 4, 8, s.saturating_sub(len as u64), s.saturating_sub(len as u64) + 1, s.saturating_sub(len as u64) + 8, s, (1u64 << 32) - len as u64, (1u64 << 32) - len as u64 + 8, (1 << 32) - 1, (1 << 32) - 8, 0x8000_0000, 0xffff_f000];
        v.retain(|x| *x <= u32::MAX as u64);
        v.sort();
        v.dedup();
        v.into_iter().map(|x| x as u32).collect()
    };
    let base = [c11::good_common(), c11::good_notify(), c11::good_isr(), c11::good_device()];
    for k in 0..4 {
        for (bk, addr) in &bar_opts {
            let size = match bk {
                BarKind::Mem32 { size, .. } | BarKind::Mem64 { size, .. } => *size,
                _ => 0x1000,
            };
            let mut bars: Bars = vec![(GOOD_BAR as usize, BarKind::Mem64 { size: GOOD_BAR_SIZE, prefetch: true }, GOOD_BAR_ADDR)];
            bars.push((2, *bk, *addr));
            let lens: Vec<u32> = {
                let mut l = vec![0u32, 1, 2, 4, 0x37, 0x38, 0x40, 0x1000, 0x8000_0000, 0xffff_ffff, 0xffff_fff8];
                l.sort();
                l.dedup();
                l
            };
            for &len in &lens {
                for off in vals(size, len) {
                    let mut caps = base.to_vec();
                    caps[k].bar = 2;
                    caps[k].offset = off;
                    caps[k].length = len;
                    acc.case("values-1dev", &bars, &caps, false);
                    if thorough || (off % 0x1000 == 0 && len >= 0x38) {
                        // Second deviation: another capability at a boundary of the good BAR.
                        for k2 in 0..4 {
                            if k2 == k {
                                continue;
                            }
                            for (o2, l2) in [(0x3fc8u32, 0x38u32), (0x3fd0, 0x38), (0xffff_fff8, 0x10), (0x4000, 0)] {
                                let mut c2 = caps.clone();
                                c2[k2].offset = o2;
                                c2[k2].length = l2;
                                acc.case("values-2dev", &bars, &c2, false);
                            }
                        }
                    }
                }
            }
        }
    }
    // Part C: notify multipliers; Part D: BAR index values.
    for m in [0u32, 1, 2, 3, 4, 6, 0x1000, 0xffff_fffe, 0xffff_ffff] {
        let mut caps = base.to_vec();
        caps[1].mult = m;
        acc.case("notify-multiplier", &good_bars(), &caps, false);
    }
    for k in 0..4 {
        for bar in [0u8, 1, 2, 3, 4, 5, 6, 7, 8, 59, 60, 63, 64, 128, 255] {
            let mut caps = base.to_vec();
            caps[k].bar = bar;
            acc.case("bar-index", &good_bars(), &caps, false);
        }
    }
    // Part D'': the `id` and padding bytes of a capability. They do not take part in the choice
    // ("first sufficiently long capability of each type"): each capability in turn gets non-zero
    // values there, with a decoy of the same type (another, also valid window) behind it.
    for k in 0..4 {
        for idpad in [0x0000_01u32, 0x0000_ff, 0x00aa_00, 0x5500_00, 0xffff_ff] {
            let mut caps = base.to_vec();
            caps[k].idpad = idpad;
            let mut decoy = base[k];
            decoy.offset = match k {
                0 => 0x800,
                1 => 0x3800,
                2 => 0x1800,
                _ => 0x2800,
            };
            decoy.length = decoy.length.min(0x800);
            caps.push(decoy);
            acc.case("cap-id-padding", &good_bars(), &caps, false);
            acc.case("cap-id-padding", &good_bars(), &caps, true);
        }
    }
    // Part D': the last BAR slot. A 32-bit memory BAR there is usable; the 64-bit type encoding
    // there has no upper half (the next register is not a BAR), so a window in it is invalid.
    for k in 0..4 {
        for (bk, addr) in [
            (BarKind::Mem32 { size: 0x4000, prefetch: false, below_1m: false }, 0xfe00_0000u64),
            (BarKind::Mem64 { size: 0x4000, prefetch: false }, 0xfe00_0000u64),
            (BarKind::Mem64 { size: 0x4000, prefetch: true }, 0x9_0000_0000u64),
        ] {
            for (off, len) in [(0u32, 0x1000u32), (0x3000, 0x1000), (0x3fc8, 0x38)] {
                let mut bars: Bars = vec![(GOOD_BAR as usize, BarKind::Mem64 { size: GOOD_BAR_SIZE, prefetch: true }, GOOD_BAR_ADDR)];
                // GOOD_BAR is slot 4 and 64-bit: it occupies slot 5 as well, so use a 32-bit good BAR.
                bars[0] = (0, BarKind::Mem32 { size: GOOD_BAR_SIZE, prefetch: false, below_1m: false }, 0xfd00_0000);
                bars.push((5, bk, addr));
                let mut caps = base.to_vec();
                for c in caps.iter_mut() {
                    c.bar = 0;
                }
                caps[k].bar = 5;
                caps[k].offset = off;
                caps[k].length = len;
                acc.case("last-bar-slot", &bars, &caps, false);
            }
        }
    }
    let (ev, classes, viols) = (acc.evals, acc.classes.clone(), std::mem::take(&mut acc.viols));
    c.add_sweep("construction: lists + values (<=2 deviating capabilities) + multipliers + BAR indices", ev, classes.len() as u64, true, J::obj().set("outcomes", J::Obj(classes.iter().map(|(k, v)| (k.clone(), J::i(*v))).collect())));
    c.add_tags(&classes);
    for (part, k, d) in viols {
        c.add_violation(Violation::new("C11", k, d.clone()), &part, J::obj().set("kind", J::s("case")).set("case", J::s(d)), vec![]);
    }
    // Part E: operation script on accepted layouts.
    let layouts: Vec<(Bars, Vec<VCap>)> = vec![
        (good_bars(), base.to_vec()),
        (good_bars(), vec![base[3], base[2], base[1], base[0]]),
        (good_bars(), vec![base[0], base[1], base[2]]),
        (
            vec![(2, BarKind::Mem32 { size: 0x1000, prefetch: false, below_1m: false }, 0xfe00_0000), (4, BarKind::Mem64 { size: 1 << 33, prefetch: false }, 0x10_0000_0000)],
            vec![
                VCap { cap_id: 9, cap_len: 16, cfg_type: 1, bar: 2, offset: 0xfc8, length: 0x38, mult: 0, idpad: 0 },
                VCap { cap_id: 9, cap_len: 20, cfg_type: 2, bar: 4, offset: 0xffff_f000, length: 0x1000, mult: 0x100, idpad: 0 },
                VCap { cap_id: 9, cap_len: 16, cfg_type: 3, bar: 2, offset: 0x7, length: 1, mult: 0, idpad: 0 },
                VCap { cap_id: 9, cap_len: 16, cfg_type: 4, bar: 4, offset: 0x1_0000, length: 0x10, mult: 0, idpad: 0 },
            ],
        ),
        (good_bars(), vec![base[0], VCap { mult: 0, ..base[1] }, base[2], base[3]]),
        (good_bars(), vec![base[0], VCap { mult: 2, ..base[1] }, base[2], base[3]]),
    ];
    let mut ev = 0;
    for (bars, caps) in &layouts {
        for lag in [0u32, 1, 2] {
            for wrap in [false, true] {
                let (n, v) = c11::run_ops_case(bars, caps, lag, wrap);
                ev += n;
                for (k, d) in v {
                    c.add_violation(Violation::new("C11", k, format!("layout {:x?} lag {} some={}: {}", caps, lag, wrap, d)), "ops", J::obj().set("kind", J::s("case")).set("case", J::s(d)), vec![]);
                }
            }
        }
    }
    c.add_sweep("operations: full Transport script (features, status, per-queue set/used/notify/unset for 3 queues, ISR, generation, drop with reset lag 0..2) on 6 layouts, plain and through SomeTransport", ev, layouts.len() as u64 * 6, true, J::obj());
    // Part G: window lengths that are not a multiple of the access width.
    {
        let mut ev = 0;
        let mut cases = 0;
        for nl in [2u32, 3, 4, 5, 6, 7, 9, 13] {
            for mult in [2u32, 4] {
                for dl in [4u32, 5, 6, 7, 9, 10, 11, 17, 18, 19] {
                    let (n, v) = c11::run_odd_windows(&good_bars(), nl, mult, dl);
                    ev += n;
                    cases += 1;
                    for (k, d) in v {
                        c.add_violation(Violation::new("C11", k, format!("notify window of {} bytes (multiplier {}), device configuration window of {} bytes: {}", nl, mult, dl, d)), "odd-window-lengths", J::obj().set("kind", J::s("case")).set("case", J::s(d)), vec![]);
                    }
                }
            }
        }
        c.add_sweep("odd window lengths: notify on 3 queues and configuration reads/writes of width 1/2/4 at every aligned offset up to 8 bytes past the window, for notify windows of 2..13 bytes and device configuration windows of 4..19 bytes", ev, cases, true, J::obj());
    }
    // Part F: cyclic capability lists.
    {
        let mut ev = 0;
        for target in [0usize, 1, 2] {
            let caps = base.to_vec();
            let b = c11::build(&good_bars(), &caps, false, 3);
            // Make the last capability point back at capability `target`.
            {
                let mut bus = b.bus.borrow_mut();
                let f = bus.funcs.get_mut(&(c11_df().0, c11_df().1, c11_df().2)).unwrap();
                let mut offs = vec![];
                let mut o = f.raw[0x34] as usize;
                while o != 0 {
                    offs.push(o);
                    o = f.raw[o + 1] as usize;
                }
                let last = *offs.last().unwrap();
                f.raw[last + 1] = offs[target] as u8;
            }
            let (_class, v, t) = c11::construct_case(&b, &caps);
            if let Some(t) = t {
                std::mem::forget(t);
            }
            vlab::mmio::set_handler(None);
            ev += 1;
            for (k, d) in v {
                if k == "wrong-windows" || k == "rejects-valid" {
                    continue;
                }
                c.add_violation(Violation::new("C11", k, format!("cyclic capability list (last -> #{}): {}", target, d)), "cyclic-lists", J::obj().set("kind", J::s("case")).set("case", J::s(d)), vec![]);
            }
        }
        c.add_sweep("cyclic capability lists under a 20000-read budget", ev, ev, true, J::obj());
    }
    c.add_sample(J::obj().set("case", J::s("BAR2 = Mem64 size 2^33 at 0x10_0000_0000; common cap {bar 2, offset 0xffff_fff8, length 0x10}: 32-bit sum wraps -> must be rejected with an error")));
    c.finish();
}

fn c11_df() -> (u8, u8, u8) {
    (vlab::c12::DF.bus, vlab::c12::DF.device, vlab::c12::DF.function)
}
